"""Per-property claim table used by gen_manifest.py.

CLAIMED[pid] = (level text, level note, technique, DESIGN.md reference)
NOT_APPLICABLE[pid] = reason
Properties move from NOT_APPLICABLE to CLAIMED as their rule sets are built.
"""

_NOTE = ("Trusted base: the Python grammar/ast module; the canonicaliser (framelint/canon.py) and the rule tables. "
         "A rule decides a structural necessary condition of the property on every path/site; it does not compute "
         "numerical behaviour. assert is FRAME's rejection mechanism (python -O voids reject clauses).")

CLAIMED = {
    "C08": (
        "Static decision of the structure of the formula the shape search generates: the interval-variable clauses of a box are "
        "closed under x<->y and (per cell) low<->high, with the cell => bounds anchor; exactly one attachment direction; the "
        "adjacency clauses of the four directions are images of each other under x<->y and under the reflection of either axis "
        "(axis-aware order reversal), with the west clause anchored to its definition; die-border exclusions compare with grid "
        "coordinates (never a literal or an int()-truncated size); enforce_bb for every box with box 0 as trunk, per-cell "
        "at-most-one, cell <=> some box; cell tuples and the bounding-box update position by position. Not decided: the model "
        "set of the CNF; optimality w.r.t. the cost bound.",
        _NOTE, "involution closure with role-discovered variables (CLOSED) + KIND rule on comparisons + LOOP-COVER", "DESIGN.md 6/C08"),
    "C09": (
        "Static decision of the legaliser's equation structure: role->slot->Cardinal->builder tables agree (CCP on add_rect); "
        "the four attachment builders are images under x<->y and axis reflection, north anchored to its definition; die-bound "
        "equations closed under x<->y with the low/high anchor, variable bounds from the die, one ratio equation, thin() "
        "symmetric; an Area equation per module; per side list sort + consecutive-pair separation on the side's own axis; "
        "smooth no-overlap over all rectangle pairs of all module pairs with mirrored x/w and y/h terms; fixing tables free of "
        "int/float representation tests, branch offsets trunk-relative exactly for movable hard modules; the comparison "
        "dispatch of add_equation / apply_equation / is_equation_met / surplus agrees. Not decided: smoothing tolerance, GEKKO.",
        _NOTE, "MIRROR/CLOSED + CCP tables (partial evaluation) + sibling agreement + REPR-INDEP", "DESIGN.md 6/C09"),
    "C10": (
        "Static decision of the clauses visible in the optimiser's code: rectangle geometry is written only for hard, movable "
        "modules (recenter + flip under dominating guards), never shapes, the flip is the reflection about the module centre "
        "on both axes; the model declares ratio variables in [0,1], a capacity equation per cell over all modules, centre "
        "variables bounded by the die (x/y alike), fixed modules as constants, an area equation per module; the returned "
        "allocation is rebuilt on the input cells with ratios kept above 1 - threshold; refine only under must_be_refined. "
        "Not applicable: what the non-linear solver returns.",
        _NOTE, "dominating-guard facts + canonical-form obligation checks + effect analysis", "DESIGN.md 6/C10"),
    "C15": (
        "Static decision of the decomposition's structure: the N/S and W/E histogram loops are images under transposition; the "
        "four branch-extraction blocks map onto each other under transposition and index reflection; trunk candidates = "
        "matrix candidates intersected with the transpose's candidates mapped back, filtered by the four empty quadrants; "
        "INDEX-OF typing (row index only into rows / y coordinates / E-W histograms ...) in StropInstance, _empty_corners and "
        "strop_decomposition; rectangle geometry from coordinate[index] / coordinate[index+1]; validity = all set cells "
        "accounted for; assert is_strop dominates use. Not decided: exhaustiveness of trunk candidates; point-in-polygon.",
        _NOTE, "MIRROR with role-discovered variables + INDEX-OF kind typing + obligation checks", "DESIGN.md 6/C15"),
    "C20": (
        "Static who-writes inventory of all process-wide state in frame/ and tools/ (global re-binding, module-level "
        "containers, class attributes written through the class, class-level mutable attributes) equals the confirmed table "
        "with the confirmed writers; every Rectangle.set_epsilon call in library code is dominated by 'not epsilon_defined()' "
        "with a relative tolerance <= 1e-9 and undefine_epsilon is never called; mutable default arguments are neither "
        "mutated nor stored (effect analysis); the legaliser re-defines its slack before any equation on every Model "
        "construction; the debug mask is read only by debug(). Not decided: whether a 1000x tolerance change flips a "
        "particular comparison.",
        _NOTE, "who-writes inventory + dominating-guard facts + effect/escape analysis + must-precede", "DESIGN.md 6/C20"),
    "C07": (
        "Static decision of the encoder's structure: pseudoboolencoding posts a clause / asserts the diagram root / raises on "
        "every path and the only silent path (tautology shortcut of isclause, found by path tabulation) is sound for both '>=' "
        "and '>'; the one-directional Tseitin translation of a node (variable, THEN, ELSE) has the right polarity and children; "
        "check-then-mark on per-instance state; the diagram store is append-only, keyed by the full triple, written only by "
        "constructrobdd; pairwise and Heule at-most-one cover/partition the literals with opposite polarity of the fresh "
        "variable; imply negates the antecedents; the Ineq operator table (CCP); leaf tests / if-else propagation duality of "
        "both ROBDD constructions; solve/tocnf/value/evalexpr sign conventions agree. Not decided: the iff over all "
        "assignments as a whole; solver behaviour.",
        _NOTE, "CFG must-pass + CCP path tabulation + canonical-form LAW/TUPLE checks + who-writes", "DESIGN.md 6/C07"),
    "C13": (
        "Static decision that every write of a module position/centre in the layout is dominated by a not-fixed test of that "
        "module, that each position update is capped by the temperature and followed by the clamp to the die on both axes, that "
        "the layout writes nothing but centres (interprocedural effects), that trials run on deep copies, that no "
        "nondeterminism source is reachable, and that the final layout uses the constant minimising overlap + wirelength/2 "
        "(strict test, full list). Not decided: finiteness of coordinates under extreme forces.",
        _NOTE, "dominating-guard facts + effect analysis + NONDET scan over the call graph + dataflow", "DESIGN.md 6/C13"),
    "C14": (
        "Static decision (typestate dataflow on the CFG) that the last writer of each coordinate vector at the end of a "
        "dimension's iteration is normalize(); normalize scales exactly the movable entries by min(max_span/|x|) over movable "
        "entries; fixed nodes are kept by the centroid step and orthogonalize; radius = sqrt(mass/pi), max_span = size/2 - "
        "radius; Spectral.spectral_layout writes centres only for movable modules, re-centres only hard movable modules by a "
        "rigid translation, and touches neither areas nor nets. Not applicable: convergence, the random start, round-off of "
        "the scaling.",
        _NOTE, "typestate dataflow + dominating-guard facts + effect analysis + canonical-form checks", "DESIGN.md 6/C14"),
    "C16": (
        "Static decision of the algebra's structure: __mul__ scales every coefficient and the constant (SCALE); the "
        "opposite-polarity merge is the same-polarity merge of -c plus constant += c (LAW k*not l = k - k*l); zero-elimination "
        "and sign normalisation follow every coefficient write in __add__ and __mul__; new terms are keyed by their own "
        "variable; the Ineq operator table by partial evaluation; every comparison dunder of Literal/Term/Expr builds the "
        "inequality of its own name; __sub__ negates. Not decided: semantic equality under all assignments as a whole.",
        _NOTE, "canonical-form LAW/SCALE checks + CCP table + sibling agreement", "DESIGN.md 6/C16"),
    "C17": (
        "Static decision of totality only: both acos arguments are syntactically clamped to [-1, 1] (an exact-arithmetic case "
        "split is not accepted as a floating-point guard); the far-apart and nested cases are decided first so that the "
        "division by d is dominated by d > |r1 - r2| >= 0; the two angles mirror each other under r1<->r2; the caller passes "
        "sqrt(area/pi). Not applicable to this family: symmetry, bounds and the 1e-5 accuracy (numerical).",
        _NOTE, "DOMAIN rule on the AST + dominating-guard facts + path tabulation", "DESIGN.md 6/C17"),
    "C04": (
        "Static decision of the write->read round trip's structure: writer key set == reader key set; per-region areas are "
        "written as a mapping whenever a scalar would be lossy; the writer reads every document-derived field of Module, every "
        "rectangle field and both net fields; the kind flags emitted for each consistent kind (partial evaluation of the writer) "
        "decode to the same kind (partial evaluation of the constructor); order-preserving iteration on both sides; omission "
        "constants (weight 1, ground region) equal the reader's defaults; writing has no effect beyond idempotent memos. Not "
        "decided: ruamel's float formatting.",
        _NOTE, "schema extraction + conditional constant propagation (CCP-TABLE) + effect analysis", "DESIGN.md 6/C04"),
    "C05": (
        "Static decision that each of the eleven ill-formed classes is refused by an assertion every offending item must pass "
        "(loop/guard context checked; net arity by length-interval analysis through the weight stripping), and that derived "
        "quantities are computed by their definitions (area sums, area-weighted centroid with x/y symmetry, wire length to the "
        "mean of member centres times weight, rectangle lists). Not decided: numeric values.",
        _NOTE, "obligation inventory on canonical forms + LEN interval analysis + LAW checks", "DESIGN.md 6/C05"),
    "C19": (
        "Static decision for every producer (die/allocation writers, netlist generator, FloorSet converter, normalisation and "
        "legalisation netlists): emitted keys are accepted by the reader (incl. keys inside string templates and the FloorSet "
        "copy of the keyword table), re-emitting stages read every attribute the format can carry, producers have no effect on "
        "their inputs (interprocedural effect analysis with alias tracking), document values are definitely assigned within the "
        "loop iteration, generated nets have >= 2 members, die/allocation tables have the reader's shape and defaults. Not "
        "decided: field-by-field equality of reloaded objects.",
        _NOTE, "schema extraction + interprocedural effect analysis + definite-assignment dataflow", "DESIGN.md 6/C19"),
    "C01": (
        "Static decision that an accepted die tiles: in Die.__init__ every write of a region list is followed on all paths by "
        "the self-check (found by role); the self-check asserts inside-the-die (both corners, both axes), non-overlap for all "
        "unordered pairs and |area sum - die area| < tolerance over all four lists, all tolerance-aware; the reader refuses the "
        "nine ill-formed classes; (x,y,w,h,tag) positions agree across reader/writers and parsed regions are stored untouched; "
        "INDEX-OF typing of the Hanan-grid code (column index only into _x / second level of the cell matrix ...); x/y mirror "
        "symmetry of gather_boundaries, the region expansion and the chosen ground rectangle. Not decided: that the greedy "
        "cover never fails on a valid die for combinatorial reasons; round-off magnitude.",
        _NOTE, "CFG must-pass + obligation inventory via dominating facts + INDEX-OF kind typing + MIRROR", "DESIGN.md 6/C01"),
    "C02": (
        "Static decision that refinement only redistributes split() outputs of the parent's own rectangle (both halves reach the "
        "result, popped cells are kept or replaced, results built from the whole work list, no geometry writes in allocation.py), "
        "that every new cell carries a value-preserving copy of the parent's occupancy map, that every cut is guarded by a "
        "not-fixed test, that cut indices subscript their own boundary list, that the constructor always runs the all-pairs "
        "overlap check and the area/centre computation, and that the two cut loops mirror each other. With C18 (a split tiles its "
        "operand) this gives tiling/area/centroid conservation algebraically. Not decided: numeric equality up to round-off.",
        _NOTE, "CONSUME-ALL dataflow + dominating-guard facts + INDEX-OF typing + MIRROR", "DESIGN.md 6/C02"),
    "C03": (
        "Static decision of the initial allocation's structure: cells = refinable + fixed regions with empty maps; create_squares "
        "dominates every read of module rectangles; the ratio is sum over all module rectangles of area_overlap(cell, r) / area "
        "of the same cell (in allocator and detector); fixed cells get {module: 1.0}, are skipped by the general loop, and the "
        "detector asserts the two-sided ~0/~1 test and the per-module count; an entry is recorded iff include_zero or ratio > 0; "
        "the default square has side sqrt(area) at the module centre. Not decided: the overlap value itself (C18).",
        _NOTE, "canonical-form LAW checks + CFG must-precede + dominating-guard facts", "DESIGN.md 6/C03"),
    "C12": (
        "Static decision that must_be_refined's per-cell predicate is syntactically (canonical form) the predicate under which "
        "refine splits, that depth/levels arithmetic is +1/-1 with base case levels == 0 entered only with levels > 0, that "
        "uniform refinement asks for max depth - depth levels, that split() halves the longer side, that each griddify loop "
        "covers all interior boundaries of its own list under the not-fixed/cuttable(1%) guard, and that the decision is pure. "
        "Not decided: nothing numeric is involved beyond the h > w comparison.",
        _NOTE, "PRED-EQ on canonical forms + CCP path table + LOOP-COVER + effect scan", "DESIGN.md 6/C12"),
    "C06": (
        "Static decision of the structural clauses of orthogon recognition: find_location is tabulated by path-sensitive "
        "constant propagation (overlap pre-check dominates; one abutment + one extent test per side; table closed under "
        "x<->y and low<->high; NORTH anchored to its geometric definition); create_stog excludes the trunk by identity, "
        "uses the same predicate in the candidate test and the labelling, resets all roles on every failing path, only "
        "permutes the list and writes .location, puts the trunk first and labels positions 1..n-1. Not decided: adequacy "
        "of the tolerance value.",
        _NOTE, "AST canonical forms + CCP path table + CFG must-pass + effect scan", "DESIGN.md 6/C06"),
    "C11": (
        "Static decision that die refinement only redistributes split() outputs: both halves of every split and every "
        "popped rectangle reach a work list, every return is the whole result collection, every push into the result is "
        "dominated by the aspect-ratio test, every exit by len(result) >= n, pieces go back to exactly one refinable list "
        "by tag, only the constructor writes blockages/fixed regions, initial_grid insists on a clean die and calls "
        "rectangle_grid(nrows, ncols). Tiling of a single split is C18. Not decided: numeric ratio values.",
        _NOTE, "CFG dominating-guard facts (SINK-CHECK), CONSUME-ALL dataflow, who-writes inventory", "DESIGN.md 6/C11"),
    "C18": (
        "Static decision of the geometric laws of Rectangle on canonical forms: invariance under x<->y, low<->high and "
        "operand swap (any one-sided edit of a symmetric computation is caught), strictness conventions of "
        "overlap/emptiness/cuttable, duplicate() copies every constructor attribute and all pieces derive from it, and "
        "symbolic (polynomial normal form) tiling identities for split_horizontal/vertical, rectangle_grid, __mul__, "
        "area_overlap, bounding_box. Not decided: floating-point round-off.",
        _NOTE, "canonical-form involution closure (MIRROR/CLOSED) + polynomial-normal-form identities (LAW)", "DESIGN.md 6/C18"),
}

_PENDING = "rule set under construction in this round (see DESIGN.md section 6 for the planned structural clauses)"

NOT_APPLICABLE = {
}


# clauses added after the first round (self-validation survivors, seeded changes); appended to the level text
ADDED = {
    "C01": "Also: area-sum tolerance finer than the overlap test's slack; every fixed rectangle of the netlist becomes a fixed region; cell occupancy by "
           "tolerance-robust centre containment; the geometry helpers the die calls satisfy the C18 laws. The tolerance primitives (default area tolerance = sqrt(distance tolerance), absolute almost_eq, overlap definition) and 'numbers are carried as given' (no rounding anywhere in the library) hold. The fixed / hard flags of a module reach every rectangle the reader builds, in both spellings of the rectangle list (C05 rule): that flag is how the die learns about fixed regions. Records (BoundingBox, RectAlloc ...) hold the values they are constructed with.",
    "C02": "Also: termination of the recursive splitter (base case, levels-1, non-negative level counts at every caller); module area / centre measured as the "
           "sum over all cells (no cut-off); split helpers and overlap test satisfy the C18 laws. The tolerance primitives and 'numbers are carried as given' hold. Records (RectAlloc, BoundingBox ...) hold the values they are constructed with (no hook that renormalises ratios or drops entries).",
    "C03": "Also: owner candidates are exactly the fixed modules, against every cell; zero entries off by default and handed through; queries are effect-free and "
           "unmemoised; area_overlap / area / bounding_box satisfy the C18 laws. The tolerance primitives and 'numbers are carried as given' hold. Building the initial allocation stores no attribute of a rectangle / module / point (shapes are the ones the netlist describes).",
    "C04": "Also: the net / module / rectangle / section codecs are inverse pairs entry by entry; the YAML emitter keeps insertion order; the reader's trunk "
           "normalisation leaves a normalised list unchanged (ties keep the earlier trunk).",
    "C05": "Also: fixed / hard flags reach every rectangle; valid_identifier accepts exactly the ASCII identifier language (regex literal read class by class); "
           "exact Point arithmetic; overlap test satisfies the C18 laws. Numbers are carried as given (no rounding in the library, coordinate setters store their argument). The wire length is a plain property recomputed on every read (no memo).",
    "C06": "Also: pruning only after a valid trunk was found (recognition independent of list order). The tolerance primitives hold (almost_eq is the absolute test, the same everywhere in the plane). The reader builds one rectangle for every entry of a module's rectangle list, unconditionally.",
    "C07": "Also: the Expr arithmetic that builds the inequalities satisfies the C16 normal-form laws. The encoding code computes with integers only (no true division, float(), math / numpy call or arithmetic with a float literal in tools/rect/pseudobool.py).",
    "C08": "Also: per-cell constraints are posted unconditionally; the four die-border exclusions are independent tests; the encoding layer satisfies the C07 rules. definecoords builds the grid tables from all cells (blocks, sorted border sets, next/prev links). select_box adds a tuple for every cell of the allocation (cells without the module have ratio 0).",
    "C09": "Also: hard/fixed tables use identity tests (an offset of 0.0 is an offset); branch sides come from the exact find_location (C06 rule). The fixing tables number the branches in the order of the module tuple's side lists; the tolerance primitives hold. smax is exactly (x + y + sqrt((x - y)^2 + 4 tau^2)) / 2 (polynomial identity).",
    "C10": "Also: capacity posted for every cell over all modules including constants; geometry written only for non-rigid cases; the initial-grid helper "
           "satisfies the C18 tiling laws. Re-centring is a rigid translation (C14 rule for recenter_rectangles); the centre setter only stores; numbers are carried as given. The refinement steps never cut the cell of a fixed module, for every threshold (C02 rule for refine / must_be_refined).",
    "C11": "Also: term ownership of the work queue; split / grid helpers hand on the region tag and tile (C18 laws). The tolerance primitives and 'numbers are carried as given' hold.",
    "C12": "Also: cut sources of griddify; cuttable tests and split helpers satisfy the C18 laws. The tolerance primitives and 'numbers are carried as given' (gather_boundaries does not round) hold. Records (RectAlloc ...) hold the values they are constructed with (zero entries are not dropped behind the caller's back).",
    "C13": "Also: every trial and the final run use the same iteration count; no memo cache / module-level object in the relocation code; exact Point arithmetic. The centre setter of Module only stores the centre; no wrapping decorators in the tool; numbers are carried as given. The wire-length term is a plain property recomputed on every read; no wrapping decorator on the library functions the tool reaches.",
    "C14": "Also: graph construction writes only the graph (nets untouched); re-centring moves the rectangles onto the area-weighted centroid and is a no-op for "
           "modules without rectangles. The centre setter of Module only stores the centre; numbers are carried as given.",
    "C15": "Also: polygon ring closure in the point-in-polygon helper; the converter's output is recognised as an orthogon (C06 rules). The branch rectangles are the maximal runs of the side histograms (run re-opened at every height change); the tolerance primitives hold. Interval.intersection is empty exactly when max(lows) > min(highs) (decided on the paths of its normal form).",
    "C16": "Also: term ownership (a result never aliases an operand's term table). Terms enter an expression only through Expr.__add__: every Expr(c, table) construction hands over the table of an existing expression.",
    "C17": "Also: centre distance through exact, unsigned Point arithmetic (norm = sqrt(x^2+y^2) for every vector, no rounding in + / -). The overlap function is a function of its arguments (no wrapping decorator, no process-wide state in the tool); numbers are carried as given.",
    "C18": "Also: containment definitions (is_inside / point_inside / touches) as coordinate comparisons. split_rectangles only redistributes what split() returns (C11 rules); the tolerance primitives and 'numbers are carried as given' hold. Records (BoundingBox ...) hold the values they are constructed with (no snapping / rounding hook).",
    "C19": "Also: the text netlist of the normalisation stage keeps every kind (partial evaluation of its flag chain decoded by the constructor); generated nets "
           "name modules the same generator declares (chain test evaluated at 0,1,2,3,1000; arities agree); the YAML sink keeps order. The FloorSet converter's rectangles come from the run extraction / validity count of StropInstance (C15 rules). The FloorSet converter stores 'hard', 'fixed' and 'terminal' in a module's mapping only under conditions that exclude each other.",
    "C20": "Also: memoising decorators and module-level objects count as process-wide state; library code compares with its own tolerance, not a foreign one. The tolerance primitives hold. A module-level container written through a local alias or a default argument counts as process-wide state.",
}
