"""Per-property claim table used by gen_manifest.py.

CLAIMED[pid] = (level text, level note, technique, DESIGN.md reference)
NOT_APPLICABLE[pid] = reason
Properties move from NOT_APPLICABLE to CLAIMED as their rule sets are built.
"""

_NOTE = ("Trusted base: the Python grammar/ast module; the canonicaliser (framelint/canon.py) and the rule tables. "
         "A rule decides a structural necessary condition of the property on every path/site; it does not compute "
         "numerical behaviour. assert is FRAME's rejection mechanism (python -O voids reject clauses).")

CLAIMED = {
    "C06": (
        "Static decision of the structural clauses of orthogon recognition: find_location is tabulated by path-sensitive "
        "constant propagation (overlap pre-check dominates; one abutment + one extent test per side; table closed under "
        "x<->y and low<->high; NORTH anchored to its geometric definition); create_stog excludes the trunk by identity, "
        "uses the same predicate in the candidate test and the labelling, resets all roles on every failing path, only "
        "permutes the list and writes .location, puts the trunk first and labels positions 1..n-1. Not decided: adequacy "
        "of the tolerance value.",
        _NOTE, "AST canonical forms + CCP path table + CFG must-pass + effect scan", "DESIGN.md 6/C06"),
    "C11": (
        "Static decision that die refinement only redistributes split() outputs: both halves of every split and every "
        "popped rectangle reach a work list, every return is the whole result collection, every push into the result is "
        "dominated by the aspect-ratio test, every exit by len(result) >= n, pieces go back to exactly one refinable list "
        "by tag, only the constructor writes blockages/fixed regions, initial_grid insists on a clean die and calls "
        "rectangle_grid(nrows, ncols). Tiling of a single split is C18. Not decided: numeric ratio values.",
        _NOTE, "CFG dominating-guard facts (SINK-CHECK), CONSUME-ALL dataflow, who-writes inventory", "DESIGN.md 6/C11"),
    "C18": (
        "Static decision of the geometric laws of Rectangle on canonical forms: invariance under x<->y, low<->high and "
        "operand swap (any one-sided edit of a symmetric computation is caught), strictness conventions of "
        "overlap/emptiness/cuttable, duplicate() copies every constructor attribute and all pieces derive from it, and "
        "symbolic (polynomial normal form) tiling identities for split_horizontal/vertical, rectangle_grid, __mul__, "
        "area_overlap, bounding_box. Not decided: floating-point round-off.",
        _NOTE, "canonical-form involution closure (MIRROR/CLOSED) + polynomial-normal-form identities (LAW)", "DESIGN.md 6/C18"),
}

_PENDING = "rule set under construction in this round (see DESIGN.md section 6 for the planned structural clauses)"

NOT_APPLICABLE = {
    "C01": _PENDING, "C02": _PENDING, "C03": _PENDING, "C04": _PENDING, "C05": _PENDING, "C07": _PENDING,
    "C08": _PENDING, "C09": _PENDING, "C10": _PENDING, "C12": _PENDING, "C13": _PENDING, "C14": _PENDING,
    "C15": _PENDING, "C16": _PENDING, "C17": _PENDING, "C19": _PENDING, "C20": _PENDING,
}
