#!/venv/bin/python
"""import_seeds.py Cxx [Cyy ...] [--missed=Cxx-i,...] [--offset=K]   (change_i.diff is filed as Cxx-(K+i))
Verifies each sub-agent change in its scratch worktree (tests pass with it, demo fails with it / passes without),
runs every registered check against /repo with the change applied (undoing it straight afterwards), and files the change
under /verif/seeded/<id>/ with patch.diff, demo.py, notes.md and meta.json."""
import json, os, shutil, subprocess, sys
sys.path.insert(0, "/verif")
sys.setrecursionlimit(20000)
from framelint import core, selftest

def sh(cmd, cwd=None, timeout=1200):
    p = subprocess.run(cmd, shell=True, cwd=cwd, capture_output=True, text=True, timeout=timeout)
    return p.returncode, (p.stdout + p.stderr)

props = [a for a in sys.argv[1:] if not a.startswith("--")]
missed = set()
for a in sys.argv[1:]:
    if a.startswith("--missed="):
        missed = set(a.split("=", 1)[1].split(","))
ALL = [f"C{i:02d}" for i in range(1, 21)]
offset = 0
for a in sys.argv[1:]:
    if a.startswith("--offset="):
        offset = int(a.split("=", 1)[1])
for P in props:
    for I in range(1, 10):
        out, wt = f"/tmp/out_{P}", f"/tmp/wt_{P}"
        diff = f"{out}/change_{I}.diff"
        if not os.path.exists(diff):
            continue
        sid = f"{P}-{I + offset}"
        sh("git checkout -q -- . ; git clean -fdq", wt)
        rc_clean, o_clean = sh(f"PYTHONPATH={wt} /venv/bin/python {out}/demo_{I}.py", wt)
        rc_apply, _ = sh(f"git apply {diff}", wt)
        rc_t, o_t = sh(f"PYTHONPATH={wt} /venv/bin/python -m pytest -q -p no:cacheprovider tests 2>&1 | tail -1", wt)
        rc_mut, o_mut = sh(f"PYTHONPATH={wt} /venv/bin/python {out}/demo_{I}.py", wt)
        sh("git checkout -q -- . ; git clean -fdq", wt)
        ok = rc_clean == 0 and rc_apply == 0 and "46 passed" in o_t and rc_mut != 0
        # our checks on the current /repo sources with the change applied in memory (framelint.selftest.patched_sources:
        # /repo itself is not touched, so other runs are not disturbed); every property is run, to record cross-detection
        results = {}
        ov = selftest.patched_sources(diff, "/repo")
        if ov is not None:
            for Q in ALL:
                base, _ = core.run_property(Q, "quick", "/repo")
                ctx, err = core.run_property(Q, "quick", "/repo", overrides=ov)
                newk = {f.key for f in ctx.findings} - {f.key for f in base.findings}
                if newk:
                    results[Q] = {"exit": 1, "rules": sorted({k.split("|")[1] for k in newk})}
                elif err:
                    results[Q] = {"exit": 2, "rules": [], "error": str(err)[:200]}
        d = f"/verif/seeded/{sid}"
        os.makedirs(d, exist_ok=True)
        shutil.copy(diff, f"{d}/patch.diff")
        shutil.copy(f"{out}/demo_{I}.py", f"{d}/demo.py")
        if os.path.exists(f"{out}/notes_{I}.md"):
            shutil.copy(f"{out}/notes_{I}.md", f"{d}/notes.md")
        notes = open(f"{d}/notes.md").read() if os.path.exists(f"{d}/notes.md") else ""
        meta = {
            "id": sid, "property": P, "origin": "independent sub-agent given only the property text and a scratch worktree",
            "files_changed": sorted({l[6:] for l in open(diff).read().splitlines() if l.startswith("+++ b/")}),
            "needs_to_manifest": next((l.strip() for l in notes.splitlines() if "manifest" in l.lower() or "need" in l.lower() or "trigger" in l.lower()), ""),
            "verification": {"demo_on_clean_tree_exit": rc_clean, "patch_applies": rc_apply == 0, "test_suite_with_patch": o_t.strip().splitlines()[-1] if o_t.strip() else "",
                             "demo_with_patch_exit": rc_mut, "demo_output_tail": o_mut.strip().splitlines()[-2:], "confirmed": ok,
                             "commands": [f"git apply patch.diff (scratch worktree)", "PYTHONPATH=<root> /venv/bin/python -m pytest -q -p no:cacheprovider tests",
                                          "PYTHONPATH=<root> /venv/bin/python demo.py",
                                          "framelint: all 20 properties on /repo's sources with patch.diff applied in memory"]},
            "detected_by": results,
            "detected_by_own_property_check": P in results and results[P]["exit"] == 1,
            "missed_before_strengthening": sid in missed,
        }
        json.dump(meta, open(f"{d}/meta.json", "w"), indent=1)
        print(sid, "confirmed" if ok else "NOT-CONFIRMED", "| own check:", results.get(P), "| others:", {k: v["exit"] for k, v in results.items() if k != P})
