#!/bin/bash
# usage: seed_eval.sh Cxx i   -- verify a sub-agent's change in a scratch worktree, then run our check against /repo with it applied
P=$1; I=$2; OUT=/tmp/out_$P; WT=/tmp/wt_$P
cd $WT || exit 9
git checkout -q -- . ; git clean -fdq
echo "--- $P change_$I"
PYTHONPATH=$WT /venv/bin/python $OUT/demo_$I.py > /tmp/seed_demo_clean.txt 2>&1; echo "demo(clean)=$?"
git apply $OUT/change_$I.diff || { echo "APPLY-FAILED"; exit 8; }
PYTHONPATH=$WT /venv/bin/python -m pytest -q -p no:cacheprovider tests 2>&1 | tail -1
PYTHONPATH=$WT timeout 600 /venv/bin/python $OUT/demo_$I.py > /tmp/seed_demo_mut.txt 2>&1; echo "demo(mutated)=$?"
tail -2 /tmp/seed_demo_mut.txt | cut -c1-200
git checkout -q -- . ; git clean -fdq
# our check on /repo with the change applied
cd /repo && git apply $OUT/change_$I.diff || { echo "REPO-APPLY-FAILED"; exit 7; }
cd /verif && ./check $P --no-evidence > /tmp/seed_check.txt 2>&1; echo "check($P)=$?"
grep -E "^(FINDING|ANALYSIS)" /tmp/seed_check.txt | cut -c1-260 | head -4
cd /repo && git checkout -q -- . && git status --short | head -3
