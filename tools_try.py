#!/venv/bin/python
"""ad-hoc: ./tools_try.py Cxx relpath 'old text' 'new text'  -- run a property on an in-memory textual variant"""
import sys, os
sys.path.insert(0, os.path.dirname(os.path.abspath(__file__)))
sys.setrecursionlimit(20000)
from framelint import core
def try_patch(prop, rel, old, new, repo='/repo', quiet=False):
    src = open(os.path.join(repo, rel)).read()
    assert src.count(old) >= 1, f"pattern not found: {old!r}"
    ctx, err = core.run_property(prop, 'quick', repo, overrides={rel: src.replace(old, new, 1)})
    if not quiet:
        if err: print('ERR', err)
        for f in ctx.findings: print('  ', f.rule, f.where, '|', f.construct[:150])
    return ctx, err
if __name__ == '__main__':
    ctx, err = try_patch(*sys.argv[1:5])
    print('findings:', len(ctx.findings), 'err:', bool(err))
