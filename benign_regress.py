#!/venv/bin/python
"""benign_regress.py [--all] [ids or Cxx ...] -- every confirmed behaviour-preserving refactor kept under /verif/benign,
applied in memory to /repo's current sources, must leave every property's check silent (no new finding, no analysis
error).  Default: only the properties that reported when the refactor was first evaluated; --all: all 20."""
import json, os, sys, glob
sys.path.insert(0, "/verif")
sys.setrecursionlimit(20000)
from concurrent.futures import ProcessPoolExecutor
ALL = [f"C{i:02d}" for i in range(1, 21)]
every = "--all" in sys.argv
want = [a for a in sys.argv[1:] if not a.startswith("--")]


def one(d):
    from framelint import core, selftest
    m = json.load(open(os.path.join(d, "meta.json")))
    if not m["verification"]["confirmed"]:
        return m["id"], "skipped (not confirmed)", {}
    ov = selftest.patched_sources(os.path.join(d, "patch.diff"), "/repo")
    if ov is None:
        return m["id"], "patch does not apply to /repo", {}
    props = ALL if every else sorted(set(m.get("reported_by", {})) | {m["property"]})
    res = {}
    for Q in props:
        base, be = core.run_property(Q, "quick", "/repo")
        ctx, err = core.run_property(Q, "quick", "/repo", overrides=ov)
        newk = sorted({f.key for f in ctx.findings} - {f.key for f in base.findings})
        if newk:
            res[Q] = [k.split("|", 1)[1][:150] for k in newk]
        elif err and not be:
            res[Q] = ["exit 2: " + str(err)[:150]]
    return m["id"], "ok", res


if __name__ == "__main__":
    dirs = [d for d in sorted(glob.glob("/verif/benign/C*-b*")) if not want or os.path.basename(d) in want or os.path.basename(d).split("-")[0] in want]
    bad = 0
    status = {}
    with ProcessPoolExecutor(16) as ex:
        for sid, st, res in ex.map(one, dirs):
            status[sid] = {"state": st, "reports": res}
            if st != "ok":
                print(sid, st)
            elif res:
                bad += 1
                for q, items in res.items():
                    for it in items:
                        print(f"{sid} FALSE-ALARM {q}: {it}")
            else:
                print(sid, "silent")
    print(f"{len(dirs)} refactors, {bad} with a report")
    if "--write" in sys.argv and every and not want:
        json.dump(status, open("/verif/benign/status.json", "w"), indent=1, sort_keys=True)
    sys.exit(1 if bad else 0)
