#!/venv/bin/python
"""Regenerates MANIFEST.json from the per-property table below (keeps it schema-valid at all times)."""
import json, os, sys
HERE = os.path.dirname(os.path.abspath(__file__))
sys.path.insert(0, HERE)
from manifest_table import CLAIMED, NOT_APPLICABLE, ADDED
sys.setrecursionlimit(20000)
import importlib
from framelint import core

checks = []
for pid, (text, note, technique, ref) in sorted(CLAIMED.items()):
    importlib.import_module(f"rules.{pid}")
    rule_ids = ", ".join(rd.rid for rd in core.RULES.get(pid, []))
    text = text + (" " + ADDED[pid] if pid in ADDED else "") + f" Rules ({len(core.RULES.get(pid, []))}): {rule_ids}."
    ref = "DESIGN.md section 7/" + pid
    checks.append({
        "property_id": pid,
        "quick_cmd": f"/venv/bin/python /verif/check {pid} --tier quick",
        "thorough_cmd": f"/venv/bin/python /verif/check {pid} --tier thorough",
        "evidence_file": f"/verif/evidence/{pid}.json",
        "replay_cmd_template": "/venv/bin/python /verif/check " + pid + " --replay {path}",
        "engine": "framelint",
        "level_claimed": {"category": "other", "text": text, "design_ref": ref},
        "level_note": note,
        "technique": technique,
    })
manifest = {
    "version": 1,
    "setup_cmd": "true",
    "hooks": {
        "guard": "FRAME_VERIF",
        "enable": "none needed: the checks parse /repo's working tree with the stdlib ast module; no instrumentation exists",
        "baseline_off_cmd": "cd /repo && /venv/bin/python -m pytest -ra -q -p no:cacheprovider --timeout=900 --continue-on-collection-errors",
        "source_commits": [],
        "add_only": True,
    },
    "engines": [{
        "name": "framelint",
        "path": "/verif/framelint",
        "serves_properties": sorted(CLAIMED),
        "kind_free_text": "repository-specific static analysis on stdlib ast: program model + call graph, canonical forms with "
                          "involutions and polynomial normal form (MIRROR/CLOSED/LAW), statement CFG with must-pass and "
                          "dominating-guard facts, conditional constant propagation / path tabulation, effect and who-writes "
                          "analysis, schema extraction, regex-literal reading; the thorough tier adds verdict identity under two "
                          "inlining policies and the in-memory self-validation (mutants, behaviour-preserving variants, stored seeded changes)",
    }],
    "checks": checks,
    "notes": "All checks are static analysis of /repo's current working tree (nothing under /repo is imported or executed). "
             "Exit 0 = all rule instances hold (KNOWN-FINDING lines for listed findings); exit 1 = VIOLATION lines; "
             "exit 2 = ANALYSIS-ERROR (anchor vanished / rule matched fewer sites than its floor / internal error). "
             "Genuine defects found are in known_findings.json (fixed ones have 'fix:' commits in /repo).",
    "not_applicable": [{"property_id": p, "reason": r} for p, r in sorted(NOT_APPLICABLE.items())],
}
with open(os.path.join(HERE, "MANIFEST.json"), "w") as f:
    json.dump(manifest, f, indent=1)
print("MANIFEST.json:", len(checks), "checks,", len(NOT_APPLICABLE), "not applicable")
