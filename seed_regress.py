#!/venv/bin/python
"""Regression over the confirmed seeded changes: each patch is applied to an in-memory copy of the sources it touches
(nothing in /repo is modified) and the property's rules must report a violation.  usage: seed_regress.py [Cxx ...]"""
import os, sys
sys.path.insert(0, "/verif")
sys.setrecursionlimit(20000)
from framelint import selftest, core

if __name__ == "__main__":
    want = sys.argv[1:]
    props = sorted({d.split("-")[0] for d in os.listdir(os.path.join(core.VERIF_DIR, "seeded"))})
    n = bad = 0
    for p in props:
        if want and p not in want:
            continue
        bctx, _ = core.run_property(p, "quick", "/repo")
        r = selftest.run_seeds(p, "/repo", {f.key for f in bctx.findings})
        for sid, what in r["seeded_changes"].items():
            print(f"{sid}: {what}")
            n += 1
        bad += len(r["seeded_missed"])
    print(f"{n} seeded changes, {bad} missed")
    sys.exit(1 if bad else 0)
