#!/venv/bin/python
"""Regression over the confirmed seeded changes: each patch is applied to an in-memory copy of the sources it touches
(nothing in /repo is modified) and the property's rules must report a violation.  usage: seed_regress.py [Cxx ...]"""
import json, os, re, subprocess, sys, tempfile, shutil
sys.path.insert(0, "/verif")
sys.setrecursionlimit(20000)
from concurrent.futures import ProcessPoolExecutor

SEEDS = "/verif/seeded"


def patched_sources(patch: str, repo: str) -> dict:
    files = re.findall(r"^\+\+\+ b/(\S+)", open(patch).read(), re.M)
    tmp = tempfile.mkdtemp(prefix="seedreg_")
    try:
        for f in files:
            os.makedirs(os.path.dirname(os.path.join(tmp, f)), exist_ok=True)
            if os.path.exists(os.path.join(repo, f)):
                shutil.copy(os.path.join(repo, f), os.path.join(tmp, f))
        r = subprocess.run(["patch", "-p1", "-s", "-d", tmp, "-i", patch], capture_output=True, text=True)
        if r.returncode != 0:
            raise RuntimeError(f"patch failed: {r.stdout} {r.stderr}")
        return {f: open(os.path.join(tmp, f)).read() for f in files if f.endswith(".py")}
    finally:
        shutil.rmtree(tmp, ignore_errors=True)


def one(sid: str):
    from framelint import core
    import rules  # noqa
    prop = sid.split("-")[0]
    try:
        ov = patched_sources(os.path.join(SEEDS, sid, "patch.diff"), "/repo")
        ctx, err = core.run_property(prop, "quick", "/repo", overrides=ov)
        known = {f"{k['property']}|{k['rule']}|{k['where']}|{k['construct']}" for k in core.load_known_findings().get("findings", [])}
        new = [f for f in ctx.findings if f.key not in known]
        return sid, sorted({f.rule for f in new}), err
    except Exception as e:
        return sid, [], f"internal {type(e).__name__}: {e}"


if __name__ == "__main__":
    want = sys.argv[1:]
    ids = sorted(d for d in os.listdir(SEEDS) if os.path.isdir(os.path.join(SEEDS, d)) and (not want or d.split("-")[0] in want))
    bad = 0
    with ProcessPoolExecutor(16) as ex:
        for sid, rules_, err in ex.map(one, ids):
            ok = bool(rules_)
            bad += not ok
            print(f"{sid}: {'caught by ' + ','.join(rules_) if ok else 'MISSED'}{' err=' + str(err)[:120] if err else ''}")
    print(f"{len(ids)} seeded changes, {bad} missed")
    sys.exit(1 if bad else 0)
