#!/venv/bin/python
"""benign_setup.py N [Cxx ...] -- scratch worktrees /tmp/wb_<id> and task files /tmp/ben_<id>/prompt.txt for independent
sub-agents asked for N behaviour-PRESERVING refactors of the code responsible for a property (false-alarm hunt: the
property's check must stay silent on each of them).  The sub-agent gets the property text only, nothing from /verif."""
import json, os, subprocess, sys

N = int(sys.argv[1])
want = sys.argv[2:]
ROUND = int(os.environ.get("BENIGN_ROUND", "1"))
R = "" if ROUND == 1 else str(ROUND)
T = '''You are working on the open-source Python project jordicf/FRAME (a research framework for chip floorplanning) in your own scratch git worktree at /tmp/wb{r}_{id}. Work ONLY inside /tmp/wb{r}_{id} and /tmp/ben{r}_{id}. Do not read or modify /repo or /verif or other /tmp/w* directories. Do NOT use `git stash` (the stash is shared between worktrees); to switch between the original and a changed version use `git diff > file`, `git checkout -- .`, `git apply file`.

Interpreter: /venv/bin/python (has all dependencies). IMPORTANT: always run with the worktree first on the path, e.g. `cd /tmp/wb{r}_{id} && PYTHONPATH=/tmp/wb{r}_{id} /venv/bin/python ...`, otherwise another installed copy of the package is imported. Run the test suite with: `cd /tmp/wb{r}_{id} && PYTHONPATH=/tmp/wb{r}_{id} /venv/bin/python -m pytest -q -p no:cacheprovider tests` (46 tests, they pass on the unmodified tree).

PROPERTY that FRAME satisfies (for every input / configuration / history):

{prop}

TASK: act as a maintainer doing clean-up work. Produce {n} different, realistic REFACTORS of the library/tool code that is responsible for this property (the functions that implement it and the helpers they call), each of which PRESERVES THE BEHAVIOUR EXACTLY: same results (bit for bit for floats), same exceptions for the same inputs, same side effects, same order of output. The property must still hold after each refactor. Typical maintainer refactors, use a different mix in each one:
 - restructure control flow (early returns <-> if/else, merge or split conditions, invert a test and swap the branches, loop <-> comprehension, while <-> for, guard clauses);
 - introduce, inline or rename local variables; split or join tuple assignments; reorder statements that are independent;
 - extract a small private helper function (or inline one) ; move a nested function to module level or the other way round;
 - rewrite an expression into an equivalent one that is bit-identical in floating point (e.g. a comparison turned around, `not (a < b)` vs `a >= b` only where no NaN can occur, `x / 2` stays `x / 2` -- do NOT change floating-point evaluation order);
 - replace an accumulator loop by sum(...) ONLY if the summation order stays the same; use enumerate/zip/itertools where natural; add type annotations, docstrings, assertion messages.
Each refactor should touch 5 to 40 lines, in one or two functions, and should be something a reviewer would accept as "no functional change". The {n} refactors must touch different functions.

For each refactor i in (1..{n}) write into /tmp/ben{r}_{id}/ :
  - refactor_i.diff : output of `git diff` against HEAD (must apply with `git apply` at the repository root of a clean checkout);
  - equiv_i.py : a standalone script, run as `cd <root> && PYTHONPATH=<root> /venv/bin/python /tmp/ben{r}_{id}/equiv_i.py`, that exercises the refactored functions on many inputs (include edge cases and, where it makes sense, a few hundred seeded-random inputs) and prints a deterministic digest (e.g. sha256 of repr of all results, exceptions included). Run it on the UNMODIFIED tree and on the refactored tree: the two digests must be identical; record both in the notes. It must not need the network, big solver runs or GUI windows;
  - notes_i.md : what was changed and why it is behaviour-preserving; the digest on the original and on the refactored code.
Verify yourself: with the refactor applied the 46 tests pass and equiv_i prints the same digest as on the original code. When done, restore the worktree to a clean state (`git checkout -- .`, no untracked files left inside the worktree). Reply with a brief summary of the refactors (file, function, one sentence each).'''
for l in open('/verif/properties.jsonl'):
    p = json.loads(l)
    pid = p['id']
    if want and pid not in want:
        continue
    out, wt = f"/tmp/ben{R}_{pid}", f"/tmp/wb{R}_{pid}"
    os.makedirs(out, exist_ok=True)
    if not os.path.isdir(wt):
        subprocess.run(["git", "-C", "/repo", "worktree", "add", "--detach", "-q", wt, "HEAD"], check=True)
    prop = f"{p['title']}\n\n{p['statement']}\n\nIt holds for: {p['quantifier']['text']}\n\nCode responsible (files): {', '.join(p['anchors']['files'])}"
    open(f"{out}/property.txt", "w").write(prop)
    # functions a previous round already refactored for this property (taken from the hunk headers of those patches)
    done = set()
    import glob, re as _re
    for d in glob.glob(f"/verif/benign/{pid}-b*/patch.diff"):
        for m_ in _re.finditer(r"^@@[^@]*@@.*?(?:def|class) (\w+)", open(d).read(), _re.M):
            done.add(m_.group(1))
    extra = ""
    TARGETS = json.loads(os.environ.get("BENIGN_TARGETS", "{}"))
    if pid in TARGETS:
        extra = ("\n\nThis time refactor specifically these functions (one refactor may cover one or two of them; reshape them as a maintainer would: "
                 "extract / inline helpers, early exits, loops <-> comprehensions, rename and split locals, reorder independent statements, merge or split "
                 "conditions -- but keep the behaviour exactly): " + TARGETS[pid])
    elif ROUND > 1 and done:
        extra = ("\n\nA colleague has already cleaned up these functions / classes; pick OTHER functions relevant to the property, and prefer "
                 "kinds of refactoring that reshape the code more deeply than a rename (change the loop structure, split a function in two, "
                 "merge two passes into one, replace a flag variable by control flow, table-driven dispatch instead of if/elif chains or the "
                 "reverse, early exits, helper extraction with different parameter passing): " + ", ".join(sorted(done)))
    open(f"{out}/prompt.txt", "w").write(T.format(id=pid, prop=prop, n=N, r=R) + extra)
    print(pid, "ready")
