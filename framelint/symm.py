"""Symmetry of a block under an involution, up to the names and the order of what is symmetric.

``closed_under(block, sigma)`` decides whether the canonical block is its own image under ``sigma`` when

* numbered locals may be permuted (the x list becomes the y list),
* statements of one block may be listed in another order,
* a returned pair is exchanged (the function returns (X-part, Y-part); its image returns (Y-part, X-part)).

Both the block and its image are brought to a *canonical labelling*: variables are ordered by a fingerprint computed
from the statements they occur in (with all variables anonymised, refined twice with the fingerprints of the
neighbouring variables), renumbered in that order, and every statement list is sorted.  Two blocks that differ only by
a permutation of locals and by statement order get the same labelling (ties between variables are broken arbitrarily:
they are variables that play identical roles)."""
from __future__ import annotations

from .canon import S, Sigma, skey, show


def _vars(x, acc: list) -> None:
    if isinstance(x, tuple):
        if len(x) == 2 and x[0] == "v" and isinstance(x[1], int):
            if x not in acc:
                acc.append(x)
            return
        for y in x:
            _vars(y, acc)


def _anon(x, colour: dict):
    if isinstance(x, tuple):
        if len(x) == 2 and x[0] == "v" and isinstance(x[1], int):
            return ("v", colour.get(x, "?"))
        return tuple(_anon(y, colour) for y in x)
    return x


def _occurrences(x, var, path=()):
    if isinstance(x, tuple):
        if x == var:
            yield path
            return
        for i, y in enumerate(x):
            yield from _occurrences(y, var, path + (i,))


def _sort_blocks(x, colour=None):
    """sort every statement list (tuples whose items are statements); with ``colour`` the key is the statement with its
    variables replaced by their current colours (so that the order does not depend on how the variables are numbered)"""
    if not isinstance(x, tuple):
        return x
    y = tuple(_sort_blocks(z, colour) for z in x)
    if y and all(isinstance(z, tuple) and z and isinstance(z[0], str) and z[0] in _STMT_TAGS for z in y):
        if colour is None:
            return tuple(sorted(y, key=skey))
        return tuple(sorted(y, key=lambda z: repr(_anon(z, colour))))
    return y


_STMT_TAGS = {"set", "mset", "aug", "expr", "if", "for", "while", "ret", "assert", "raise", "break", "continue", "with", "try", "del", "def", "global", "seq"}


def canonical_labelling(block: tuple) -> tuple:
    vs: list = []
    _vars(block, vs)
    colour: dict = {}
    for _ in range(4):
        block = _sort_blocks(block, colour)          # positions inside a statement are taken in a numbering-independent order
        fps = {}
        for v in vs:
            occ = []
            for st in block:
                for path in _occurrences(st, v):
                    occ.append((repr(_anon(st, colour)), path))
            fps[v] = repr(sorted(occ))
        ranks = {fp: i for i, fp in enumerate(sorted(set(fps.values())))}
        new_colour = {v: ranks[fps[v]] for v in vs}
        if new_colour == colour:
            break
        colour = new_colour
    order = sorted(vs, key=lambda v: (colour.get(v, 0), v[1]))
    mapping = {v: ("v", 1000 + i) for i, v in enumerate(order)}
    out = Sigma(raw_subst=mapping).apply(block)
    out = Sigma(raw_subst={("v", 1000 + i): ("v", i) for i in range(len(order))}).apply(out)
    return _sort_blocks(out)


def swap_returned_pairs(block: tuple) -> tuple:
    def rec(x):
        if isinstance(x, tuple):
            if len(x) == 2 and x[0] == "ret" and isinstance(x[1], tuple) and x[1][:1] == ("tuple",) and len(x[1][1]) == 2:
                a, b = x[1][1]
                return ("ret", ("tuple", (rec(b), rec(a))))
            return tuple(rec(y) for y in x)
        return x
    return rec(block)


def closed_under(block: tuple, sigma: Sigma, swap_pair: bool = True):
    """(is closed, canonical form of the block, canonical form of its image)"""
    img = sigma.apply(block)
    if swap_pair:
        img = swap_returned_pairs(img)
    a, b = canonical_labelling(block), canonical_labelling(img)
    return a == b, a, b
