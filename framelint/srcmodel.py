"""E1 -- program model: parsed modules, qualified-name index, imports,
light receiver resolution, call graph, reachability.

The model is built from source text only (``ast``).  ``overrides`` lets the
self-validation tier analyse in-memory variants of a file without touching
the disk.
"""
from __future__ import annotations

import ast
import hashlib
import os
from dataclasses import dataclass, field
from typing import Iterable, Iterator, Optional


class AnalysisError(Exception):
    """The analysis itself could not be carried out (vanished anchor,
    unresolved callee a rule needs, instance count below its floor).
    Never reported as a property violation: exit code 2."""


SCAN_DIRS = ("frame", "tools")


@dataclass
class FuncInfo:
    module: "ModuleInfo"
    qualname: str                 # 'Class.method', 'func', 'outer.<locals>.inner'
    node: ast.FunctionDef
    cls: Optional["ClassInfo"]
    kind: str                     # 'function' | 'method' | 'staticmethod' | 'property' | 'setter' | 'classmethod'
    parent: Optional["FuncInfo"] = None

    @property
    def name(self) -> str:
        return self.node.name

    @property
    def where(self) -> str:
        return f"{self.module.relpath}::{self.qualname}"

    def params(self, skip_self: bool = True) -> list[str]:
        a = self.node.args
        names = [x.arg for x in a.posonlyargs + a.args]
        if skip_self and self.kind in ("method", "property", "setter") and names:
            names = names[1:]
        if skip_self and self.kind == "classmethod" and names:
            names = names[1:]
        names += [x.arg for x in a.kwonlyargs]
        return names

    def __hash__(self) -> int:
        return hash((self.module.relpath, self.qualname, self.kind))

    def __eq__(self, other: object) -> bool:
        return isinstance(other, FuncInfo) and (self.module.relpath, self.qualname, self.kind) == \
            (other.module.relpath, other.qualname, other.kind)


@dataclass
class ClassInfo:
    module: "ModuleInfo"
    name: str
    node: ast.ClassDef
    bases: list[str]
    methods: dict[str, FuncInfo] = field(default_factory=dict)      # plain / static / class methods and property getters
    setters: dict[str, FuncInfo] = field(default_factory=dict)
    attr_annotations: dict[str, ast.expr] = field(default_factory=dict)
    class_assigns: dict[str, ast.expr] = field(default_factory=dict)
    is_dataclass: bool = False
    dataclass_fields: list[str] = field(default_factory=list)

    @property
    def qualname(self) -> str:
        return self.name


@dataclass
class ModuleInfo:
    relpath: str                  # 'frame/geometry/geometry.py'
    dotted: str                   # 'frame.geometry.geometry'
    source: str
    tree: ast.Module
    functions: dict[str, FuncInfo] = field(default_factory=dict)   # by qualname
    classes: dict[str, ClassInfo] = field(default_factory=dict)
    imports: dict[str, str] = field(default_factory=dict)          # local alias -> dotted target ('pkg.mod' or 'pkg.mod.Name')
    global_assigns: dict[str, list[ast.stmt]] = field(default_factory=dict)

    @property
    def digest(self) -> str:
        return hashlib.sha256(self.source.encode()).hexdigest()[:16]


def _decorator_names(node: ast.FunctionDef | ast.ClassDef) -> list[str]:
    out = []
    for d in node.decorator_list:
        if isinstance(d, ast.Call):
            d = d.func
        out.append(ast.unparse(d))
    return out


_REF_CACHE: list = []


def _reference_functions() -> Optional[set]:
    """relpath::qualname of every function of the reference tree (the one the rules were confirmed on)"""
    if not _REF_CACHE:
        path = os.path.join(os.path.dirname(os.path.abspath(__file__)), "reference_functions.json")
        try:
            import json
            with open(path) as fh:
                _REF_CACHE.append(set(json.load(fh)["functions"]))
        except OSError:
            _REF_CACHE.append(None)
    return _REF_CACHE[0]


def _reference_globals() -> Optional[set]:
    """relpath::name of every module-level name of the reference tree"""
    path = os.path.join(os.path.dirname(os.path.abspath(__file__)), "reference_functions.json")
    try:
        import json
        with open(path) as fh:
            return set(json.load(fh).get("globals", []))
    except OSError:
        return None


class Model:
    """Whole-repository model."""

    def __init__(self, root: str, overrides: Optional[dict[str, str]] = None):
        self.root = root
        self.modules: dict[str, ModuleInfo] = {}
        self.by_dotted: dict[str, ModuleInfo] = {}
        self.parse_errors: list[str] = []
        overrides = overrides or {}
        for d in SCAN_DIRS:
            base = os.path.join(root, d)
            if not os.path.isdir(base):
                raise AnalysisError(f"source directory {base} not found")
            for dirpath, dirnames, filenames in os.walk(base):
                dirnames[:] = sorted(x for x in dirnames if not x.startswith(".") and x != "__pycache__")
                for fn in sorted(filenames):
                    if not fn.endswith(".py"):
                        continue
                    path = os.path.join(dirpath, fn)
                    rel = os.path.relpath(path, root)
                    if rel in overrides:
                        src = overrides[rel]
                    else:
                        with open(path, encoding="utf-8") as f:
                            src = f.read()
                    self._add_module(rel, src)
        for rel, src in overrides.items():
            if rel not in self.modules:
                self._add_module(rel, src)
        self._method_index: dict[str, list[FuncInfo]] = {}
        self._property_index: dict[str, list[FuncInfo]] = {}
        self._func_index: dict[str, list[FuncInfo]] = {}
        for m in self.modules.values():
            for f in m.functions.values():
                self._func_index.setdefault(f.name, []).append(f)
                if f.cls is not None and f.parent is None:
                    if f.kind == "property":
                        self._property_index.setdefault(f.name, []).append(f)
                    elif f.kind != "setter":
                        self._method_index.setdefault(f.name, []).append(f)
        self._callgraph: Optional[dict[FuncInfo, set[FuncInfo]]] = None
        self.unresolved_calls = 0
        self.resolved_calls = 0
        # helpers that the reference tree does not have are looked through (see framelint.inline)
        self.inlining: dict = {}
        ref = _reference_functions()
        if ref is not None and os.environ.get("FRAMELINT_NO_HELPER_INLINING") != "1":
            from .inline import inline_new_helpers
            self.inlining = inline_new_helpers(self, ref)
        # a local re-used for unrelated values is one local per value (see framelint.inline.split_webs)
        if os.environ.get("FRAMELINT_NO_WEB_SPLIT") != "1":
            from .inline import split_webs
            self.webs_split = sum(split_webs(f.node) for f in self.all_functions(include_inlined=True))

    def new_constant_table(self, mi: "ModuleInfo", name: str) -> Optional[ast.expr]:
        """the display bound to a module-level name that the reference tree does not have, bound once to a dict / tuple / list /
        set display and never stored into, mutated or re-bound anywhere: a new constant table (read through like a new helper)"""
        cache = self.__dict__.setdefault("_new_tables", {})
        key = (mi.relpath, name)
        if key in cache:
            return cache[key]
        res = None
        ref = self.__dict__.setdefault("_ref_globals", _reference_globals())
        if ref is not None and f"{mi.relpath}::{name}" not in ref and os.environ.get("FRAMELINT_NO_HELPER_INLINING") != "1":
            binds = []
            for st in mi.tree.body:
                if isinstance(st, ast.Assign) and len(st.targets) == 1 and isinstance(st.targets[0], ast.Name) and st.targets[0].id == name:
                    binds.append(st.value)
                elif isinstance(st, ast.AnnAssign) and st.value is not None and isinstance(st.target, ast.Name) and st.target.id == name:
                    binds.append(st.value)
            if len(binds) == 1 and isinstance(binds[0], (ast.Dict, ast.Tuple, ast.List, ast.Set)):
                MUT = {"append", "extend", "insert", "pop", "remove", "clear", "update", "setdefault", "add", "discard", "sort", "reverse", "popitem"}
                ok = True
                for m in self.modules.values():
                    for n in ast.walk(m.tree):
                        if isinstance(n, (ast.Subscript, ast.Attribute)) and isinstance(n.ctx, (ast.Store, ast.Del)) and isinstance(n.value, ast.Name) and n.value.id == name:
                            ok = False
                        elif isinstance(n, ast.Call) and isinstance(n.func, ast.Attribute) and n.func.attr in MUT and isinstance(n.func.value, ast.Name) and n.func.value.id == name:
                            ok = False
                        elif isinstance(n, ast.Global) and name in n.names:
                            ok = False
                        elif isinstance(n, ast.AugAssign) and isinstance(n.target, ast.Name) and n.target.id == name:
                            ok = False
                if ok:
                    res = binds[0]
        cache[key] = res
        return res

    def negated_twin(self, attr: str) -> Optional[str]:
        """``attr`` names exactly one property in the repository, it returns ``not self.F``, and exactly one other property of
        the same class returns ``self.F``: the name of that property (x.attr is then ``not x.twin`` for every receiver)"""
        cache = self.__dict__.setdefault("_negated_twins", {})
        if attr in cache:
            return cache[attr]
        res = None
        props = self._property_index.get(attr, [])
        if len(props) == 1 and not self._method_index.get(attr):
            f = props[0]
            body = body_without_docstring(f.node)
            if len(body) == 1 and isinstance(body[0], ast.Return) and isinstance(body[0].value, ast.UnaryOp) and isinstance(body[0].value.op, ast.Not):
                inner = body[0].value.operand
                if isinstance(inner, ast.Attribute) and isinstance(inner.value, ast.Name) and inner.value.id == "self":
                    twins = []
                    for g in self.all_functions(include_inlined=True):
                        if g.cls is f.cls and g.kind == "property" and g is not f:
                            b2 = body_without_docstring(g.node)
                            if len(b2) == 1 and isinstance(b2[0], ast.Return) and isinstance(b2[0].value, ast.Attribute) \
                                    and isinstance(b2[0].value.value, ast.Name) and b2[0].value.value.id == "self" and b2[0].value.attr == inner.attr:
                                twins.append(g.name)
                    if inner.attr in [p.name for p in self.all_functions(include_inlined=True) if p.cls is f.cls and p.kind == "property"]:
                        twins.append(inner.attr)        # 'return not self.other_property'
                    if len(set(twins)) == 1 and len(self._property_index.get(twins[0], [])) == 1:
                        res = twins[0]
        cache[attr] = res
        return res

    # ------------------------------------------------------------------ build
    def _add_module(self, rel: str, src: str) -> None:
        try:
            tree = ast.parse(src, filename=rel)
        except SyntaxError as e:  # a file that does not parse cannot be analysed
            raise AnalysisError(f"cannot parse {rel}: {e}")
        dotted = rel[:-3].replace(os.sep, ".")
        if dotted.endswith(".__init__"):
            dotted = dotted[: -len(".__init__")]
        mi = ModuleInfo(rel, dotted, src, tree)
        self.modules[rel] = mi
        self.by_dotted[dotted] = mi
        pkg = dotted.rsplit(".", 1)[0] if "." in dotted else ""
        for node in tree.body:
            self._scan_toplevel(mi, node, pkg)

    def _scan_toplevel(self, mi: ModuleInfo, node: ast.stmt, pkg: str) -> None:
        if isinstance(node, ast.Import):
            for a in node.names:
                mi.imports[a.asname or a.name.split(".")[0]] = a.name if a.asname else a.name.split(".")[0]
                if a.asname:
                    mi.imports[a.asname] = a.name
        elif isinstance(node, ast.ImportFrom):
            base = node.module or ""
            if node.level:
                parts = mi.dotted.split(".")
                up = parts[: len(parts) - node.level]
                base = ".".join(up + ([node.module] if node.module else []))
            for a in node.names:
                mi.imports[a.asname or a.name] = f"{base}.{a.name}"
        elif isinstance(node, (ast.FunctionDef, ast.AsyncFunctionDef)):
            self._add_function(mi, node, None, None)
        elif isinstance(node, ast.ClassDef):
            self._add_class(mi, node)
        elif isinstance(node, (ast.Assign, ast.AnnAssign, ast.AugAssign)):
            targets = node.targets if isinstance(node, ast.Assign) else [node.target]
            for t in targets:
                for n in ast.walk(t):
                    if isinstance(n, ast.Name):
                        mi.global_assigns.setdefault(n.id, []).append(node)
        elif isinstance(node, (ast.If, ast.Try)):
            for sub in ast.iter_child_nodes(node):
                if isinstance(sub, ast.stmt):
                    self._scan_toplevel(mi, sub, pkg)

    def _add_class(self, mi: ModuleInfo, node: ast.ClassDef, prefix: str = "") -> None:
        name = prefix + node.name
        ci = ClassInfo(mi, name, node, [ast.unparse(b) for b in node.bases])
        decos = _decorator_names(node)
        ci.is_dataclass = any(d.split(".")[-1] == "dataclass" for d in decos)
        mi.classes[name] = ci
        for sub in node.body:
            if isinstance(sub, (ast.FunctionDef, ast.AsyncFunctionDef)):
                self._add_function(mi, sub, ci, None)
            elif isinstance(sub, ast.AnnAssign) and isinstance(sub.target, ast.Name):
                ci.attr_annotations[sub.target.id] = sub.annotation
                if sub.value is not None:
                    ci.class_assigns[sub.target.id] = sub.value
                if ci.is_dataclass:
                    ci.dataclass_fields.append(sub.target.id)
            elif isinstance(sub, ast.Assign):
                for t in sub.targets:
                    if isinstance(t, ast.Name):
                        ci.class_assigns[t.id] = sub.value
            elif isinstance(sub, ast.ClassDef):
                self._add_class(mi, sub, prefix=name + ".")

    def _add_function(self, mi: ModuleInfo, node: ast.FunctionDef, ci: Optional[ClassInfo],
                      parent: Optional[FuncInfo]) -> None:
        decos = _decorator_names(node)
        if parent is not None:
            kind, qual = "function", f"{parent.qualname}.<locals>.{node.name}"
            k = 2
            while qual in mi.functions:      # the same local name defined in several branches
                qual = f"{parent.qualname}.<locals>.{node.name}#{k}"
                k += 1
        elif ci is None:
            kind, qual = "function", node.name
        else:
            qual = f"{ci.name}.{node.name}"
            if "staticmethod" in decos:
                kind = "staticmethod"
            elif "classmethod" in decos:
                kind = "classmethod"
            elif "property" in decos:
                kind = "property"
            elif any(d.endswith(".setter") for d in decos):
                kind = "setter"
            else:
                kind = "method"
        fi = FuncInfo(mi, qual, node, ci, kind, parent)
        if kind == "setter":
            assert ci is not None
            ci.setters[node.name] = fi
            mi.functions[qual + ".setter"] = fi
        else:
            mi.functions[qual] = fi
            if ci is not None and parent is None:
                ci.methods[node.name] = fi
        # nested defs
        for sub in ast.walk(node):
            if sub is node:
                continue
            if isinstance(sub, (ast.FunctionDef, ast.AsyncFunctionDef)) and _direct_parent_function(node, sub):
                self._add_function(mi, sub, ci, fi)

    # ---------------------------------------------------------------- lookup
    def module(self, relpath: str) -> ModuleInfo:
        if relpath not in self.modules:
            raise AnalysisError(f"anchor module {relpath} not found")
        return self.modules[relpath]

    def func(self, relpath: str, qualname: str) -> FuncInfo:
        m = self.module(relpath)
        if qualname not in m.functions:
            raise AnalysisError(f"anchor function {relpath}::{qualname} not found")
        return m.functions[qualname]

    def has_func(self, relpath: str, qualname: str) -> bool:
        return relpath in self.modules and qualname in self.modules[relpath].functions

    def cls(self, relpath: str, name: str) -> ClassInfo:
        m = self.module(relpath)
        if name not in m.classes:
            raise AnalysisError(f"anchor class {relpath}::{name} not found")
        return m.classes[name]

    def all_functions(self, include_inlined: bool = False) -> Iterator[FuncInfo]:
        """the functions of the program; helpers absent from the reference tree whose every call was inlined into its
        callers (framelint.inline) are not functions of their own any more"""
        for m in self.modules.values():
            seen = set()
            for f in m.functions.values():
                if id(f) not in seen:
                    seen.add(id(f))
                    if include_inlined or not getattr(f, "absorbed", False):
                        yield f

    def find_class(self, name: str) -> list[ClassInfo]:
        out = []
        for m in self.modules.values():
            if name in m.classes:
                out.append(m.classes[name])
        return out

    def class_mro(self, ci: ClassInfo) -> list[ClassInfo]:
        out, todo, seen = [], [ci], set()
        while todo:
            c = todo.pop(0)
            if id(c) in seen:
                continue
            seen.add(id(c))
            out.append(c)
            for b in c.bases:
                bname = b.split(".")[-1]
                target = self.resolve_name(c.module, bname)
                if isinstance(target, ClassInfo):
                    todo.append(target)
        return out

    def resolve_name(self, mi: ModuleInfo, name: str):
        """Resolve a bare name in a module to ClassInfo / FuncInfo / ModuleInfo / None."""
        if name in mi.classes:
            return mi.classes[name]
        if name in mi.functions and mi.functions[name].cls is None and mi.functions[name].parent is None:
            return mi.functions[name]
        if name in mi.imports:
            return self.resolve_dotted(mi.imports[name])
        return None

    def resolve_dotted(self, dotted: str, _depth: int = 0):
        if dotted in self.by_dotted:
            return self.by_dotted[dotted]
        if "." in dotted and _depth < 5:
            head, tail = dotted.rsplit(".", 1)
            m = self.by_dotted.get(head)
            if m is not None:
                if tail in m.classes:
                    return m.classes[tail]
                if tail in m.functions and m.functions[tail].cls is None:
                    return m.functions[tail]
                if tail in m.imports:  # re-export
                    return self.resolve_dotted(m.imports[tail], _depth + 1)
        return None

    def global_constant(self, mi: ModuleInfo, name: str, _depth: int = 0):
        """Value (str/int/float/bool) of a module-level constant visible as ``name`` in module ``mi``:
        assigned exactly once at module level to a literal and never declared ``global`` in a function."""
        if name in mi.global_assigns:
            sts = mi.global_assigns[name]
            if len(sts) != 1:
                return None
            st = sts[0]
            val = st.value if isinstance(st, (ast.Assign, ast.AnnAssign)) else None
            if not isinstance(val, ast.Constant) or not isinstance(val.value, (str, int, float, bool)):
                return None
            for n in ast.walk(mi.tree):
                if isinstance(n, ast.Global) and name in n.names:
                    return None
            return val.value
        if name in mi.imports and _depth < 4:
            dotted = mi.imports[name]
            if "." in dotted:
                head, tail = dotted.rsplit(".", 1)
                m2 = self.by_dotted.get(head)
                if m2 is not None:
                    return self.global_constant(m2, tail, _depth + 1)
        return None

    def effects(self):
        """the (cached) interprocedural effects analysis of this program model"""
        if getattr(self, "_effects_obj", None) is None:
            from .effects import Effects
            self._effects_obj = Effects(self)
        return self._effects_obj

    # ---------------------------------------------------------------- purity
    PURE_BUILTINS = {"len", "min", "max", "abs", "float", "int", "str", "bool", "sum", "sorted", "list", "tuple", "dict", "set",
                     "range", "enumerate", "zip", "map", "filter", "isinstance", "round", "any", "all", "reversed", "frozenset",
                     "type", "hasattr", "getattr", "repr", "divmod", "pow", "deque", "combinations", "iter", "next", "vars",
                     "astuple"}
    PURE_METHODS = {"items", "values", "keys", "get", "index", "count", "copy", "split", "rsplit", "strip", "rstrip", "lstrip",
                    "format", "join", "find", "startswith", "endswith", "lower", "upper", "isupper", "intersection", "union",
                    "difference", "norm", "tostr", "read", "getvalue"}

    def pure_functions(self) -> set:
        """repo functions without effects on parameters, self or module-level state (via the effects engine)"""
        if getattr(self, "_pure", None) is None:
            eff = self.effects()
            pure = set()
            for f in self.all_functions():
                mutated = set(eff.summary.get(f, ()))
                if f.name == "__init__" and f.kind == "method":
                    # a constructor writing its own fresh 'self' has no effect visible to the caller
                    args_ = f.node.args.posonlyargs + f.node.args.args
                    if args_:
                        mutated.discard(args_[0].arg)
                if mutated:
                    continue
                params = {a.arg for a in f.node.args.posonlyargs + f.node.args.args + f.node.args.kwonlyargs}
                local_names = set(params)
                for n in walk_own(f.node):
                    if isinstance(n, ast.Name) and isinstance(n.ctx, ast.Store):
                        local_names.add(n.id)
                bad = False
                for n in walk_own(f.node):
                    if isinstance(n, (ast.Global, ast.Nonlocal)):
                        bad = True
                    if isinstance(n, (ast.Attribute, ast.Subscript)) and isinstance(n.ctx, (ast.Store, ast.Del)):
                        r = n.value
                        while isinstance(r, (ast.Attribute, ast.Subscript)):
                            r = r.value
                        if isinstance(r, ast.Name) and r.id not in local_names:
                            bad = True
                    if isinstance(n, ast.Call) and isinstance(n.func, ast.Attribute) and n.func.attr in _MUTATORS:
                        r = n.func.value
                        while isinstance(r, (ast.Attribute, ast.Subscript)):
                            r = r.value
                        if isinstance(r, ast.Name) and r.id not in local_names:
                            bad = True
                if not bad:
                    pure.add(f)
            # a function calling an impure repo function is impure
            changed = True
            cg = self.callgraph()
            while changed:
                changed = False
                for f in list(pure):
                    for g in cg.get(f, ()):
                        if g not in pure and g.kind != "property":
                            pure.discard(f)
                            changed = True
                            break
            self._pure = pure
        return self._pure

    def call_is_pure(self, fi: FuncInfo, call: ast.Call) -> bool:
        f = call.func
        if isinstance(f, ast.Name):
            if f.id in self.PURE_BUILTINS:
                return True
            t = self.resolve_name(fi.module, f.id)
            if isinstance(t, ClassInfo):
                return t.is_dataclass or t.name in ("Point",)
        if isinstance(f, ast.Attribute):
            if isinstance(f.value, ast.Name) and f.value.id in ("math", "np", "numpy") and f.attr not in ("random",):
                return True
            if f.attr in _MUTATORS or f.attr in ("heappop", "heappush", "heapify"):
                return False
        callees = self.resolve_call(fi, call)
        if callees:
            pure = self.pure_functions()
            return all(c in pure for c in callees)
        if isinstance(f, ast.Attribute) and f.attr in self.PURE_METHODS:
            return True
        return False

    # ------------------------------------------------------------ call graph
    def resolve_call(self, fi: FuncInfo, call: ast.Call, local_types: Optional[dict[str, str]] = None) -> list[FuncInfo]:
        """Callees of a call expression inside ``fi`` (possibly several when the
        receiver is only known by method name).  Calls to builtins / third-party
        code resolve to []."""
        f = call.func
        mi = fi.module
        if isinstance(f, ast.Name):
            # nested function of an enclosing function?
            p: Optional[FuncInfo] = fi
            while p is not None:
                q = f"{p.qualname}.<locals>.{f.id}"
                if q in mi.functions:
                    return [mi.functions[q]]
                p = p.parent
            t = self.resolve_name(mi, f.id)
            if isinstance(t, FuncInfo):
                return [t]
            if isinstance(t, ClassInfo):
                return self._ctor(t)
            return []
        if isinstance(f, ast.Attribute):
            base = f.value
            # self.method / cls.method
            if isinstance(base, ast.Name) and base.id in ("self", "cls") and fi.cls is not None:
                for c in self.class_mro(fi.cls):
                    if f.attr in c.methods:
                        return [c.methods[f.attr]]
            # Class.method / module.func
            if isinstance(base, ast.Name):
                t = self.resolve_name(mi, base.id)
                if isinstance(t, ClassInfo):
                    for c in self.class_mro(t):
                        if f.attr in c.methods:
                            return [c.methods[f.attr]]
                    return []
                if isinstance(t, ModuleInfo):
                    if f.attr in t.functions and t.functions[f.attr].cls is None:
                        return [t.functions[f.attr]]
                    if f.attr in t.classes:
                        return self._ctor(t.classes[f.attr])
                    return []
                if base.id in mi.imports and t is None:
                    return []  # third-party module
                if local_types and base.id in local_types:
                    for ci in self.find_class(local_types[base.id]):
                        for c in self.class_mro(ci):
                            if f.attr in c.methods:
                                return [c.methods[f.attr]]
            # a.b.Class.method (nested attribute ending in a class)
            if isinstance(base, ast.Attribute) and isinstance(base.value, ast.Name):
                t = self.resolve_name(mi, base.value.id)
                if isinstance(t, ClassInfo) and f"{t.name}.{base.attr}" in t.module.classes:
                    inner = t.module.classes[f"{t.name}.{base.attr}"]
                    if f.attr in inner.methods:
                        return [inner.methods[f.attr]]
            # receiver unknown: by method name, if the name is repository-specific
            if f.attr in _GENERIC_METHOD_NAMES:
                return []
            cands = [m for m in self._method_index.get(f.attr, []) if m.kind != "property"]
            return cands
        return []

    def _ctor(self, ci: ClassInfo) -> list[FuncInfo]:
        for c in self.class_mro(ci):
            if "__init__" in c.methods:
                return [c.methods["__init__"]]
        return []

    def property_getters(self, attr: str) -> list[FuncInfo]:
        return self._property_index.get(attr, [])

    def callees(self, fi: FuncInfo, include_properties: bool = True) -> set[FuncInfo]:
        out: set[FuncInfo] = set()
        for node in walk_own(fi.node):
            if isinstance(node, ast.Call):
                r = self.resolve_call(fi, node)
                if r:
                    self.resolved_calls += 1
                else:
                    self.unresolved_calls += 1
                out.update(r)
            elif include_properties and isinstance(node, ast.Attribute) and isinstance(node.ctx, ast.Load):
                out.update(self.property_getters(node.attr))
        # nested functions are considered called by their definer
        for q, g in fi.module.functions.items():
            if g.parent is fi:
                out.add(g)
        return out

    def callgraph(self) -> dict[FuncInfo, set[FuncInfo]]:
        if self._callgraph is None:
            cg: dict[FuncInfo, set[FuncInfo]] = {}
            for f in self.all_functions():
                cg[f] = self.callees(f)
            self._callgraph = cg
        return self._callgraph

    def reachable(self, roots: Iterable[FuncInfo]) -> set[FuncInfo]:
        cg = self.callgraph()
        seen: set[FuncInfo] = set()
        todo = list(roots)
        while todo:
            f = todo.pop()
            if f in seen:
                continue
            seen.add(f)
            todo.extend(cg.get(f, ()))
        return seen

    def stats(self) -> dict:
        nfun = sum(1 for _ in self.all_functions())
        return {"modules": len(self.modules), "functions": nfun,
                "classes": sum(len(m.classes) for m in self.modules.values())}


_MUTATORS = {"append", "extend", "insert", "pop", "popleft", "appendleft", "remove", "sort", "clear", "update", "add",
             "setdefault", "discard", "reverse"}

_GENERIC_METHOD_NAMES = {
    "append", "extend", "insert", "pop", "remove", "sort", "clear", "update", "add", "setdefault", "get", "items",
    "keys", "values", "index", "count", "copy", "join", "split", "strip", "format", "read", "write", "close",
    "popleft", "appendleft", "startswith", "endswith", "find", "lower", "upper", "rstrip", "rsplit", "discard",
    "intersection", "union", "any", "all", "sum", "save", "show", "dump", "load", "getvalue",
}


def _direct_parent_function(outer: ast.AST, inner: ast.AST) -> bool:
    """True if ``inner`` (a def) is nested in ``outer`` with no other def/class in between."""
    for child in ast.iter_child_nodes(outer):
        if child is inner:
            return True
        if isinstance(child, (ast.FunctionDef, ast.AsyncFunctionDef, ast.ClassDef, ast.Lambda)):
            continue
        if _direct_parent_function(child, inner):
            return True
    return False


def walk_own(fn: ast.AST) -> Iterator[ast.AST]:
    """Walk the body of a function without descending into nested defs/classes
    (lambdas and comprehensions are part of the function)."""
    todo = list(ast.iter_child_nodes(fn))
    while todo:
        n = todo.pop()
        yield n
        if isinstance(n, (ast.FunctionDef, ast.AsyncFunctionDef, ast.ClassDef)):
            continue
        todo.extend(ast.iter_child_nodes(n))


def body_without_docstring(fn: ast.FunctionDef) -> list[ast.stmt]:
    body = list(fn.body)
    if body and isinstance(body[0], ast.Expr) and isinstance(body[0].value, ast.Constant) \
            and isinstance(body[0].value.value, str):
        body = body[1:]
    return body


def returned_expression(fn: ast.FunctionDef) -> Optional[ast.expr]:
    """the one expression a straight-line function returns, its single-assignment locals looked through
    (``return e``  /  ``v = e ; return v``  /  ``v: T = e ; return v``); None for anything else"""
    body = [s for s in body_without_docstring(fn) if not isinstance(s, ast.Pass)]
    env: dict[str, ast.expr] = {}
    for st in body[:-1]:
        if isinstance(st, ast.Assign) and len(st.targets) == 1 and isinstance(st.targets[0], ast.Name):
            name, val = st.targets[0].id, st.value
        elif isinstance(st, ast.AnnAssign) and isinstance(st.target, ast.Name) and st.value is not None:
            name, val = st.target.id, st.value
        else:
            return None
        if name in env or any(isinstance(x, ast.Name) and x.id in env for x in ast.walk(val)) and not isinstance(val, ast.Name):
            return None
        env[name] = env.get(val.id, val) if isinstance(val, ast.Name) else val
    if not body or not isinstance(body[-1], ast.Return) or body[-1].value is None:
        return None
    v = body[-1].value
    if isinstance(v, ast.Name) and v.id in env:
        return env[v.id]
    if any(isinstance(x, ast.Name) and x.id in env for x in ast.walk(v)):
        return None
    return v


def getter_field(fn: ast.FunctionDef) -> Optional[str]:
    """``f`` when the function returns exactly ``self.f``"""
    e = returned_expression(fn)
    if isinstance(e, ast.Attribute) and isinstance(e.value, ast.Name) and e.value.id == "self":
        return e.attr
    return None
