"""Static reading of a regular-expression literal (its parse tree from the standard library's own regex parser; the
pattern is never matched against anything).  Only what the rules need: patterns of the shape  ^? C1 C2* $?  (one
character class followed by any number of characters of a second class), as used for identifiers."""
from __future__ import annotations

import re
import unicodedata
from typing import Callable, Optional

try:                                   # Python >= 3.11
    import re._parser as _p
    import re._constants as _c
except ImportError:                    # pragma: no cover
    import sre_parse as _p
    import sre_constants as _c


def _member(items, ascii_only: bool, ignorecase: bool) -> Callable[[str], bool]:
    def cat(code, ch: str) -> bool:
        o = ord(ch)
        name = str(code)
        neg = "NOT_" in name
        if "DIGIT" in name:
            r = ("0" <= ch <= "9") if ascii_only else unicodedata.category(ch) == "Nd"
        elif "WORD" in name:
            r = (ch == "_" or (o < 128 and ch.isalnum())) if ascii_only else (ch == "_" or ch.isalnum())
        elif "SPACE" in name:
            r = (ch in " \t\n\r\f\v") if ascii_only else ch.isspace()
        else:
            raise ValueError(f"unsupported category {name}")
        return r != neg

    def one(ch: str) -> bool:
        negate = False
        hit = False
        for op, av in items:
            if op is _c.NEGATE:
                negate = True
            elif op is _c.LITERAL:
                hit = hit or ord(ch) == av
            elif op is _c.RANGE:
                hit = hit or av[0] <= ord(ch) <= av[1]
            elif op is _c.CATEGORY:
                hit = hit or cat(av, ch)
            else:
                raise ValueError(f"unsupported class item {op}")
        return hit != negate

    if ignorecase:
        return lambda ch: one(ch) or one(ch.lower()) or one(ch.upper())
    return one


def _class_of(node, ascii_only: bool, ignorecase: bool) -> Optional[Callable[[str], bool]]:
    op, av = node
    if op is _c.IN:
        return _member(av, ascii_only, ignorecase)
    if op is _c.LITERAL:
        return _member([(op, av)], ascii_only, ignorecase)
    if op is _c.CATEGORY:
        return _member([(op, av)], ascii_only, ignorecase)
    if op is _c.ANY:
        return lambda ch: ch != "\n"
    return None


def head_tail_classes(pattern: str, flags: int = 0):
    """(first-character predicate, following-characters predicate) of a pattern  ^? C1 C2* $?  used with fullmatch;
    None when the pattern has another shape."""
    tree = _p.parse(pattern, flags)
    fl = tree.state.flags | flags
    ascii_only = bool(fl & re.ASCII)
    ic = bool(fl & re.IGNORECASE)
    nodes = [n for n in tree if not (n[0] is _c.AT and n[1] in (_c.AT_BEGINNING, _c.AT_BEGINNING_STRING, _c.AT_END, _c.AT_END_STRING))]
    if len(nodes) != 2:
        return None
    head = _class_of(nodes[0], ascii_only, ic)
    op, av = nodes[1]
    if head is None or op not in (_c.MAX_REPEAT, _c.MIN_REPEAT):
        return None
    lo, hi, sub = av
    if lo != 0 or hi is not _c.MAXREPEAT or len(sub) != 1:
        return None
    tail = _class_of(sub[0], ascii_only, ic)
    if tail is None:
        return None
    return head, tail


def sample_points() -> list[str]:
    """every code point below U+3000 plus representatives of the higher blocks: enough to separate any two classes
    built from literals, ranges with small endpoints and Unicode categories"""
    pts = [chr(i) for i in range(0x3000)]
    pts += [chr(i) for i in (0x3042, 0x4E2D, 0xAC00, 0xFF10, 0xFF21, 0xFF41, 0x1D7CE, 0x1F600, 0x10FFFF)]
    return pts
