"""E7 -- conditional constant propagation / partial evaluation on canonical forms.

Given a canonical block and an environment {variable S-id -> constant S}, fold
every condition that becomes decidable, prune dead branches and return the
residual block.  Used to tabulate small branchy functions over finite domains
(enum members, operator strings, boolean flags).
"""
from __future__ import annotations

from fractions import Fraction
from typing import Optional

from .canon import (S, Sigma, K_TRUE, K_FALSE, K_NONE, mk_and, mk_or, mk_not, mk_if, mk_ite, is_num, num_value, to_poly,
                    is_str, skey, mk_call)


def is_enum_const(s: S) -> bool:
    """Attribute chain rooted at a global whose last component is UPPER_CASE."""
    if not (isinstance(s, tuple) and len(s) == 3 and s[0] == "a" and isinstance(s[2], str) and s[2].isupper()):
        return False
    b = s[1]
    while isinstance(b, tuple) and len(b) == 3 and b[0] == "a":
        b = b[1]
    return isinstance(b, tuple) and len(b) == 2 and b[0] == "g"


def is_const(s: S) -> bool:
    return (isinstance(s, tuple) and s and s[0] == "k") or is_enum_const(s)


def const_eq(a: S, b: S) -> Optional[bool]:
    if is_const(a) and is_const(b):
        if a[0] == "k" and b[0] == "k" and a[1] == "num" and b[1] == "bool":
            return num_value(a) == (1 if b[2] else 0)
        if a[0] == "k" and b[0] == "k" and b[1] == "num" and a[1] == "bool":
            return num_value(b) == (1 if a[2] else 0)
        return a == b
    return None


def fold(s: S) -> S:
    """Bottom-up constant folding of a canonical form."""
    if not isinstance(s, tuple) or not s:
        return s
    tag = s[0]
    if tag in ("k", "g", "p", "v", "b", "u", "l", "self"):
        return s
    if tag == "not":
        return mk_not(fold(s[1]))
    if tag == "and":
        return mk_and([fold(x) for x in s[1]])
    if tag == "or":
        return mk_or([fold(x) for x in s[1]])
    if tag == "lt0":
        p = to_poly(fold_poly(s[1]))
        if p.is_const():
            return K_TRUE if p.const_value() < 0 else K_FALSE
        return ("lt0", p.to_s())
    if tag in ("eq0", "ne0"):
        p = to_poly(fold_poly(s[1]))
        if p.is_const():
            z = p.const_value() == 0
            return K_TRUE if (z == (tag == "eq0")) else K_FALSE
        return (tag, p.leading_sign_normalised().to_s())
    if tag == "cmp":
        a, b = fold(s[2]), fold(s[3])
        op = s[1]
        if op in ("seq", "sne"):
            r = const_eq(a, b)
            if r is not None:
                return K_TRUE if (r == (op == "seq")) else K_FALSE
            a, b = sorted([a, b], key=skey)
            return ("cmp", op, a, b)
        if op in ("is", "isnot"):
            # (T if c else None) is None  ==  not c   when T is a freshly built value (never None)
            for x, y in ((a, b), (b, a)):
                if y == K_NONE and isinstance(x, tuple) and x and x[0] == "ite":
                    tn, en = _never_none(x[2]), _never_none(x[3])
                    if tn and x[3] == K_NONE:
                        r = mk_not(x[1])
                        return r if op == "is" else mk_not(r)
                    if en and x[2] == K_NONE:
                        r = x[1]
                        return r if op == "is" else mk_not(r)
                if y == K_NONE and _never_none(x):
                    return K_FALSE if op == "is" else K_TRUE
            if is_const(a) and is_const(b):
                r = a == b
                return K_TRUE if (r == (op == "is")) else K_FALSE
            if (is_const(a) and a != K_NONE and b == K_NONE) or (is_const(b) and b != K_NONE and a == K_NONE):
                return K_FALSE if op == "is" else K_TRUE
            return ("cmp", op, a, b)
        if op in ("in", "notin"):
            if is_const(a) and isinstance(b, tuple) and b and b[0] in ("list", "tuple", "set") \
                    and all(is_const(x) for x in b[1]):
                r = any(const_eq(a, x) for x in b[1])
                return K_TRUE if (r == (op == "in")) else K_FALSE
            if is_const(a) and isinstance(b, tuple) and b and b[0] == "dict" and all(is_const(k) for k, _ in b[1]):
                r = any(const_eq(a, k) for k, _ in b[1])
                return K_TRUE if (r == (op == "in")) else K_FALSE
            return ("cmp", op, a, b)
        return ("cmp", op, a, b)
    if tag == "ite":
        c = fold(s[1])
        if c == K_TRUE:
            return fold(s[2])
        if c == K_FALSE:
            return fold(s[3])
        return mk_ite(c, fold(s[2]), fold(s[3]))
    if tag == "if":
        c = fold(s[1])
        if c == K_TRUE:
            return ("seq", fold_block(s[2]))
        if c == K_FALSE:
            return ("seq", fold_block(s[3]))
        return mk_if(c, fold_block(s[2]), fold_block(s[3]))
    if tag == "poly":
        return fold_poly(s)
    if tag == "c":
        fn = fold(s[1])
        args = [fold(x) for x in s[2]]
        kwargs = [(k, fold(v)) for k, v in s[3]]
        if fn == ("g", "isinstance") and len(args) == 2 and is_const(args[0]) and args[0][0] == "k":
            pass
        if fn in (("g", "int"), ("g", "float")) and len(args) == 1 and is_num(args[0]):
            v = num_value(args[0])
            if fn == ("g", "int"):
                v = Fraction(int(v))
            return ("k", "num", (v.numerator, v.denominator))
        return mk_call(fn, args, kwargs)
    if tag == "seq":
        return ("seq", fold_block(s[1]))
    if tag == "s" and len(s) == 3:
        base, key = fold(s[1]), fold(s[2])
        # a constant table read at a constant key
        if isinstance(base, tuple) and base and base[0] == "dict" and is_const(key) and all(is_const(k) for k, _ in base[1]):
            hits = [v for k, v in base[1] if const_eq(key, k)]
            if len(hits) == 1:
                return hits[0]
        return ("s", base, key)
    if tag == "proj" and len(s) == 4:
        v = fold(s[1])
        if isinstance(v, tuple) and v and v[0] in ("tuple", "list") and len(v[1]) == s[3]:
            return v[1][s[2]]
        return ("proj", v, s[2], s[3])
    return tuple(fold(x) for x in s)


def _never_none(x: S) -> bool:
    """a value that is built on the spot: a tuple / list / dict display, a number, a string, the result of arithmetic or of a
    comparison"""
    return isinstance(x, tuple) and bool(x) and (x[0] in ("tuple", "list", "dict", "comp", "poly", "lt0", "eq0", "ne0", "not", "and", "or", "cmp", "concat", "fstr")
                                                 or (x[0] == "k" and x[1] in ("num", "str", "bool")))


def assume(x: S, cond: S, truth: bool) -> S:
    """``x`` simplified under the knowledge that ``cond`` is true / false (conjuncts of a true conjunction are true,
    disjuncts of a false disjunction are false)"""
    known: dict = {}

    def learn(c, t):
        # a test that is not itself a truth value (``if rectangles:``) says something about its truthiness only: the
        # expression keeps its value wherever it is used as a value
        if _is_boolean(c):
            known[c] = K_TRUE if t else K_FALSE
        known[mk_not(c)] = K_FALSE if t else K_TRUE
        if isinstance(c, tuple) and c:
            if c[0] == "and" and t:
                for y in c[1]:
                    learn(y, True)
            if c[0] == "or" and not t:
                for y in c[1]:
                    learn(y, False)
            if c[0] == "not":
                learn(c[1], not t)
    learn(cond, truth)
    known.pop(K_TRUE, None)
    known.pop(K_FALSE, None)
    return fold(Sigma(raw_subst=known).apply(x)) if known else x


def fold_poly(s: S) -> S:
    p = to_poly(s)
    return p.map_atoms(lambda a: to_poly(fold(a))).to_s()


_EXIT = ("ret", "raise", "break", "continue")


def fold_block(block: tuple) -> tuple:
    out = []
    for st in block:
        r = fold(st)
        if isinstance(r, tuple) and r and r[0] == "seq":
            out.extend(r[1])
        elif isinstance(r, tuple) and r and r[0] == "assert" and r[1] == K_TRUE:
            continue
        else:
            out.append(r)
        if out and isinstance(out[-1], tuple) and out[-1] and out[-1][0] in _EXIT:
            break
        if out and isinstance(out[-1], tuple) and out[-1][0] == "assert" and out[-1][1] == K_FALSE:
            out[-1] = ("raise", ("g", "AssertionError"))
            break
    return tuple(out)


def peval_block(block: tuple, env: dict) -> tuple:
    """Substitute env (S -> constant S) and fold, flow-sensitively: assignments of constants to variables extend the
    environment, other assignments drop the binding; a decided ``if`` is replaced by the evaluated branch, an
    undecided one evaluates both branches and keeps the bindings they agree on."""
    return _peval(block, dict(env))[0]


def _peval(block: tuple, env: dict) -> tuple:
    out: list[S] = []

    def sub(x: S) -> S:
        return fold(Sigma(raw_subst=env).apply(x)) if env else fold(x)
    for st in block:
        tag = st[0]
        if tag == "if":
            c = sub(st[1])
            if c == K_TRUE:
                res, env = _peval(st[2], env)
                out.extend(res)
            elif c == K_FALSE:
                res, env = _peval(st[3], env)
                out.extend(res)
            else:
                a, ea = _peval(st[2], dict(env))
                b, eb = _peval(st[3], dict(env))
                out.append(mk_if(c, a, b))
                a_exits = bool(a) and a[-1][0] in _EXIT
                b_exits = bool(b) and b[-1][0] in _EXIT
                if a_exits and not b_exits:
                    env = eb
                elif b_exits and not a_exits:
                    env = ea
                else:
                    env = {k: v for k, v in ea.items() if eb.get(k) == v}
        elif tag == "set" and len(st) == 3:
            val = sub(st[2])
            tgt = st[1] if st[1] in env else (Sigma(raw_subst=env).apply(st[1]) if env else st[1])
            out.append(("set", tgt, val))
            if is_const(val):
                env = dict(env)
                env[st[1]] = val
            else:
                env = {k: v for k, v in env.items() if k != st[1]}
        elif tag == "mset":
            vals = tuple(sub(v) for v in st[2])
            out.append(("mset", st[1], vals))
            env = {k: v for k, v in env.items() if k not in st[1]}
        elif tag == "aug" and len(st) == 4:
            out.append(("aug", st[1], st[2], sub(st[3])))
            env = {k: v for k, v in env.items() if k != st[2]}
        elif tag in ("for", "while"):
            killed = _assigned_in(st)
            env = {k: v for k, v in env.items() if k not in killed}
            out.append(sub(st))
        elif tag == "assert":
            c = sub(st[1])
            if c == K_TRUE:
                continue
            if c == K_FALSE:
                out.append(("raise", ("g", "AssertionError")))
            else:
                out.append(("assert", c))
        else:
            out.append(sub(st))
        if out and isinstance(out[-1], tuple) and out[-1] and out[-1][0] in _EXIT:
            break
    return tuple(out), env


def _subst_stmt(st: S, env: dict) -> S:
    """substitute env into a statement, leaving assignment targets that are themselves bound in env untouched"""
    sg = Sigma(raw_subst=env)
    tag = st[0]
    if tag == "set" and len(st) == 3 and st[1] in env:
        return ("set", st[1], sg.apply(st[2]))
    if tag == "mset":
        return ("mset", tuple(t if t in env else sg.apply(t) for t in st[1]), tuple(sg.apply(v) for v in st[2]))
    if tag == "aug" and len(st) == 4 and st[2] in env:
        return ("aug", st[1], st[2], sg.apply(st[3]))
    if tag == "if":
        # targets inside the branches are handled when the branch is evaluated
        return ("if", sg.apply(st[1]), tuple(_subst_stmt(x, env) for x in st[2]), tuple(_subst_stmt(x, env) for x in st[3]))
    if tag == "for" and len(st) == 5:
        return ("for", st[1], sg.apply(st[2]), tuple(_subst_stmt(x, env) for x in st[3]), tuple(_subst_stmt(x, env) for x in st[4]))
    return sg.apply(st)


def _update_env_after(orig: tuple, env: dict, folded: Optional[tuple] = None) -> dict:
    env = dict(env)
    for st in (folded or orig):
        if st[0] == "set" and len(st) == 3:
            tgt, val = st[1], st[2]
            if is_const(val):
                env[tgt] = val
            else:
                env.pop(tgt, None)
        elif st[0] in ("if", "for", "while", "mset", "aug"):
            for t in _assigned_in(st):
                env.pop(t, None)
    return env


def _assigned_in(st: S) -> set:
    out = set()

    def rec(x):
        if isinstance(x, tuple) and x:
            if x[0] in ("set", "aug") and len(x) >= 3:
                out.add(x[1] if x[0] == "set" else x[2])
            if x[0] == "mset":
                for t in x[1]:
                    out.add(t)
            if x[0] == "for":
                out.add(x[1])
            for y in x:
                rec(y)
    rec(st)
    return out


def returns_of(block: tuple) -> list[tuple[S, S]]:
    """All (path condition, returned value / ('raise', exc)) leaves of a residual block."""
    out: list[tuple[S, S]] = []

    def walk(stmts: tuple, cond: S) -> bool:
        """returns True if all paths through stmts exit"""
        for st in stmts:
            if st[0] == "ret":
                out.append((cond, st[1]))
                return True
            if st[0] == "raise":
                out.append((cond, ("raise", st[1])))
                return True
            if st[0] == "if":
                a = walk(st[2], mk_and([cond, st[1]]))
                b = walk(st[3], mk_and([cond, mk_not(st[1])]))
                if a and b:
                    return True
                if a:
                    cond = mk_and([cond, mk_not(st[1])])
                elif b:
                    cond = mk_and([cond, st[1]])
        return False
    done = walk(block, K_TRUE)
    if not done:
        out.append((K_TRUE if not out else ("fallthrough",), K_NONE))
    return out


def paths(block: tuple, env: Optional[dict] = None, limit: int = 4096, fall: S = ("fall",), split_values: bool = False) -> list[tuple[tuple, S]]:
    """Path-sensitive tabulation of a loop-free canonical block: list of
    (tuple of branch literals in order, outcome) where outcome is the folded return
    value, ('raise', exc) or ('fall',).  Assignments to variables update a symbolic
    environment (variable S-id -> value S) that is substituted into later conditions
    and values; loops are opaque (their assigned variables are forgotten).  For a whole function body pass
    fall=K_NONE: falling off the end returns None."""
    out: list[tuple[tuple, S]] = []

    def sub(x: S, e: dict) -> S:
        return fold(Sigma(raw_subst=e).apply(x)) if e else fold(x)

    def walk(stmts: tuple, i: int, lits: tuple, e: dict) -> None:
        if len(out) > limit:
            raise RuntimeError("path explosion")
        while i < len(stmts):
            st = stmts[i]
            tag = st[0]
            if tag == "ret":
                v = sub(st[1], e)
                if split_values and isinstance(v, tuple) and v[:1] == ("ite",) and len(v) == 4 and not _is_boolean(v[2]):
                    # 'return a if c else b' is 'if c: return a' ; 'return b'
                    walk((("if", v[1], (("ret", v[2]),), (("ret", v[3]),)),), 0, lits, {})
                    return
                out.append((lits, v))
                return
            if tag == "raise":
                out.append((lits, ("raise", sub(st[1], e))))
                return
            if tag == "assert":
                c = sub(st[1], e)
                if c == K_FALSE:
                    out.append((lits, ("raise", ("g", "AssertionError"))))
                    return
                if c != K_TRUE:
                    out.append((lits + (mk_not(c),), ("raise", ("g", "AssertionError"))))
                    lits = lits + (c,)
            elif tag == "set" and len(st) == 3:
                e = dict(e)
                e[st[1]] = sub(st[2], e)
            elif tag == "if":
                c = sub(st[1], e)
                rest = stmts[i + 1:]
                if c == K_TRUE:
                    walk(st[2] + rest, 0, lits, e)
                elif c == K_FALSE:
                    walk(st[3] + rest, 0, lits, e)
                else:
                    # each arm (and what follows it) is read knowing the outcome of the test
                    walk(assume(tuple(st[2]) + tuple(rest), c, True), 0, lits + (c,), {k: assume(v, c, True) for k, v in e.items()})
                    walk(assume(tuple(st[3]) + tuple(rest), c, False), 0, lits + (mk_not(c),), {k: assume(v, c, False) for k, v in e.items()})
                return
            elif tag in ("for", "while", "mset", "aug"):
                e = dict(e)
                for t in _assigned_in(st):
                    e.pop(t, None)
            i += 1
        out.append((lits, fall))

    walk(block, 0, (), dict(env or {}))
    return out


def traces(block: tuple, env: Optional[dict] = None, limit: int = 4096, fall: S = ("fall",), keep_sets: bool = False, split_values: bool = False) -> list[tuple[tuple, tuple, S]]:
    """Like ``paths`` but with what is done along each path: list of (branch literals, effects, outcome), where the
    effects are the statements other than plain variable assignments, branches and exits, in order, with the variable
    environment substituted (loops are kept whole as one effect).  The result does not depend on how the branches are
    arranged (guard clauses, nesting, else arms, early returns).  With ``keep_sets`` the variable assignments stay in
    the trace as effects and nothing is substituted (for rules where the identity of a local matters)."""
    out: list[tuple[tuple, tuple, S]] = []

    def sub(x: S, e: dict) -> S:
        return fold(Sigma(raw_subst=e).apply(x)) if e else fold(x)

    def walk(stmts: tuple, i: int, lits: tuple, e: dict, eff: tuple) -> None:
        if len(out) > limit:
            raise RuntimeError("path explosion")
        while i < len(stmts):
            st = stmts[i]
            tag = st[0]
            if tag == "ret":
                v = sub(st[1], e)
                if split_values and isinstance(v, tuple) and v[:1] == ("ite",) and len(v) == 4 and not _is_boolean(v[2]):
                    walk((("if", v[1], (("ret", v[2]),), (("ret", v[3]),)),), 0, lits, {}, eff)
                    return
                out.append((lits, eff, v))
                return
            if tag == "raise":
                out.append((lits, eff, ("raise", sub(st[1], e))))
                return
            if tag == "assert":
                c = sub(st[1], e)
                if c == K_FALSE:
                    out.append((lits, eff, ("raise", ("g", "AssertionError"))))
                    return
                if c != K_TRUE:
                    out.append((lits + (mk_not(c),), eff, ("raise", ("g", "AssertionError"))))
                    lits = lits + (c,)
            elif tag == "set" and len(st) == 3 and st[1][0] == "v" and not keep_sets:
                e = dict(e)
                e[st[1]] = sub(st[2], e)
            elif tag == "if":
                c = sub(st[1], e)
                rest = stmts[i + 1:]
                if c == K_TRUE:
                    walk(st[2] + rest, 0, lits, e, eff)
                elif c == K_FALSE:
                    walk(st[3] + rest, 0, lits, e, eff)
                else:
                    walk(assume(tuple(st[2]) + tuple(rest), c, True), 0, lits + (c,), {k: assume(v, c, True) for k, v in e.items()}, eff)
                    walk(assume(tuple(st[3]) + tuple(rest), c, False), 0, lits + (mk_not(c),), {k: assume(v, c, False) for k, v in e.items()}, eff)
                return
            else:
                eff = eff + (_subst_stmt(st, e) if e else st,)
                if tag in ("for", "while", "mset", "aug"):
                    e = dict(e)
                    for t in _assigned_in(st):
                        e.pop(t, None)
            i += 1
        out.append((lits, eff, fall))

    walk(block, 0, (), dict(env or {}), ())
    return out


# ------------------------------------------------------------------ the value of a guard chain as one expression
_BOOLISH = ("lt0", "not", "and", "or", "eq0", "ne0", "cmp")


def _is_boolean(s: S) -> bool:
    return s in (K_TRUE, K_FALSE) or (isinstance(s, tuple) and bool(s) and s[0] in _BOOLISH)


def value_expr(block: tuple) -> Optional[S]:
    """The value returned by a block made of conditionals and returns only (after dereferencing its locals), as one
    expression: ``if c: return a`` ; ``return b``  ->  ite(c, a, b), whatever the arrangement of guards and else
    branches.  Boolean-valued results are folded into and/or.  None when the block has any other statement or a path
    without a return."""
    def v(stmts: tuple) -> Optional[S]:
        if not stmts:
            return None
        st = stmts[0]
        rest = tuple(stmts[1:])
        if st[0] == "ret":
            return st[1]
        if st[0] == "if" and len(st) == 4:
            c_ = fold(st[1])
            if c_ == K_TRUE:
                return v(tuple(st[2]) + rest)
            if c_ == K_FALSE:
                return v(tuple(st[3]) + rest)
            a = v(assume(tuple(st[2]) + rest, c_, True))
            b = v(assume(tuple(st[3]) + rest, c_, False))
            if a is None or b is None:
                return None
            return _ite(c_, a, b)
        if st[0] == "assert":
            return v(rest)
        return None

    def _ite(c: S, a: S, b: S) -> S:
        if a == b:
            return a
        if _is_boolean(a) and _is_boolean(b):
            if a == K_FALSE:
                return mk_and([mk_not(c), b])
            if a == K_TRUE:
                return mk_or([c, b])
            if b == K_FALSE:
                return mk_and([c, a])
            if b == K_TRUE:
                return mk_or([mk_not(c), a])
        # ite(c1, ite(c2, x, y), y) == ite(c1 and c2, x, y)
        if isinstance(a, tuple) and a and a[0] == "ite" and a[3] == b:
            return mk_ite(mk_and([c, a[1]]), a[2], b)
        if isinstance(b, tuple) and b and b[0] == "ite" and b[2] == a:
            return mk_ite(mk_or([c, b[1]]), a, b[3])
        return mk_ite(c, a, b)
    return v(tuple(block))
