"""Looking through helpers that did not exist on the reference tree.

A behaviour-preserving refactor that *extracts* part of an anchored function into a new private helper (a function, a
method, a static method or a nested function) moves the code the rules are about out of the function they look at.
The rules are written against the functions of the reference tree (``reference_functions.json``: the inventory of
``relpath::qualname`` confirmed by hand).  Calls from a reference function to a function that is *not* in that
inventory are therefore inlined -- at the syntax-tree level, before any analysis -- whenever that can be done
exactly:

* (E) the helper is one ``return <expr>`` (after docstring / asserts-free prologue): the call is replaced by the
  expression with the parameters replaced by the arguments;
* (Q) the helper is a search loop with constant boolean answers (``for v in it: [if skip: continue]* if c: return K``
  followed by ``return not K``): it is the expression ``any(...)`` / ``all(...)`` and handled as (E);
* (S) the helper is a statement sequence with at most one ``return`` as its last statement (and leading guards
  ``if c: return`` of a procedure): the call statement ``x = h(...)`` / ``h(...)`` / ``return h(...)`` / ``x += h(...)``
  is replaced by the body with renamed locals.

Anything else (recursion, ``*args``, generators, returns inside loops, arguments with possible effects that would have
to be duplicated in an expression) is left alone: the call stays and the rules see it as an unknown callee.
A new helper all of whose call sites were inlined is no longer listed as a function of the program.
"""
from __future__ import annotations

import ast
import copy
from typing import Optional

SIMPLE = (ast.Name, ast.Constant)


def _is_simple(e: ast.expr) -> bool:
    """an argument that can be repeated without changing behaviour"""
    if isinstance(e, SIMPLE):
        return True
    if isinstance(e, ast.Attribute):
        return _is_simple(e.value)
    if isinstance(e, ast.Subscript):
        return _is_simple(e.value) and _is_simple(e.slice)
    if isinstance(e, ast.UnaryOp) and isinstance(e.op, (ast.USub, ast.Not)):
        return _is_simple(e.operand)
    if isinstance(e, ast.Slice):
        return all(x is None or _is_simple(x) for x in (e.lower, e.upper, e.step))
    if isinstance(e, ast.Tuple):
        return all(_is_simple(x) for x in e.elts)
    if isinstance(e, ast.BinOp):
        return _is_simple(e.left) and _is_simple(e.right)
    return False


def _body(fn: ast.FunctionDef) -> list:
    b = list(fn.body)
    if b and isinstance(b[0], ast.Expr) and isinstance(b[0].value, ast.Constant) and isinstance(b[0].value.value, str):
        b = b[1:]
    return [s for s in b if not isinstance(s, ast.Pass)]


def _has(node, kinds) -> bool:
    return any(isinstance(x, kinds) for x in ast.walk(node))


class _Subst(ast.NodeTransformer):
    """replace parameter names by argument expressions; names re-bound in an inner scope are left alone"""
    def __init__(self, mapping: dict, rename: dict):
        self.mapping = mapping
        self.rename = rename
        self.shadow: list = []

    def _shadowed(self, name: str) -> bool:
        return any(name in s for s in self.shadow)

    def visit_Name(self, node: ast.Name):
        if self._shadowed(node.id):
            return node
        if isinstance(node.ctx, ast.Load) and node.id in self.mapping:
            return copy.deepcopy(self.mapping[node.id])
        if node.id in self.rename:
            return ast.copy_location(ast.Name(id=self.rename[node.id], ctx=node.ctx), node)
        return node

    def _scoped(self, node, names):
        self.shadow.append(set(names))
        self.generic_visit(node)
        self.shadow.pop()
        return node

    def visit_Lambda(self, node):
        a = node.args
        return self._scoped(node, [x.arg for x in a.posonlyargs + a.args + a.kwonlyargs])

    def visit_FunctionDef(self, node):
        a = node.args
        return self._scoped(node, [x.arg for x in a.posonlyargs + a.args + a.kwonlyargs])


def _bind(h, call: ast.Call, receiver: Optional[ast.expr]) -> Optional[dict]:
    """parameter name -> argument expression (defaults filled in); None when the signature is not plain"""
    fn = h.node
    a = fn.args
    if a.vararg or a.kwarg or any(isinstance(x, ast.Starred) for x in call.args) or any(k.arg is None for k in call.keywords):
        return None
    params = [x.arg for x in a.posonlyargs + a.args]
    out: dict = {}
    if h.kind in ("method", "classmethod"):
        if receiver is None or not params:
            return None
        out[params[0]] = receiver
        params = params[1:]
    if len(call.args) > len(params):
        return None
    for p, v in zip(params, call.args):
        out[p] = v
    for k in call.keywords:
        if k.arg in out or k.arg not in params + [x.arg for x in a.kwonlyargs]:
            return None
        out[k.arg] = k.value
    defaults = dict(zip([x.arg for x in (a.posonlyargs + a.args)][len(a.posonlyargs + a.args) - len(a.defaults):], a.defaults))
    for x, d in zip(a.kwonlyargs, a.kw_defaults):
        if d is not None:
            defaults[x.arg] = d
    for p in params + [x.arg for x in a.kwonlyargs]:
        if p not in out:
            if p not in defaults:
                return None
            out[p] = defaults[p]
    return out


def _uses(fn_body: list, name: str) -> int:
    n = 0
    for st in fn_body:
        for x in ast.walk(st):
            if isinstance(x, ast.Name) and x.id == name and isinstance(x.ctx, ast.Load):
                n += 1
    return n


def _in_repeated_context(fn_body: list, name: str) -> bool:
    for st in fn_body:
        for x in ast.walk(st):
            if isinstance(x, (ast.For, ast.While, ast.ListComp, ast.SetComp, ast.DictComp, ast.GeneratorExp, ast.Lambda)):
                if any(isinstance(y, ast.Name) and y.id == name for y in ast.walk(x)):
                    return True
    return False


def _query_expr(body: list) -> Optional[ast.expr]:
    """(Q): ``for v in it: [if s: continue]* if c: return K`` ; ``return not K``  ->  any / all expression"""
    if len(body) != 2 or not isinstance(body[0], ast.For) or body[0].orelse or not isinstance(body[1], ast.Return):
        return None
    loop, last = body
    if not (isinstance(last.value, ast.Constant) and isinstance(last.value.value, bool)):
        return None
    skips = []
    stmts = list(loop.body)
    while stmts and isinstance(stmts[0], ast.If) and not stmts[0].orelse and len(stmts[0].body) == 1 and isinstance(stmts[0].body[0], ast.Continue):
        skips.append(stmts.pop(0).test)
    if len(stmts) != 1 or not isinstance(stmts[0], ast.If) or stmts[0].orelse or len(stmts[0].body) != 1:
        return None
    ret = stmts[0].body[0]
    if not (isinstance(ret, ast.Return) and isinstance(ret.value, ast.Constant) and isinstance(ret.value.value, bool)
            and ret.value.value is not last.value.value):
        return None
    hit = stmts[0].test
    # an item decides the answer iff it is not skipped and satisfies the test
    cond = hit if not skips else ast.BoolOp(op=ast.And(), values=[ast.UnaryOp(op=ast.Not(), operand=s) for s in skips] + [hit])
    if ret.value.value is True:      # found -> True, exhausted -> False
        elt, fn = cond, "any"
    else:                            # found -> False, exhausted -> True
        elt, fn = ast.UnaryOp(op=ast.Not(), operand=cond), "all"
    gen = ast.GeneratorExp(elt=elt, generators=[ast.comprehension(target=loop.target, iter=loop.iter, ifs=[], is_async=0)])
    return ast.Call(func=ast.Name(id=fn, ctx=ast.Load()), args=[gen], keywords=[])


class _EnvSubst(ast.NodeTransformer):
    def __init__(self, env: dict):
        self.env = env
        self.shadow: list = []

    def visit_Name(self, node):
        if isinstance(node.ctx, ast.Load) and node.id in self.env and not any(node.id in s for s in self.shadow):
            return copy.deepcopy(self.env[node.id])
        return node

    def visit_Lambda(self, node):
        a = node.args
        self.shadow.append({x.arg for x in a.posonlyargs + a.args + a.kwonlyargs})
        self.generic_visit(node)
        self.shadow.pop()
        return node


_PURE_CALLS = {"min", "max", "abs", "float", "int", "len", "sum", "sqrt", "bool", "str", "tuple", "Point", "Shape", "round", "all", "any", "isinstance",
               "values", "items", "keys", "acos", "cos", "sin", "list", "dict", "set", "sorted", "range", "enumerate", "zip", "area", "is_number"}


def _pure_expr(e: ast.expr) -> bool:
    for x in ast.walk(e):
        if isinstance(x, ast.Call):
            nm = x.func.id if isinstance(x.func, ast.Name) else (x.func.attr if isinstance(x.func, ast.Attribute) else "")
            if nm not in _PURE_CALLS:
                return False
        if isinstance(x, (ast.NamedExpr, ast.Yield, ast.YieldFrom, ast.Await, ast.Lambda)):
            return False
    return True


def _straight_line_expr(body: list) -> Optional[ast.expr]:
    """a helper without loops or effects -- plain locals, conditionals whose arms assign locals or return, a return on
    every path -- as one expression: locals are replaced by their definitions, conditionals become conditional
    expressions (``if c: return a`` ; ``return b``  ->  ``a if c else b``)"""
    budget = [200]

    def ev(stmts: list, env: dict) -> Optional[ast.expr]:
        budget[0] -= 1
        if budget[0] < 0 or not stmts:
            return None
        st, rest = stmts[0], stmts[1:]

        def sub(e):
            return _EnvSubst(env).visit(copy.deepcopy(e))
        if isinstance(st, ast.Return):
            return sub(st.value) if st.value is not None else ast.Constant(value=None)
        if isinstance(st, ast.AnnAssign) and st.value is not None and isinstance(st.target, ast.Name):
            st = ast.Assign(targets=[st.target], value=st.value)
        if isinstance(st, ast.Assign) and len(st.targets) == 1 and _pure_expr(st.value):
            t = st.targets[0]
            if isinstance(t, ast.Name):
                env2 = dict(env)
                env2[t.id] = sub(st.value)
                return ev(rest, env2)
            if isinstance(t, ast.Tuple) and isinstance(st.value, ast.Tuple) and len(t.elts) == len(st.value.elts) and all(isinstance(x, ast.Name) for x in t.elts):
                vals = [sub(v) for v in st.value.elts]
                env2 = dict(env)
                for x, v in zip(t.elts, vals):
                    env2[x.id] = v
                return ev(rest, env2)
            return None
        if isinstance(st, ast.If) and _pure_expr(st.test) and not _has(st, ast.Return):
            # arms that only (re)define locals: each such local becomes a conditional expression
            def arm(stmts_, base):
                e2 = dict(base)
                for x in stmts_:
                    if isinstance(x, ast.AnnAssign) and x.value is not None and isinstance(x.target, ast.Name):
                        x = ast.Assign(targets=[x.target], value=x.value)
                    if isinstance(x, ast.Pass):
                        continue
                    if not (isinstance(x, ast.Assign) and len(x.targets) == 1 and isinstance(x.targets[0], ast.Name) and _pure_expr(x.value)):
                        return None
                    e2[x.targets[0].id] = _EnvSubst(e2).visit(copy.deepcopy(x.value))
                return e2
            ea, eb = arm(st.body, env), arm(st.orelse, env)
            if ea is None or eb is None:
                return None
            test = sub(st.test)
            env2 = dict(env)
            for nm in set(ea) | set(eb):
                va, vb = ea.get(nm), eb.get(nm)
                if va is None or vb is None:
                    return None          # defined on one path only
                env2[nm] = va if ast.dump(va) == ast.dump(vb) else ast.IfExp(test=copy.deepcopy(test), body=va, orelse=vb)
            return ev(rest, env2)
        if isinstance(st, ast.If) and (_pure_expr(st.test) or not _has(st.test, (ast.NamedExpr, ast.Yield, ast.YieldFrom, ast.Await, ast.Lambda))):
            # the test is evaluated once, where it stood, and one arm after it (the locals read are pure by construction)
            a = ev(list(st.body) + rest, env)
            b = ev(list(st.orelse) + rest, env)
            if a is None or b is None:
                return None
            return ast.IfExp(test=sub(st.test), body=a, orelse=b)
        if isinstance(st, ast.Pass):
            return ev(rest, env)
        return None
    return ev(list(body), {})


def _search_tail(body: list) -> list:
    """a body that ends with a search loop answering with constants (``for v in it: if c: return K`` ; ``return not K``) after
    other statements: the tail is the one ``return any(...)`` / ``return all(...)``"""
    if len(body) >= 3:
        q = _query_expr(body[-2:])
        if q is not None:
            ret = ast.copy_location(ast.Return(value=q), body[-2])
            ast.fix_missing_locations(ret)
            return list(body[:-2]) + [ret]
    return body


def _expr_form(h) -> Optional[ast.expr]:
    body = _search_tail(_body(h.node))
    if len(body) == 1 and isinstance(body[0], ast.Return) and body[0].value is not None:
        return body[0].value
    q = _query_expr(body)
    if q is not None:
        return q
    return _straight_line_expr(body)


def _guards_to_nesting(body: list) -> list:
    """procedure guards ``if c: return`` followed by the rest  ->  ``if not c: rest`` (no value returned)"""
    out = []
    for k, st in enumerate(body):
        if isinstance(st, ast.If) and not st.orelse and len(st.body) == 1 and isinstance(st.body[0], ast.Return) and st.body[0].value is None:
            rest = _guards_to_nesting(body[k + 1:])
            if rest:
                out.append(ast.If(test=ast.UnaryOp(op=ast.Not(), operand=st.test), body=rest, orelse=[]))
            return out
        out.append(st)
    return out


_RET = "_ret__value"


def _single_exit(body: list) -> Optional[list]:
    """a helper that returns values from several places -- each return the last statement of the body or of an arm of a
    conditional on the main line -- with one exit: the value is bound to a result local and what followed an exiting arm becomes
    the other arm.  None when a return sits anywhere else (in a loop, try, with)."""
    def has_ret(x):
        return any(isinstance(y, ast.Return) for y in ast.walk(x))

    def conv(stmts):
        out = []
        for k, st in enumerate(stmts):
            if isinstance(st, ast.Return):
                out.append(ast.Assign(targets=[ast.Name(id=_RET, ctx=ast.Store())], value=st.value or ast.Constant(value=None), lineno=st.lineno))
                return out, True
            if isinstance(st, ast.If) and has_ret(st):
                if has_ret(st.test):
                    return None, False
                a = conv(list(st.body))
                b = conv(list(st.orelse)) if st.orelse else ([], False)
                if a[0] is None or b[0] is None:
                    return None, False
                rest = stmts[k + 1:]
                if a[1] and b[1]:
                    out.append(ast.If(test=st.test, body=a[0], orelse=b[0]))
                    return out, True
                r = conv(list(rest))
                if r[0] is None:
                    return None, False
                if a[1]:
                    out.append(ast.If(test=st.test, body=a[0], orelse=(b[0] + r[0]) or [ast.Pass()]))
                    return out, r[1]
                if b[1]:
                    out.append(ast.If(test=st.test, body=(a[0] + r[0]) or [ast.Pass()], orelse=b[0]))
                    return out, r[1]
                return None, False
            if has_ret(st) and not isinstance(st, (ast.FunctionDef, ast.AsyncFunctionDef, ast.ClassDef)):
                return None, False
            out.append(st)
        return out, False
    res, exits = conv(list(body))
    if res is None:
        return None
    if not exits:
        # some path falls off the end: that is 'return None' -- only sound when every path that does not assign falls through here
        res = [ast.Assign(targets=[ast.Name(id=_RET, ctx=ast.Store())], value=ast.Constant(value=None), lineno=getattr(body[0], "lineno", 1))] + res \
            if not any(isinstance(x, ast.Name) and x.id == _RET for s_ in res for x in ast.walk(s_)) else None
        return res
    return res


def _stmt_form(h) -> Optional[tuple]:
    """(statements, returned expression or None) for (S)"""
    body = _search_tail(_body(h.node))
    # value returns from several places: one exit; likewise a procedure that returns early from inside nested conditionals
    n_val_returns = sum(1 for s_ in body for x in ast.walk(s_) if isinstance(x, ast.Return) and x.value is not None)
    n_bare_nested = sum(1 for s_ in body if isinstance(s_, ast.If) for arm in (s_.body, s_.orelse) for y in arm for x in ast.walk(y)
                        if isinstance(x, ast.Return) and x.value is None and not (y is x and len(arm) == 1 and not s_.orelse))
    if n_val_returns == 0 and n_bare_nested and not _has(ast.Module(body=body, type_ignores=[]), (ast.Yield, ast.YieldFrom)):
        se = _single_exit(copy.deepcopy(body))
        if se is not None:
            # a procedure: the result local is not needed
            class _Drop(ast.NodeTransformer):
                def visit_Assign(self, node):
                    if len(node.targets) == 1 and isinstance(node.targets[0], ast.Name) and node.targets[0].id == _RET:
                        return ast.copy_location(ast.Pass(), node)
                    return node
            se = [_Drop().visit(s_) for s_ in se]
            for s_ in se:
                ast.fix_missing_locations(s_)
            if not any(_has(s_, (ast.Return, ast.Global, ast.Nonlocal, ast.Await)) for s_ in se):
                return se, None
    if n_val_returns >= 2 and not _has(ast.Module(body=body, type_ignores=[]), (ast.Yield, ast.YieldFrom)):
        se = _single_exit(copy.deepcopy(body))
        if se is not None:
            for s_ in se:
                ast.fix_missing_locations(s_)
            if not any(_has(s_, (ast.Return, ast.Global, ast.Nonlocal, ast.Await)) for s_ in se):
                return se, ast.Name(id=_RET, ctx=ast.Load())
    if any(isinstance(s, ast.If) and len(s.body) == 1 and isinstance(s.body[0], ast.Return) and s.body[0].value is None for s in body) \
            and not any(isinstance(x, ast.Return) and x.value is not None for s in body for x in ast.walk(s)):
        body = _guards_to_nesting(body)
    ret = None
    if body and isinstance(body[-1], ast.Return):
        ret = body[-1].value
        body = body[:-1]
    if any(_has(s, (ast.Return, ast.Yield, ast.YieldFrom, ast.Global, ast.Nonlocal, ast.Await)) for s in body):
        return None
    return body, ret


class _FoldConst(ast.NodeTransformer):
    """after a literal argument has been substituted for a selector parameter: ``a if True else b`` is ``a``, ``if False: ...``
    is its else branch, ``not True`` is ``False``"""
    def visit_UnaryOp(self, node):
        self.generic_visit(node)
        if isinstance(node.op, ast.Not) and isinstance(node.operand, ast.Constant) and isinstance(node.operand.value, bool):
            return ast.copy_location(ast.Constant(value=not node.operand.value), node)
        return node

    def visit_IfExp(self, node):
        self.generic_visit(node)
        if isinstance(node.test, ast.Constant) and isinstance(node.test.value, bool):
            return node.body if node.test.value else node.orelse
        return node

    def visit_BoolOp(self, node):
        self.generic_visit(node)
        vals = []
        for v in node.values:
            if isinstance(v, ast.Constant) and isinstance(v.value, bool):
                if isinstance(node.op, ast.And):
                    if not v.value:
                        return ast.copy_location(ast.Constant(value=False), node)
                    continue
                if v.value:
                    return ast.copy_location(ast.Constant(value=True), node)
                continue
            vals.append(v)
        if not vals:
            return ast.copy_location(ast.Constant(value=isinstance(node.op, ast.And)), node)
        if len(vals) == 1:
            return vals[0]
        node.values = vals
        return node

    def _block(self, stmts):
        out = []
        for st in stmts:
            r = self.visit(st)
            if r is None:
                continue
            out.extend(r if isinstance(r, list) else [r])
        return out

    def visit_If(self, node):
        node.test = self.visit(node.test)
        node.body = self._block(node.body)
        node.orelse = self._block(node.orelse)
        if isinstance(node.test, ast.Constant) and isinstance(node.test.value, bool):
            return (node.body if node.test.value else node.orelse) or [ast.copy_location(ast.Pass(), node)]
        if not node.body:
            node.body = [ast.copy_location(ast.Pass(), node)]
        return node

    def generic_visit(self, node):
        for fld in ("body", "orelse", "finalbody"):
            blk = getattr(node, fld, None)
            if isinstance(blk, list) and blk and isinstance(blk[0], ast.stmt) and not isinstance(node, ast.If):
                setattr(node, fld, self._block(blk) or [ast.copy_location(ast.Pass(), node)])
        for fld, val in ast.iter_fields(node):
            if fld in ("body", "orelse", "finalbody") and isinstance(val, list) and val and isinstance(val[0], ast.stmt):
                continue
            if isinstance(val, ast.AST):
                setattr(node, fld, self.visit(val))
            elif isinstance(val, list):
                setattr(node, fld, [self.visit(x) if isinstance(x, ast.AST) else x for x in val])
        return node


class Inliner:
    def __init__(self, model, reference: set):
        self.model = model
        self.reference = reference
        self.counter = 0
        self.inlined_sites: dict = {}     # helper where -> count
        self.kept_sites: dict = {}        # helper where -> count of call sites left as calls

    def is_new(self, h) -> bool:
        return h.where not in self.reference

    def _callee(self, fi, call: ast.Call, generator: bool = False):
        try:
            cands = self.model.resolve_call(fi, call)
        except Exception:
            return None
        cands = [c for c in cands if self.is_new(c)]
        if len(cands) != 1:
            return None
        h = cands[0]
        if h is fi or h.kind in ("property", "setter") or (_has(h.node, (ast.Yield, ast.YieldFrom)) != generator):
            return None
        # a decorated helper is not its body (a memoising decorator adds process-wide state): only the method kinds are plain
        for d in h.node.decorator_list:
            nm = d.id if isinstance(d, ast.Name) else (d.attr if isinstance(d, ast.Attribute) else "")
            if nm not in ("staticmethod", "classmethod"):
                return None
        # recursion: the helper must not (transitively, within new helpers) call itself
        if any(isinstance(c, ast.Call) and isinstance(c.func, (ast.Name, ast.Attribute)) and
               (c.func.id if isinstance(c.func, ast.Name) else c.func.attr) == h.name for c in ast.walk(h.node)):
            return None
        return h

    def _receiver(self, call: ast.Call) -> Optional[ast.expr]:
        return call.func.value if isinstance(call.func, ast.Attribute) else None

    # -- expression level ------------------------------------------------------------------------------------------
    def expr_inline(self, fi, call: ast.Call) -> Optional[ast.expr]:
        h = self._callee(fi, call)
        if h is None:
            return None
        e = _expr_form(h)
        if e is None:
            return None
        mp = _bind(h, call, self._receiver(call))
        if mp is None:
            return None
        body = [ast.Expr(value=e)]
        for p, v in mp.items():
            if not _is_simple(v) and (_uses(body, p) > 1 or _in_repeated_context(body, p)):
                return None       # the argument would be evaluated a different number of times
        new = _Subst(mp, {}).visit(copy.deepcopy(e))
        if any(isinstance(v, ast.Constant) and isinstance(v.value, bool) for v in mp.values()):
            new = _FoldConst().visit(new)
        self.inlined_sites[h.where] = self.inlined_sites.get(h.where, 0) + 1
        return ast.copy_location(new, call)

    # -- statement level -------------------------------------------------------------------------------------------
    def hoist(self, fi, st: ast.stmt) -> Optional[list]:
        """calls of statement-form helpers that sit inside a larger expression of a simple statement (an element of the
        returned tuple, an argument) are first bound to fresh locals, in evaluation order"""
        if not isinstance(st, (ast.Assign, ast.AnnAssign, ast.AugAssign, ast.Return, ast.Expr)) or getattr(st, "value", None) is None:
            return None
        found = []

        def rec(e, top):
            if isinstance(e, (ast.Lambda, ast.ListComp, ast.SetComp, ast.DictComp, ast.GeneratorExp, ast.IfExp, ast.BoolOp)):
                return          # evaluated conditionally or repeatedly: left alone
            for ch in ast.iter_child_nodes(e):
                rec(ch, False)
            if isinstance(e, ast.Call) and not top:
                h = self._callee(fi, e)
                if h is not None and _expr_form(h) is None and _stmt_form(h) is not None and _bind(h, e, self._receiver(e)) is not None:
                    found.append(e)
        rec(st.value, True)
        if not found:
            return None
        pre = []
        for e in found:
            self.counter += 1
            tmp = f"_piece__h{self.counter}"
            pre.append(ast.Assign(targets=[ast.Name(id=tmp, ctx=ast.Store())], value=copy.deepcopy(e), lineno=st.lineno))

            class R(ast.NodeTransformer):
                def visit_Call(self_, node):
                    if node is e:
                        return ast.copy_location(ast.Name(id=tmp, ctx=ast.Load()), node)
                    self_.generic_visit(node)
                    return node
            st.value = R().visit(st.value)
        for s_ in pre:
            ast.copy_location(s_, st)
            ast.fix_missing_locations(s_)
        return pre + [st]

    # -- generators --------------------------------------------------------------------------------------------------
    def comp_over_generator(self, fi, st: ast.stmt) -> Optional[list]:
        """``v = [e for x in it if c]`` where looking through a new helper needs statements -- ``it`` is a call of a new generator
        helper, or ``e`` / ``c`` call a new helper that is not a single expression  ->  ``v = []`` ; ``for x in it: if c: v.append(e)``
        (likewise for a returned comprehension, through a fresh local)"""
        ret = False
        if isinstance(st, ast.AnnAssign) and st.value is not None and isinstance(st.target, ast.Name):
            tgt_id, val = st.target.id, st.value
        elif isinstance(st, ast.Assign) and len(st.targets) == 1 and isinstance(st.targets[0], ast.Name):
            tgt_id, val = st.targets[0].id, st.value
        elif isinstance(st, ast.Return) and st.value is not None:
            self.counter += 1
            tgt_id, val, ret = f"_piece__c{self.counter}", st.value, True
        elif isinstance(st, ast.Expr) and isinstance(st.value, ast.Call) and isinstance(st.value.func, ast.Attribute) and st.value.func.attr == "extend" \
                and len(st.value.args) == 1 and not st.value.keywords and _is_simple(st.value.func.value) \
                and isinstance(st.value.args[0], (ast.GeneratorExp, ast.ListComp)) and len(st.value.args[0].generators) == 1 \
                and not st.value.args[0].generators[0].is_async and isinstance(st.value.args[0].generators[0].iter, ast.Call) \
                and self._callee(fi, st.value.args[0].generators[0].iter, generator=True) is not None:
            # obj.extend(e for x in gen(...) if c)  ->  for x in gen(...): if c: obj.append(e)
            return self._extend_over_generator(fi, st)
        else:
            return None
        # list(gen(...)) is [x for x in gen(...)]
        if isinstance(val, ast.Call) and isinstance(val.func, ast.Name) and val.func.id == "list" and len(val.args) == 1 and not val.keywords \
                and isinstance(val.args[0], ast.Call) and self._callee(fi, val.args[0], generator=True) is not None:
            self.counter += 1
            x_ = f"_item__c{self.counter}"
            val = ast.copy_location(ast.ListComp(elt=ast.Name(id=x_, ctx=ast.Load()), generators=[ast.comprehension(
                target=ast.Name(id=x_, ctx=ast.Store()), iter=val.args[0], ifs=[], is_async=0)]), val)
            ast.fix_missing_locations(val)
        if not (isinstance(val, (ast.ListComp, ast.DictComp)) and len(val.generators) == 1 and not val.generators[0].is_async):
            return None
        is_dict = isinstance(val, ast.DictComp)
        g = val.generators[0]
        over_gen = isinstance(g.iter, ast.Call) and self._callee(fi, g.iter, generator=True) is not None

        def needs_statements(e):
            for c in ast.walk(e):
                if isinstance(c, ast.Call):
                    h = self._callee(fi, c)
                    if h is not None and _expr_form(h) is None and _stmt_form(h) is not None and _bind(h, c, self._receiver(c)) is not None:
                        return True
            return False
        parts = [val.key, val.value] if is_dict else [val.elt]
        if not over_gen and not any(needs_statements(p_) for p_ in parts) and not any(needs_statements(c) for c in g.ifs):
            return None
        if any(isinstance(x, ast.Name) and x.id == tgt_id for x in ast.walk(val)):
            return None
        # the comprehension's variables become locals of the function: they must not be names it already uses
        bound = {x.id for x in ast.walk(g.target) if isinstance(x, ast.Name)}
        inside = {id(x) for x in ast.walk(val)}
        for nested in ast.walk(fi.node):       # nested functions have names of their own
            if nested is not fi.node and isinstance(nested, (ast.FunctionDef, ast.AsyncFunctionDef, ast.Lambda)):
                inside |= {id(x) for x in ast.walk(nested)}
        if any(isinstance(x, ast.Name) and x.id in bound and id(x) not in inside for x in ast.walk(fi.node)):
            # the function uses such a name for something else: the comprehension's variables get names of their own
            if any(isinstance(x, (ast.ListComp, ast.SetComp, ast.DictComp, ast.GeneratorExp, ast.Lambda)) for x in ast.walk(val) if x is not val):
                return None
            self.counter += 1
            for x in ast.walk(val):
                if isinstance(x, ast.Name) and x.id in bound:
                    x.id = f"{x.id}__c{self.counter}"
        if is_dict:
            app: ast.stmt = ast.Assign(targets=[ast.Subscript(value=ast.Name(id=tgt_id, ctx=ast.Load()), slice=val.key, ctx=ast.Store())],
                                       value=val.value, lineno=st.lineno)
        else:
            app = ast.Expr(value=ast.Call(func=ast.Attribute(value=ast.Name(id=tgt_id, ctx=ast.Load()), attr="append", ctx=ast.Load()),
                                          args=[val.elt], keywords=[]))
        for c in reversed(g.ifs):
            app = ast.If(test=c, body=[app], orelse=[])
        init = ast.Assign(targets=[ast.Name(id=tgt_id, ctx=ast.Store())],
                          value=ast.Dict(keys=[], values=[]) if is_dict else ast.List(elts=[], ctx=ast.Load()), lineno=st.lineno)
        loop = ast.For(target=g.target, iter=g.iter, body=[app], orelse=[], lineno=st.lineno)
        out = [init, loop] + ([ast.Return(value=ast.Name(id=tgt_id, ctx=ast.Load()))] if ret else [])
        for s_ in out:
            ast.copy_location(s_, st)
            ast.fix_missing_locations(s_)
        return out

    def _extend_over_generator(self, fi, st: ast.Expr) -> Optional[list]:
        val = st.value.args[0]
        g = val.generators[0]
        obj = st.value.func.value
        bound = {x.id for x in ast.walk(g.target) if isinstance(x, ast.Name)}
        if any(isinstance(x, ast.Name) and x.id in bound for x in ast.walk(obj)):
            return None
        inside = {id(x) for x in ast.walk(val)}
        for nested in ast.walk(fi.node):
            if nested is not fi.node and isinstance(nested, (ast.FunctionDef, ast.AsyncFunctionDef, ast.Lambda)):
                inside |= {id(x) for x in ast.walk(nested)}
        if any(isinstance(x, ast.Name) and x.id in bound and id(x) not in inside for x in ast.walk(fi.node)):
            if any(isinstance(x, (ast.ListComp, ast.SetComp, ast.DictComp, ast.GeneratorExp, ast.Lambda)) for x in ast.walk(val) if x is not val):
                return None
            self.counter += 1
            for x in ast.walk(val):
                if isinstance(x, ast.Name) and x.id in bound:
                    x.id = f"{x.id}__c{self.counter}"
        app: ast.stmt = ast.Expr(value=ast.Call(func=ast.Attribute(value=copy.deepcopy(obj), attr="append", ctx=ast.Load()), args=[val.elt], keywords=[]))
        for c in reversed(g.ifs):
            app = ast.If(test=c, body=[app], orelse=[])
        loop = ast.For(target=g.target, iter=g.iter, body=[app], orelse=[], lineno=st.lineno)
        for x in ast.walk(loop.target):
            if isinstance(x, ast.Name):
                x.ctx = ast.Store()
        ast.copy_location(loop, st)
        ast.fix_missing_locations(loop)
        return [loop]

    def gen_inline(self, fi, st: ast.stmt) -> Optional[list]:
        """``for x in gen(args): BODY`` with gen a new generator helper whose yields are plain ``yield e`` statements: the
        helper's body with every ``yield e`` replaced by ``x = e`` ; BODY (BODY has no break / continue of its own: those would
        have to leave / resume the generator)"""
        if not (isinstance(st, ast.For) and not st.orelse and isinstance(st.iter, ast.Call)):
            return None
        h = self._callee(fi, st.iter, generator=True)
        if h is None:
            return None
        body = _body(h.node)
        yields = [x for s_ in body for x in ast.walk(s_) if isinstance(x, (ast.Yield, ast.YieldFrom))]
        if any(isinstance(y, ast.YieldFrom) or y.value is None for y in yields) or not (1 <= len(yields) <= 2):
            return None
        # yields are statements of their own, outside try / with / nested functions; the generator does not return
        ok = [True]
        n_stmt_yields = [0]

        def scan(blk):
            for s_ in blk:
                if isinstance(s_, ast.Expr) and isinstance(s_.value, ast.Yield):
                    n_stmt_yields[0] += 1
                    continue
                if isinstance(s_, (ast.Try, ast.With, ast.AsyncWith, ast.FunctionDef, ast.AsyncFunctionDef, ast.ClassDef, ast.Return, ast.Global, ast.Nonlocal)):
                    if _has(s_, (ast.Yield, ast.Return)) or isinstance(s_, (ast.Return, ast.Global, ast.Nonlocal)):
                        ok[0] = False
                    continue
                for fld in ("body", "orelse"):
                    b = getattr(s_, fld, None)
                    if isinstance(b, list) and b and isinstance(b[0], ast.stmt):
                        scan(b)
        scan(body)
        if not ok[0] or n_stmt_yields[0] != len(yields):
            return None

        def own_level_jump(blk):
            for s_ in blk:
                if isinstance(s_, (ast.Break, ast.Continue)):
                    return True
                if isinstance(s_, (ast.For, ast.While, ast.AsyncFor, ast.FunctionDef, ast.AsyncFunctionDef, ast.ClassDef)):
                    continue
                for fld in ("body", "orelse", "finalbody"):
                    b = getattr(s_, fld, None)
                    if isinstance(b, list) and b and isinstance(b[0], ast.stmt) and own_level_jump(b):
                        return True
                for hd in getattr(s_, "handlers", []) or []:
                    if own_level_jump(hd.body):
                        return True
            return False
        if own_level_jump(st.body):
            return None
        mp = _bind(h, st.iter, self._receiver(st.iter))
        if mp is None:
            return None
        self.counter += 1
        tag = f"__h{self.counter}"
        stored = {x.id for s_ in body for x in ast.walk(s_) if isinstance(x, ast.Name) and isinstance(x.ctx, ast.Store)}
        rename = {n: n + tag for n in stored if n not in mp}
        pre: list = []
        mapping = {}
        for p_, v in mp.items():
            if _is_simple(v) and p_ not in stored:
                mapping[p_] = v
            else:
                tmp = p_ + tag
                pre.append(ast.Assign(targets=[ast.Name(id=tmp, ctx=ast.Store())], value=copy.deepcopy(v), lineno=st.lineno))
                rename[p_] = tmp
        loop_target, loop_body = st.target, st.body
        # every yield hands out the same local of the helper: that local *is* the loop variable (no alias 'x = r__h1' is left
        # behind), provided the loop variable is not read outside the loop body
        same_local = None
        if isinstance(loop_target, ast.Name) and all(isinstance(y.value, ast.Name) for y in yields) and len({y.value.id for y in yields}) == 1:
            n_ = yields[0].value.id
            inside = {id(x) for b in loop_body for x in ast.walk(b)}
            # reads under another binder of the same name (a later loop over it, a comprehension's own variable) are not reads of ours
            for other in ast.walk(fi.node):
                if other is not st and isinstance(other, (ast.For, ast.AsyncFor)) and isinstance(other.target, ast.Name) and other.target.id == loop_target.id:
                    inside |= {id(x) for b in other.body for x in ast.walk(b)}
                elif isinstance(other, (ast.ListComp, ast.SetComp, ast.DictComp, ast.GeneratorExp)) and \
                        any(isinstance(t, ast.Name) and t.id == loop_target.id for g_ in other.generators for t in ast.walk(g_.target)):
                    inside |= {id(x) for x in ast.walk(other)}
            enclosing = {id(x) for anc in ast.walk(fi.node) if isinstance(anc, (ast.For, ast.AsyncFor, ast.While)) and anc is not st
                         and any(y is st for y in ast.walk(anc)) for x in ast.walk(anc)}
            end = getattr(st, "end_lineno", None) or st.lineno
            read_outside = any(isinstance(x, ast.Name) and x.id == loop_target.id and isinstance(x.ctx, ast.Load) and id(x) not in inside
                               and (getattr(x, "lineno", 0) > end or id(x) in enclosing)
                               for x in ast.walk(fi.node))
            used_in_helper = any(isinstance(x, ast.Name) and x.id == loop_target.id for s_ in body for x in ast.walk(s_)) and n_ != loop_target.id
            if n_ in rename and not read_outside and not used_in_helper:
                rename[n_] = loop_target.id
                same_local = n_
        sub = _Subst(mapping, rename)
        new_body = [sub.visit(copy.deepcopy(s_)) for s_ in body]

        class Y(ast.NodeTransformer):
            def visit_Expr(self_, node):
                if isinstance(node.value, ast.Yield):
                    if same_local is not None:
                        return [copy.deepcopy(b) for b in loop_body]
                    val_ = node.value.value
                    if isinstance(loop_target, ast.Tuple) and isinstance(val_, ast.Tuple) and len(val_.elts) == len(loop_target.elts) \
                            and all(isinstance(t, ast.Name) for t in loop_target.elts) \
                            and not any(isinstance(e, ast.Starred) for e in val_.elts):
                        names_ = [t.id for t in loop_target.elts]
                        # 'a, b = x, y' is 'a = x ; b = y' when no target is read by a later item
                        if len(set(names_)) == len(names_) and not any(
                                isinstance(x, ast.Name) and x.id in names_[:i] for i, e in enumerate(val_.elts) for x in ast.walk(e)):
                            binds = [ast.Assign(targets=[copy.deepcopy(t)], value=e, lineno=node.lineno) for t, e in zip(loop_target.elts, val_.elts)]
                            return binds + [copy.deepcopy(b) for b in loop_body]
                    bind = ast.Assign(targets=[copy.deepcopy(loop_target)], value=val_, lineno=node.lineno)
                    return [bind] + [copy.deepcopy(b) for b in loop_body]
                return node

            def visit_FunctionDef(self_, node):
                return node
        out = pre + [r for s_ in new_body for r in (lambda v_: v_ if isinstance(v_, list) else [v_])(Y().visit(s_))]
        for s_ in out:
            ast.copy_location(s_, st)
            ast.fix_missing_locations(s_)
        self.inlined_sites[h.where] = self.inlined_sites.get(h.where, 0) + 1
        return out

    def stmt_inline(self, fi, st: ast.stmt) -> Optional[list]:
        call = None
        if isinstance(st, (ast.Assign, ast.AnnAssign, ast.AugAssign, ast.Return, ast.Expr)) and isinstance(getattr(st, "value", None), ast.Call):
            call = st.value
        if call is None:
            return None
        h = self._callee(fi, call)
        if h is None or _expr_form(h) is not None:
            return None
        sf = _stmt_form(h)
        if sf is None:
            return None
        body, ret = sf
        mp = _bind(h, call, self._receiver(call))
        if mp is None:
            return None
        if ret is None and not isinstance(st, ast.Expr):
            ret = ast.Constant(value=None)
        self.counter += 1
        tag = f"__h{self.counter}"
        stored = {x.id for s in body for x in ast.walk(s) if isinstance(x, ast.Name) and isinstance(x.ctx, ast.Store)}
        rename = {n: n + tag for n in stored if n not in mp}
        pre: list = []
        mapping = {}
        for p, v in mp.items():
            if _is_simple(v) and p not in stored:
                mapping[p] = v
            else:                    # evaluated once, before the body (also when the helper re-assigns its parameter)
                tmp = p + tag
                pre.append(ast.Assign(targets=[ast.Name(id=tmp, ctx=ast.Store())], value=copy.deepcopy(v), lineno=st.lineno))
                rename[p] = tmp
        # 'x = h(...)' where h returns one of its own locals: that local *is* x (no alias 'x = r__h1' is left behind)
        if isinstance(ret, ast.Name) and ret.id in rename and isinstance(st, ast.Assign) and len(st.targets) == 1 and isinstance(st.targets[0], ast.Name) \
                and not any(isinstance(x, ast.Name) and x.id == st.targets[0].id for s_ in body for x in ast.walk(s_)):
            rename[ret.id] = st.targets[0].id
            ret = None
            st = ast.Expr(value=ast.Constant(value=None))
        sub = _Subst(mapping, rename)
        new_body = [sub.visit(copy.deepcopy(s)) for s in body]
        if any(isinstance(v, ast.Constant) and isinstance(v.value, bool) for v in mapping.values()):
            new_body = _FoldConst()._block(new_body)
        out = pre + new_body
        if ret is not None:
            r = sub.visit(copy.deepcopy(ret))
            if isinstance(st, ast.Return):
                out.append(ast.Return(value=r))
            elif isinstance(st, ast.Expr):
                out.append(ast.Expr(value=r)) if not isinstance(r, (ast.Constant, ast.Name)) else None
            else:
                st2 = copy.copy(st)
                st2.value = r
                out.append(st2)
        for s in out:
            ast.copy_location(s, st)
            ast.fix_missing_locations(s)
        self.inlined_sites[h.where] = self.inlined_sites.get(h.where, 0) + 1
        return out or [ast.Pass()]

    # -- driver ----------------------------------------------------------------------------------------------------
    def run_function(self, fi) -> bool:
        changed = False
        inl = self

        class T(ast.NodeTransformer):
            def visit_FunctionDef(self, node):
                if node is fi.node:
                    self.generic_visit(node)
                return node       # nested defs are functions of their own

            visit_AsyncFunctionDef = visit_FunctionDef

            def visit_Lambda(self, node):
                self.generic_visit(node)
                return node

            def generic_visit(self, node):
                # statement lists first (so that `x = h(...)` is seen as a statement), then expressions
                for fld in ("body", "orelse", "finalbody"):
                    blk = getattr(node, fld, None)
                    if isinstance(blk, list) and blk and isinstance(blk[0], ast.stmt):
                        new = []
                        work = list(blk)
                        while work:
                            s = work.pop(0)
                            if isinstance(s, (ast.FunctionDef, ast.ClassDef)):
                                new.append(s)
                                continue
                            hz = inl.hoist(fi, s)
                            if hz is not None:
                                nonlocal changed
                                changed = True
                                work = hz + work
                                continue
                            cg = inl.comp_over_generator(fi, s)
                            if cg is not None:
                                changed = True
                                work = cg + work
                                continue
                            rep = inl.gen_inline(fi, s)
                            if rep is not None:
                                changed = True
                                work = rep + work
                                continue
                            rep = inl.stmt_inline(fi, s)
                            if rep is not None:
                                changed = True
                                new.extend(rep)
                            else:
                                new.append(s)
                        setattr(node, fld, new)
                return super().generic_visit(node)

            def visit_Call(self, node):
                self.generic_visit(node)
                rep = inl.expr_inline(fi, node)
                if rep is not None:
                    nonlocal changed
                    changed = True
                    return rep
                return node
        T().visit(fi.node)
        if changed:
            ast.fix_missing_locations(fi.node)
        return changed


def inline_new_helpers(model, reference: set) -> dict:
    """inline calls to helpers absent from the reference inventory into the reference functions (fixpoint, depth 4)"""
    inl = Inliner(model, reference)
    new_helpers = [f for f in model.all_functions(include_inlined=True) if inl.is_new(f)]
    if not new_helpers:
        return {"new_helpers": [], "inlined": {}}
    for _ in range(4):
        any_change = False
        # helpers first, so that a helper calling another new helper is expanded before it is pasted
        for f in sorted(model.all_functions(include_inlined=True), key=lambda f: (not inl.is_new(f), f.where)):
            if inl.run_function(f):
                any_change = True
        if not any_change:
            break
    # inlined bodies bring their own temporaries: look through the ones that only carry a value to the next statement
    for f in model.all_functions(include_inlined=True):
        if not inl.is_new(f) and any(isinstance(n, ast.Name) and "__h" in n.id for n in ast.walk(f.node)):
            for _ in range(4):
                if not inline_adjacent_single_use(f.node):
                    break
    model._callgraph = None
    # a new helper that is no longer called from anywhere has been absorbed by its callers
    still_called = set()
    for f in model.all_functions(include_inlined=True):
        for c in ast.walk(f.node):
            if isinstance(c, ast.Call):
                try:
                    for h in model.resolve_call(f, c):
                        if h is not f:
                            still_called.add(h.where)
                except Exception:
                    pass
    absorbed = []
    for h in new_helpers:
        if h.where in inl.inlined_sites and h.where not in still_called:
            h.absorbed = True
            absorbed.append(h.where)
            # a nested helper that was absorbed leaves no 'def' behind in its parent (unless its name is still mentioned)
            if h.parent is not None and not any(isinstance(x, ast.Name) and x.id == h.name for x in ast.walk(h.parent.node)):
                for blk_owner in ast.walk(h.parent.node):
                    for fld in ("body", "orelse", "finalbody"):
                        b = getattr(blk_owner, fld, None)
                        if isinstance(b, list) and any(x is h.node for x in b):
                            b[:] = [x for x in b if x is not h.node] or [ast.copy_location(ast.Pass(), h.node)]
    return {"new_helpers": sorted(h.where for h in new_helpers), "inlined": dict(inl.inlined_sites), "absorbed": absorbed}


def inline_adjacent_single_use(fn: ast.FunctionDef) -> bool:
    """``v = <expr>`` directly followed by the only statement that reads ``v`` (in its header: the iterable of a ``for``, the
    test of an ``if`` / ``while`` / ``assert``, the value of an assignment / return / expression statement), ``v`` being stored
    once in the whole function and read once: the expression is put in place of ``v``.  The syntax-tree level counterpart
    of looking through single-definition locals, for the rules that walk statements"""
    stores: dict = {}
    loads: dict = {}
    # the variables of a comprehension are its own: occurrences under it of a name it binds are not the function's local
    skip: set = set()
    for c in ast.walk(fn):
        if isinstance(c, (ast.ListComp, ast.SetComp, ast.DictComp, ast.GeneratorExp)):
            bound = {t.id for g_ in c.generators for t in ast.walk(g_.target) if isinstance(t, ast.Name)}
            for x in ast.walk(c):
                if isinstance(x, ast.Name) and x.id in bound:
                    skip.add(id(x))
    for n in ast.walk(fn):
        if isinstance(n, ast.Name) and id(n) not in skip:
            (stores if isinstance(n.ctx, (ast.Store, ast.Del)) else loads).setdefault(n.id, []).append(n)
    params = {a.arg for a in fn.args.posonlyargs + fn.args.args + fn.args.kwonlyargs}
    changed = False

    def header(st):
        if isinstance(st, (ast.For, ast.AsyncFor)):
            return [st.iter]
        if isinstance(st, (ast.If, ast.While)):
            return [st.test]
        if isinstance(st, ast.Assert):
            return [st.test]
        if isinstance(st, (ast.Assign, ast.AnnAssign, ast.AugAssign, ast.Return, ast.Expr)):
            return [st.value] if getattr(st, "value", None) is not None else []
        return []

    def rec(node):
        nonlocal changed
        for fld in ("body", "orelse", "finalbody"):
            blk = getattr(node, fld, None)
            if not (isinstance(blk, list) and blk and isinstance(blk[0], ast.stmt)):
                continue
            k = 0
            while k + 1 < len(blk):
                st, nxt = blk[k], blk[k + 1]
                if isinstance(st, ast.AnnAssign) and st.value is not None and isinstance(st.target, ast.Name):
                    tgt, val = st.target, st.value
                elif isinstance(st, ast.Assign) and len(st.targets) == 1 and isinstance(st.targets[0], ast.Name):
                    tgt, val = st.targets[0], st.value
                else:
                    k += 1
                    continue
                v = tgt.id
                if v in params or len(stores.get(v, [])) != 1 or len(loads.get(v, [])) != 1 or isinstance(val, (ast.Lambda, ast.Yield, ast.Await)):
                    k += 1
                    continue
                use = loads[v][0]
                hs = header(nxt)
                in_header = any(x is use for h in hs for x in ast.walk(h))
                lazy = any(isinstance(x, (ast.Lambda, ast.ListComp, ast.SetComp, ast.DictComp, ast.GeneratorExp)) and any(y is use for y in ast.walk(x))
                           for h in hs for x in ast.walk(h))
                if isinstance(nxt, ast.While):
                    lazy = True          # the test of a while is evaluated again and again
                if not in_header or lazy:
                    k += 1
                    continue

                class R(ast.NodeTransformer):
                    def visit_Name(self, n_):
                        return copy.deepcopy(val) if n_ is use else n_
                for fld2 in ("iter", "test", "value"):
                    h = getattr(nxt, fld2, None)
                    if isinstance(h, ast.AST) and any(x is use for x in ast.walk(h)):
                        setattr(nxt, fld2, R().visit(h))
                del blk[k]
                changed = True
                stores.pop(v, None)
        for ch in ast.iter_child_nodes(node):
            if isinstance(ch, (ast.FunctionDef, ast.AsyncFunctionDef, ast.ClassDef, ast.Lambda)) and ch is not fn:
                continue
            rec(ch)
    rec(fn)
    if changed:
        ast.fix_missing_locations(fn)
    return changed


# ---------------------------------------------------------------------------------------------------- webs of a re-used local
def _stmt_blocks(st: ast.stmt) -> list:
    out = []
    for fld in ("body", "orelse", "finalbody"):
        b = getattr(st, fld, None)
        if isinstance(b, list) and b and isinstance(b[0], ast.stmt):
            out.append(b)
    for h in getattr(st, "handlers", []) or []:
        out.append(h.body)
    for c in getattr(st, "cases", []) or []:
        out.append(c.body)
    return out


def split_webs(fn: ast.FunctionDef) -> int:
    """A local that is re-used for unrelated values -- every binding a plain ``name = value`` statement, every read in the
    statements that follow a binding in the same block and come before the next one -- is one local per binding (``box = ...``
    in two loops becomes ``box`` and ``box__w2``).  Nothing is moved; only names change, and each of the new locals has a single
    definition.  Returns the number of locals that were split."""
    if not isinstance(fn, (ast.FunctionDef, ast.AsyncFunctionDef)):
        return 0
    params = {a.arg for a in fn.args.posonlyargs + fn.args.args + fn.args.kwonlyargs}
    if fn.args.vararg:
        params.add(fn.args.vararg.arg)
    if fn.args.kwarg:
        params.add(fn.args.kwarg.arg)
    banned = set(params)
    plain: dict = {}           # name -> number of plain bindings
    for n in ast.walk(fn):
        if isinstance(n, (ast.Global, ast.Nonlocal)):
            banned.update(n.names)
        elif isinstance(n, (ast.FunctionDef, ast.AsyncFunctionDef, ast.Lambda, ast.ClassDef)) and n is not fn:
            for x in ast.walk(n):
                if isinstance(x, ast.Name):
                    banned.add(x.id)         # captured (or shadowed) by an inner scope
            if not isinstance(n, ast.Lambda):
                banned.add(n.name)
        elif isinstance(n, (ast.Import, ast.ImportFrom)):
            for a in n.names:
                banned.add((a.asname or a.name).split(".")[0])
        elif isinstance(n, ast.ExceptHandler) and n.name:
            banned.add(n.name)
        elif isinstance(n, (ast.MatchAs, ast.MatchStar)) and getattr(n, "name", None):
            banned.add(n.name)
        elif isinstance(n, ast.MatchMapping) and n.rest:
            banned.add(n.rest)

    def plain_binding(st):
        if isinstance(st, ast.Assign) and len(st.targets) == 1 and isinstance(st.targets[0], ast.Name):
            return st.targets[0].id
        if isinstance(st, ast.AnnAssign) and st.value is not None and isinstance(st.target, ast.Name):
            return st.target.id
        return None
    plain_targets = set()
    for n in ast.walk(fn):
        if isinstance(n, ast.stmt):
            nm = plain_binding(n)
            if nm is not None:
                plain[nm] = plain.get(nm, 0) + 1
                plain_targets.add(id(n.targets[0] if isinstance(n, ast.Assign) else n.target))
    for n in ast.walk(fn):
        if isinstance(n, ast.Name) and isinstance(n.ctx, (ast.Store, ast.Del)) and id(n) not in plain_targets:
            banned.add(n.id)                 # bound by a loop, a tuple assignment, with, a comprehension, ...
        elif isinstance(n, ast.AnnAssign) and n.value is None and isinstance(n.target, ast.Name):
            banned.add(n.target.id)
    names = [nm for nm, k in plain.items() if k >= 2 and nm not in banned]
    if not names:
        return 0

    def loads(node, nm):
        return [x for x in ast.walk(node) if isinstance(x, ast.Name) and x.id == nm and isinstance(x.ctx, ast.Load)]

    def value_of(st):
        return st.value

    done = 0
    for nm in names:
        sites = []              # (block, index)

        def scan(block):
            for i, st in enumerate(block):
                if isinstance(st, (ast.FunctionDef, ast.AsyncFunctionDef, ast.ClassDef)):
                    continue
                if plain_binding(st) == nm:
                    sites.append((block, i))
                for b in _stmt_blocks(st):
                    scan(b)
        scan(fn.body)
        total = len(loads(fn, nm))
        covered = 0
        plan = []
        ok = True
        for block, i in sites:
            j = i + 1
            while j < len(block) and plain_binding(block[j]) != nm:
                j += 1
            region = block[i + 1:j]
            if any(plain_binding(x) == nm for st in region for x in ast.walk(st) if isinstance(x, ast.stmt)):
                ok = False              # re-bound conditionally / in a loop inside the region
                break
            n = sum(len(loads(st, nm)) for st in region) + (len(loads(value_of(block[j]), nm)) if j < len(block) else 0)
            covered += n
            plan.append((block, i, j))
        if not ok or covered != total:
            continue
        for k, (block, i, j) in enumerate(plan):
            if k == 0:
                continue
            new = f"{nm}__w{k + 1}"
            tgt = block[i].targets[0] if isinstance(block[i], ast.Assign) else block[i].target
            tgt.id = new
            for st in block[i + 1:j]:
                for x in loads(st, nm):
                    x.id = new
            if j < len(block):
                for x in loads(value_of(block[j]), nm):
                    x.id = new
        done += 1
    return done
