"""framelint -- repository-specific static analysis for jordicf/FRAME.

Nothing in this package imports or executes code under /repo.  Everything is
decided on the abstract syntax trees of the current working tree.
"""
