"""E5 -- effects: which parameters (incl. self) a function may mutate, with local alias tracking and
interprocedural summaries to a fixpoint over the resolved call graph.

A local is *derived* from a parameter when it is bound to the parameter, one of its attributes / elements, or an
element obtained by iterating it -- without an intervening copy (constructor call, literal, comprehension, slice).
Mutation = mutator-method call, attribute / subscript store, ``del`` or augmented assignment on a derived chain, or
passing a derived object to a callee that mutates the corresponding parameter.
"""
from __future__ import annotations

import ast
from dataclasses import dataclass, field
from typing import Optional

from .srcmodel import Model, FuncInfo, walk_own
from .canon import MUTATOR_METHODS

_ITER_WRAPPERS = {"enumerate", "reversed", "iter", "zip"}   # iterate the underlying objects
_ITER_ATTR_CALLS = {"values", "items"}                     # .values()/.items() hand out the stored objects


@dataclass
class Mutation:
    fi: FuncInfo
    node: ast.AST
    root: str          # parameter name the mutated object derives from
    how: str
    path: str = ""     # attribute path from the parameter, best effort
    fields: frozenset = frozenset()   # names of the attributes ultimately written ('<elements>' = the container itself)


class Effects:
    def __init__(self, model: Model):
        self.model = model
        self.summary: dict[FuncInfo, set[str]] = {}     # fi -> names of mutated parameters
        self.fields: dict[FuncInfo, dict[str, set[str]]] = {}   # fi -> param -> attribute names written
        self.details: dict[FuncInfo, list[Mutation]] = {}
        self._origins: dict[FuncInfo, dict[str, set[str]]] = {}
        self._call_cache: dict = {}
        funcs = list(model.all_functions())
        self._nodes: dict[FuncInfo, list] = {}
        self._callees_of: dict[FuncInfo, set] = {}
        for f in funcs:
            self.summary[f] = set()
            self.fields[f] = {}
            self.details[f] = []
            self._nodes[f] = list(walk_own(f.node))
            self._origins[f] = self._compute_origins(f)
        # worklist: a function is re-scanned only when the summary of one of its callees changed
        callers: dict[FuncInfo, set] = {}
        work = list(funcs)
        rounds = 0
        while work and rounds < 40:
            rounds += 1
            nxt: set = set()
            for f in work:
                before = (set(self.summary[f]), {k: set(v) for k, v in self.fields[f].items()})
                self._scan(f)
                for g in self._callees_of.get(f, ()):
                    callers.setdefault(g, set()).add(f)
                if (self.summary[f], self.fields[f]) != before:
                    nxt |= callers.get(f, set())
            work = [f for f in funcs if f in nxt]

    # ------------------------------------------------------------- origins
    def _root_params(self, f: FuncInfo, e: ast.AST, origins: dict[str, set[str]]) -> set[str]:
        """parameters the value of expression e may alias (without copy)"""
        if isinstance(e, ast.Name):
            return set(origins.get(e.id, set()))
        if isinstance(e, ast.Attribute):
            return self._root_params(f, e.value, origins)
        if isinstance(e, ast.Subscript):
            if isinstance(e.slice, ast.Slice):
                return set()      # a slice is a copy of the container (elements still shared, container not)
            return self._root_params(f, e.value, origins)
        if isinstance(e, ast.IfExp):
            return self._root_params(f, e.body, origins) | self._root_params(f, e.orelse, origins)
        if isinstance(e, ast.Call):
            fn = e.func
            if isinstance(fn, ast.Name) and fn.id in _ITER_WRAPPERS:
                out = set()
                for a in e.args:
                    out |= self._root_params(f, a, origins)
                return out
            if isinstance(fn, ast.Attribute) and fn.attr in _ITER_ATTR_CALLS:
                return self._root_params(f, fn.value, origins)
            if isinstance(fn, ast.Attribute) and fn.attr in ("pop", "popleft", "get", "heappop"):
                return self._root_params(f, fn.value, origins)
            return set()
        if isinstance(e, (ast.Tuple, ast.List)):
            return set()
        return set()

    def _compute_origins(self, f: FuncInfo) -> dict[str, set[str]]:
        origins: dict[str, set[str]] = {}
        a = f.node.args
        for x in a.posonlyargs + a.args + a.kwonlyargs:
            origins[x.arg] = {x.arg}
        if a.vararg:
            origins[a.vararg.arg] = {a.vararg.arg}
        if a.kwarg:
            origins[a.kwarg.arg] = {a.kwarg.arg}

        def bind(t: ast.AST, src: set[str]) -> bool:
            ch = False
            if isinstance(t, ast.Name):
                cur = origins.setdefault(t.id, set())
                if not src <= cur:
                    cur |= src
                    ch = True
            elif isinstance(t, (ast.Tuple, ast.List)):
                for el in t.elts:
                    ch |= bind(el, src)
            elif isinstance(t, ast.Starred):
                ch |= bind(t.value, src)
            return ch
        changed = True
        it = 0
        while changed and it < 10:
            changed = False
            it += 1
            for n in self._nodes[f]:
                if isinstance(n, ast.Assign):
                    src = self._root_params(f, n.value, origins)
                    if isinstance(n.value, (ast.Tuple, ast.List)) and len(n.targets) == 1 and isinstance(n.targets[0], (ast.Tuple, ast.List)) \
                            and len(n.targets[0].elts) == len(n.value.elts):
                        for t, v in zip(n.targets[0].elts, n.value.elts):
                            changed |= bind(t, self._root_params(f, v, origins))
                    else:
                        for t in n.targets:
                            changed |= bind(t, src)
                elif isinstance(n, ast.AnnAssign) and n.value is not None:
                    changed |= bind(n.target, self._root_params(f, n.value, origins))
                elif isinstance(n, (ast.For, ast.AsyncFor)):
                    changed |= bind(n.target, self._root_params(f, n.iter, origins))
                elif isinstance(n, ast.comprehension):
                    changed |= bind(n.target, self._root_params(f, n.iter, origins))
                elif isinstance(n, ast.NamedExpr):
                    changed |= bind(n.target, self._root_params(f, n.value, origins))
                elif isinstance(n, (ast.With, ast.AsyncWith)):
                    for i in n.items:
                        if i.optional_vars is not None:
                            changed |= bind(i.optional_vars, self._root_params(f, i.context_expr, origins))
        return origins

    def _local_types(self, f: FuncInfo) -> dict[str, str]:
        """parameter / loop-variable -> class name, from annotations (``x: Module``, ``xs: list[Module]``)"""
        cache = getattr(self, "_lt_cache", None)
        if cache is None:
            cache = self._lt_cache = {}
        if f in cache:
            return cache[f]
        out: dict[str, str] = {}
        elem: dict[str, str] = {}
        a = f.node.args
        for x in a.posonlyargs + a.args + a.kwonlyargs:
            ann = x.annotation
            if ann is None:
                continue
            if isinstance(ann, ast.Constant) and isinstance(ann.value, str):
                out[x.arg] = ann.value.strip("'\"")
            elif isinstance(ann, ast.Name):
                out[x.arg] = ann.id
            elif isinstance(ann, ast.Subscript) and isinstance(ann.value, ast.Name) and ann.value.id in ("list", "List", "Sequence", "Iterable", "set", "deque"):
                el = ann.slice
                if isinstance(el, ast.Name):
                    elem[x.arg] = el.id
                elif isinstance(el, ast.Constant) and isinstance(el.value, str):
                    elem[x.arg] = el.value
        for n in walk_own(f.node):
            if isinstance(n, (ast.For, ast.comprehension)) and isinstance(n.target, ast.Name) and isinstance(n.iter, ast.Name) \
                    and n.iter.id in elem:
                out[n.target.id] = elem[n.iter.id]
        cache[f] = out
        return out

    # ---------------------------------------------------------------- scan
    @staticmethod
    def _path(e: ast.AST) -> str:
        try:
            return ast.unparse(e)
        except Exception:
            return "?"

    def _scan(self, f: FuncInfo) -> None:
        origins = self._origins[f]
        muts: list[Mutation] = []

        def last_attr(t: ast.AST) -> str:
            while isinstance(t, ast.Subscript):
                t = t.value
            return t.attr if isinstance(t, ast.Attribute) else "<elements>"

        def mark(node: ast.AST, target: ast.AST, how: str, fields=None) -> None:
            for p in self._root_params(f, target, origins):
                muts.append(Mutation(f, node, p, how, self._path(target), frozenset(fields if fields is not None else {last_attr(target)})))
        callees_seen: set = set()
        for n in self._nodes[f]:
            if isinstance(n, (ast.Attribute, ast.Subscript)) and isinstance(n.ctx, (ast.Store, ast.Del)):
                mark(n, n.value, "store " + self._path(n), {n.attr} if isinstance(n, ast.Attribute) else {last_attr(n.value)})
            elif isinstance(n, ast.AugAssign) and isinstance(n.target, (ast.Attribute, ast.Subscript)):
                mark(n, n.target.value, "augmented store " + self._path(n.target),
                     {n.target.attr} if isinstance(n.target, ast.Attribute) else {last_attr(n.target.value)})
            elif isinstance(n, ast.AugAssign) and isinstance(n.target, ast.Name) and isinstance(n.op, (ast.Add, ast.BitOr, ast.Mult)):
                # x += [...] on a list alias mutates in place; on numbers/immutables it rebinds -- only flag containers we know
                pass
            elif isinstance(n, ast.Call):
                fn = n.func
                if isinstance(fn, ast.Attribute) and fn.attr in MUTATOR_METHODS:
                    mark(n, fn.value, f"{fn.attr}() on {self._path(fn.value)}")
                if isinstance(fn, ast.Attribute) and isinstance(fn.value, ast.Name) and fn.value.id == "heapq" and n.args:
                    mark(n, n.args[0], f"heapq.{fn.attr}")
                # interprocedural
                key = id(n)
                cache = self._call_cache.setdefault(f, {})
                if key not in cache:
                    cache[key] = self.model.resolve_call(f, n, self._local_types(f))
                callees = cache[key]
                callees_seen.update(callees)
                if len(callees) == 1:
                    g = callees[0]
                    gparams = [x.arg for x in g.node.args.posonlyargs + g.node.args.args]
                    mutated = self.summary.get(g, set())
                    if not mutated:
                        continue
                    args = list(n.args)
                    offset = 0
                    if g.kind in ("method", "property", "setter") and isinstance(fn, ast.Attribute) and not \
                            (isinstance(fn.value, ast.Name) and self.model.resolve_name(f.module, fn.value.id) is not None
                             and fn.value.id not in origins):
                        # bound call: receiver is parameter 0
                        if gparams and gparams[0] in mutated:
                            mark(n, fn.value, f"call of {g.qualname} (mutates its receiver)", self.fields[g].get(gparams[0], set()))
                        offset = 1
                    elif g.name == "__init__" and g.kind == "method":
                        offset = 1
                    for i, a in enumerate(args):
                        if isinstance(a, ast.Starred):
                            continue
                        if i + offset < len(gparams) and gparams[i + offset] in mutated:
                            mark(n, a, f"passed to {g.qualname} (mutates parameter {gparams[i + offset]})",
                                 self.fields[g].get(gparams[i + offset], set()))
                    for kw in n.keywords:
                        if kw.arg and kw.arg in mutated:
                            mark(n, kw.value, f"passed to {g.qualname} (mutates parameter {kw.arg})", self.fields[g].get(kw.arg, set()))
        self._callees_of[f] = callees_seen
        self.details[f] = muts
        self.summary[f] = {m.root for m in muts}
        fl: dict[str, set[str]] = {}
        for m in muts:
            fl.setdefault(m.root, set()).update(m.fields)
        self.fields[f] = fl

    # ---------------------------------------------------------------- query
    def mutations(self, f: FuncInfo, root: Optional[str] = None) -> list[Mutation]:
        ms = self.details.get(f, [])
        return [m for m in ms if root is None or m.root == root]
