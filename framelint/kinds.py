"""E4 (index flavour) -- INDEX-OF typing on canonical forms.

Every integer index gets a *kind* (e.g. 'X' = column index / index into the x
boundary list, 'Y' = row index) from where it comes from (the ``range`` it
iterates, the record field it is read from) and every use of an index (a
subscript of a known container, an argument of a known callee / constructor)
demands a kind.  A use whose demanded kind differs from the inferred kind is a
mix-up of axes (or of two different lists).  Unknown kinds are never guessed.
"""
from __future__ import annotations

from dataclasses import dataclass, field
from typing import Optional

from .canon import S, to_poly, show, is_num


@dataclass
class IndexSpec:
    # container S -> kind of its (first) subscript; for 2-level containers give a tuple (outer, inner)
    containers: dict = field(default_factory=dict)
    # attribute name -> kind (record fields holding indices), independent of the receiver
    attrs: dict = field(default_factory=dict)
    # constructor / callee name (as ('g', name) or method attr name) -> list of kinds per positional argument (None = any)
    calls: dict = field(default_factory=dict)
    # parameter index -> kind, for the function being typed
    params: dict = field(default_factory=dict)
    # (parent attribute, attribute) -> kind, e.g. ('columns', 'low') -> 'COL'
    attr_paths: dict = field(default_factory=dict)


@dataclass
class Mismatch:
    use: str
    expr: S
    want: str
    got: str


class IndexTyper:
    def __init__(self, spec: IndexSpec):
        self.spec = spec
        self.env: dict[S, str] = {}
        self.mismatches: list[Mismatch] = []
        self.checked = 0
        self.unknown = 0

    # ---- kinds of expressions
    def kind(self, e: S) -> Optional[str]:
        if not isinstance(e, tuple) or not e:
            return None
        if is_num(e):
            return "const"
        if e[0] == "poly":
            p = to_poly(e)
            atoms = [(m, c) for m, c in p.t.items() if m != ()]
            if len(atoms) == 1 and atoms[0][1] == 1 and len(atoms[0][0]) == 1 and atoms[0][0][0][1] == 1:
                return self.kind(atoms[0][0][0][0])
            return None
        if e in self.env:
            return self.env[e]
        if e[0] == "p" and e[1] in self.spec.params:
            return self.spec.params[e[1]]
        if e[0] == "a" and len(e) == 3 and isinstance(e[1], tuple) and len(e[1]) == 3 and e[1][0] == "a" \
                and (e[1][2], e[2]) in self.spec.attr_paths:
            return self.spec.attr_paths[(e[1][2], e[2])]
        if e[0] == "a" and len(e) == 3 and e[2] in self.spec.attrs:
            return self.spec.attrs[e[2]]
        if e[0] == "c" and e[1] == ("g", "len") and len(e[2]) == 1:
            return self.container_kind(e[2][0])
        if e[0] == "c" and e[1] in (("g", "min"), ("g", "max")):
            ks = {self.kind(a) for a in e[2]} - {"const", None}
            return ks.pop() if len(ks) == 1 else None
        return None

    def container_kind(self, c: S) -> Optional[str]:
        """kind of the index that subscripts container c"""
        if c in self.spec.containers:
            k = self.spec.containers[c]
            return k[0] if isinstance(k, tuple) else k
        if isinstance(c, tuple) and c and c[0] == "s" and c[1] in self.spec.containers:
            k = self.spec.containers[c[1]]
            if isinstance(k, tuple):
                return k[1]
        return None

    def range_kind(self, it: S) -> Optional[str]:
        if isinstance(it, tuple) and it and it[0] == "c" and it[1] == ("g", "range") and 1 <= len(it[2]) <= 3:
            ks = {self.kind(a) for a in it[2][:2]} - {"const", None}
            if len(ks) == 1:
                return ks.pop()
            if len(ks) > 1:
                self.mismatches.append(Mismatch("range bounds", it, "one kind", "/".join(sorted(ks))))
        return None

    # ---- walking
    def demand(self, use: str, e: S, want: str) -> None:
        got = self.kind(e)
        self.checked += 1
        if got is None:
            self.unknown += 1
            return
        if got != "const" and got != want:
            self.mismatches.append(Mismatch(use, e, want, got))

    def walk(self, s: S) -> None:
        if not isinstance(s, tuple) or not s:
            return
        tag = s[0]
        if tag == "for" and len(s) == 5:
            self.walk(s[2])
            k = self.range_kind(s[2])
            if k and isinstance(s[1], tuple) and s[1] and s[1][0] in ("v", "u"):
                self.env[s[1]] = k
            for st in s[3]:
                self.walk(st)
            for st in s[4]:
                self.walk(st)
            return
        if tag == "comp":
            for tgt, it, cond in s[3]:
                self.walk(it)
                k = self.range_kind(it)
                if k and isinstance(tgt, tuple) and tgt and tgt[0] == "b":
                    self.env[tgt] = k
                self.walk(cond)
            for b in s[2]:
                self.walk(b)
            return
        if tag == "set" and len(s) == 3 and isinstance(s[1], tuple) and s[1] and s[1][0] == "v":
            self.walk(s[2])
            k = self.kind(s[2])
            if k and k != "const":
                self.env[s[1]] = k
            return
        if tag == "s":
            base, idx = s[1], s[2]
            want = self.container_kind(base)
            if want is not None and not (isinstance(idx, tuple) and idx and idx[0] == "slice"):
                self.demand(f"{show(base)}[...]", idx, want)
        if tag == "c":
            fn = s[1]
            key = None
            if fn in self.spec.calls:
                key = fn
            elif isinstance(fn, tuple) and fn and fn[0] == "a" and fn[2] in self.spec.calls:
                key = fn[2]
            if key is not None:
                for a, want in zip(s[2], self.spec.calls[key]):
                    if want is not None:
                        self.demand(f"{show(fn)}(...)", a, want)
        for x in s:
            if isinstance(x, tuple):
                self.walk(x)
