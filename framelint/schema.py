"""E6 -- schema extraction for exchange documents (readers and producers).

* ``dict_stores``      -- ``d[key] = value`` statements of a canonical block with the branch conditions they sit under
* ``template_keys``    -- keys a string-building producer can emit (``"hard: true"`` ...)
* ``attr_reads``       -- attribute names read from a given root in a function (through aliases)
"""
from __future__ import annotations

import ast
import re
from typing import Optional

from .canon import S, mk_not, atoms_of, contains
from .srcmodel import FuncInfo, walk_own


def dict_stores(block: tuple, target: Optional[S] = None) -> list[tuple[S, S, tuple]]:
    """[(key, value, conditions)] for every ``target[key] = value`` (any subscript store if target is None)."""
    out: list[tuple[S, S, tuple]] = []

    def walk(stmts: tuple, conds: tuple) -> None:
        for st in stmts:
            tag = st[0]
            if tag == "set" and len(st) == 3 and isinstance(st[1], tuple) and st[1] and st[1][0] == "s":
                if target is None or st[1][1] == target:
                    # a conditional value is one store per alternative, each under its own condition
                    def split(v, cs):
                        if isinstance(v, tuple) and v[:1] == ("ite",) and len(v) == 4:
                            split(v[2], cs + (v[1],))
                            split(v[3], cs + (mk_not(v[1]),))
                        else:
                            out.append((st[1][2], v, cs))
                    split(st[2], conds)
            elif tag == "if":
                walk(st[2], conds + (st[1],))
                walk(st[3], conds + (mk_not(st[1]),))
            elif tag == "for" and len(st) == 5:
                walk(st[3], conds + (("in-loop", st[1], st[2]),))
                walk(st[4], conds)
            elif tag == "while":
                walk(st[2], conds + (("in-while", st[1]),))
            elif tag == "with":
                walk(st[2], conds)
            elif tag == "try":
                walk(st[1], conds)
    walk(block, ())
    return out


_KEY_RE = re.compile(r"([A-Za-z_][A-Za-z_0-9]*)\s*:")


def template_keys(fi: FuncInfo) -> dict[str, list[str]]:
    """keys appearing as ``word:`` inside string literals of a function -> the literals they occur in"""
    out: dict[str, list[str]] = {}
    for n in walk_own(fi.node):
        if isinstance(n, ast.Constant) and isinstance(n.value, str):
            for m in _KEY_RE.finditer(n.value):
                out.setdefault(m.group(1), []).append(n.value)
    return out


def attr_reads(fi: FuncInfo, root: str) -> set[str]:
    """attribute names read (Load) directly on the local/parameter ``root`` in ``fi`` (first level only)"""
    out = set()
    for n in walk_own(fi.node):
        if isinstance(n, ast.Attribute) and isinstance(n.value, ast.Name) and n.value.id == root and isinstance(n.ctx, ast.Load):
            out.add(n.attr)
    return out


def attr_reads_on_iter(fi: FuncInfo, coll_attr: str) -> set[str]:
    """attribute names read on variables that iterate ``<x>.<coll_attr>`` or a parameter named coll_attr"""
    vars_: set[str] = set()
    for n in walk_own(fi.node):
        if isinstance(n, (ast.For, ast.comprehension)):
            it = n.iter
            ok = (isinstance(it, ast.Attribute) and it.attr == coll_attr) or (isinstance(it, ast.Name) and it.id == coll_attr)
            if ok and isinstance(n.target, ast.Name):
                vars_.add(n.target.id)
    out = set()
    for v in vars_:
        out |= attr_reads(fi, v)
    return out
