"""Symbolic summaries of straight-line code with accumulating / collecting loops.

``returned_value(block)`` reads a canonical block that consists of plain assignments, augmented assignments to
locals, assertions, loops whose bodies only accumulate (``acc += f(x)``, optionally under a test) or collect
(``lst.append(g(x))``), and a final ``return``: it gives the returned value as ONE expression in which every
accumulator is ``init + sum(f(x) for x in it)`` and every collected list is the comprehension ``[g(x) for x in it]``;
a loop over such a comprehension is read as the loop over its source.  The result does not depend on how the
computation is cut into statements, locals and loops (one loop or two, in-place division or a new local, a helper
list of intermediate values).  ``None`` when the block has anything else in it."""
from __future__ import annotations

from typing import Optional

from .canon import S, Sigma, to_poly, Poly, K_TRUE, K_NONE, mk_and, contains, atoms_of, _free_bound
from .peval import fold

B0 = ("b", 1, 0)


def _is_var(x) -> bool:
    return isinstance(x, tuple) and len(x) == 2 and x[0] == "v"


def _sum_of(elt: S, it: S, cond: S) -> S:
    return ("c", ("g", "sum"), (("comp", "gen", (elt,), ((B0, it, cond),)),), ())


def _list_of(elt: S, it: S, cond: S) -> S:
    return ("comp", "list", (elt,), ((B0, it, cond),))


def _simple_list(x) -> bool:
    return isinstance(x, tuple) and len(x) == 4 and x[:2] == ("comp", "list") and len(x[3]) == 1 and len(x[2]) == 1 \
        and x[3][0][0] == B0 and not _free_bound(x)


def _len_rule(x: S) -> S:
    """len([g(x) for x in it]) == len(it)"""
    if isinstance(x, tuple):
        if x[:2] == ("c", ("g", "len")) and len(x[2]) == 1 and _simple_list(x[2][0]) and x[2][0][3][0][2] == K_TRUE:
            return ("c", ("g", "len"), (_len_rule(x[2][0][3][0][1]),), ())
        return tuple(_len_rule(y) for y in x)
    return x


def returned_value(block: tuple, env: Optional[dict] = None) -> Optional[S]:
    env = dict(env or {})

    def ev(x: S) -> S:
        y = Sigma(raw_subst=env).apply(x) if env else x
        return Sigma(raw_subst={}).apply(_len_rule(fold(y)))

    def binop(op: str, a: S, b: S) -> Optional[S]:
        pa, pb = to_poly(a), to_poly(b)
        if op == "Add":
            return (pa + pb).to_s()
        if op == "Sub":
            return (pa - pb).to_s()
        if op == "Mult":
            return (pa * pb).to_s()
        if op == "Div":
            return (pa * to_poly(("inv", b))).to_s()
        return None

    for st in block:
        if not (isinstance(st, tuple) and st):
            return None
        tag = st[0]
        if tag == "assert":
            continue
        if tag == "set" and len(st) == 3 and _is_var(st[1]):
            env[st[1]] = ev(st[2])
            continue
        if tag == "aug" and len(st) == 4 and _is_var(st[2]) and st[2] in env:
            r = binop(st[1], env[st[2]], ev(st[3]))
            if r is None:
                return None
            env[st[2]] = Sigma(raw_subst={}).apply(r)
            continue
        if tag == "ret":
            return ev(st[1])
        if tag == "for" and len(st) == 5 and not st[4] and _is_var(st[1]):
            it = ev(st[2])
            var = st[1]
            # a loop over a collected list is the loop over its source
            src, elem_of, cond0 = it, B0, K_TRUE
            if _simple_list(it):
                src, elem_of, cond0 = it[3][0][1], it[2][0], it[3][0][2]
            updates = []
            ok = True

            def body(stmts, cond):
                nonlocal ok
                for b in stmts:
                    if b[0] == "assert":
                        continue
                    if b[0] == "if" and len(b) == 4:
                        body(b[2], mk_and([cond, b[1]]))
                        body(b[3], mk_and([cond, ("not", b[1])]) if b[3] else cond)
                    elif b[0] == "aug" and len(b) == 4 and b[1] == "Add" and _is_var(b[2]) and b[2] in env:
                        updates.append(("sum", b[2], b[3], cond))
                    elif b[0] == "expr" and b[1][0] == "c" and b[1][1][0] == "a" and b[1][1][2] == "append" and _is_var(b[1][1][1]) \
                            and env.get(b[1][1][1]) == ("list", ()) and len(b[1][2]) == 1:
                        updates.append(("list", b[1][1][1], b[1][2][0], cond))
                    elif b[0] == "set" and len(b) == 3 and _is_var(b[1]) and b[1] not in env:
                        # a local of the iteration: looked through
                        local[b[1]] = Sigma(raw_subst=local).apply(b[2]) if local else b[2]
                    else:
                        ok = False
            local: dict = {}
            body(st[3], K_TRUE)
            targets = [u[1] for u in updates]
            if not ok or len(set(targets)) != len(targets):
                return None
            for kind, tgt, e, cond in updates:
                e = Sigma(raw_subst=local).apply(e) if local else e
                cond = Sigma(raw_subst=local).apply(cond) if local else cond
                if any(contains(e, t) or contains(cond, t) for t in targets):
                    return None
                # the element / the test in terms of the bound variable of the source
                sg = Sigma(raw_subst={**env, var: elem_of})
                elt, cnd = sg.apply(e), mk_and([cond0, sg.apply(cond)])
                if kind == "sum":
                    env[tgt] = Sigma(raw_subst={}).apply((to_poly(env[tgt]) + to_poly(_sum_of(elt, src, cnd))).to_s())
                else:
                    env[tgt] = _list_of(elt, src, cnd)
            env.pop(var, None)
            continue
        return None
    return K_NONE
