"""Self-validation of the checker (thorough tier), entirely in memory.

* must fire   -- semantic mutation operators applied inside the functions a property's rules examine; the variant is
                 analysed through ``Model(overrides=...)``; a mutant is *killed* when the property's rules report a new
                 finding (or the analysis refuses to run: counted separately).  Survivors are reported, not hidden.
* must be silent -- behaviour-preserving refactoring transforms applied to the same functions; any new finding or
                 analysis error on such a variant is a defect of the checker (SELFTEST-FAIL, exit 2).

Nothing is written to disk and nothing under /repo is executed.
"""
from __future__ import annotations

import ast
import copy
import os
import random
import time
from concurrent.futures import ProcessPoolExecutor
from typing import Optional

from . import core
from .srcmodel import Model, AnalysisError

MAX_MUTANTS = int(os.environ.get("FRAME_SELFTEST_MAX", "320"))
WORKERS = int(os.environ.get("FRAME_SELFTEST_WORKERS", "16"))

_ATTR_SWAP = {"x": "y", "y": "x", "w": "h", "h": "w", "ll": "ur", "ur": "ll", "low": "high", "high": "low", "rows": "columns",
              "columns": "rows", "min_wh": "max_wh", "max_wh": "min_wh", "width": "height", "height": "width",
              "is_fixed": "is_hard", "cmin": "rmin", "rmin": "cmin", "cmax": "rmax", "rmax": "cmax"}
_CMP_SWAP = {ast.Lt: [ast.LtE, ast.Gt], ast.LtE: [ast.Lt, ast.GtE], ast.Gt: [ast.GtE, ast.Lt], ast.GtE: [ast.Gt, ast.LtE],
             ast.Eq: [ast.NotEq], ast.NotEq: [ast.Eq], ast.Is: [ast.IsNot], ast.IsNot: [ast.Is], ast.In: [ast.NotIn], ast.NotIn: [ast.In]}
_BIN_SWAP = {ast.Add: ast.Sub, ast.Sub: ast.Add, ast.Mult: ast.Div, ast.Div: ast.Mult}
_CALL_SWAP = {"min": "max", "max": "min", "any": "all", "all": "any", "append": "appendleft", "split_horizontal": "split_vertical",
              "split_vertical": "split_horizontal", "x_cuttable": "y_cuttable", "y_cuttable": "x_cuttable"}


# ------------------------------------------------------------------ enumeration of mutation sites
def _func_node(tree: ast.Module, qualname: str) -> Optional[ast.AST]:
    parts = [p for p in qualname.replace(".setter", "").split(".") if p != "<locals>"]
    parts = [p.split("#")[0] for p in parts]
    cur: ast.AST = tree
    for p in parts:
        nxt = None
        for n in ast.walk(cur):
            if n is cur:
                continue
            if isinstance(n, (ast.FunctionDef, ast.AsyncFunctionDef, ast.ClassDef)) and n.name == p:
                nxt = n
                break
        if nxt is None:
            return None
        cur = nxt
    return cur if isinstance(cur, (ast.FunctionDef, ast.AsyncFunctionDef)) else None


def _sites(fn: ast.AST) -> list[tuple[str, int, int]]:
    """(operator, node index in ast.walk order, variant) for every applicable mutation in a function"""
    out = []
    for i, n in enumerate(ast.walk(fn)):
        if isinstance(n, ast.Compare) and len(n.ops) >= 1:
            for k, op in enumerate(n.ops):
                for v, _ in enumerate(_CMP_SWAP.get(type(op), [])):
                    out.append(("cmp", i, k * 4 + v))
        elif isinstance(n, ast.BoolOp):
            out.append(("boolop", i, 0))
            if len(n.values) >= 2:
                out.append(("drop-conjunct", i, 0))
                out.append(("drop-conjunct", i, 1))
        elif isinstance(n, ast.Attribute) and n.attr in _ATTR_SWAP:
            out.append(("attr", i, 0))
        elif isinstance(n, ast.Call):
            nm = n.func.id if isinstance(n.func, ast.Name) else (n.func.attr if isinstance(n.func, ast.Attribute) else "")
            if nm in _CALL_SWAP:
                out.append(("callname", i, 0))
            if len(n.args) == 2 and not n.keywords and nm not in ("isinstance", "getattr", "range"):
                out.append(("argswap", i, 0))
            if nm == "range" and n.args:
                for k in range(len(n.args)):
                    out.append(("range+1", i, k))
                    out.append(("range-1", i, k))
            if n.keywords:
                for k in range(len(n.keywords)):
                    out.append(("drop-kwarg", i, k))
        elif isinstance(n, ast.BinOp) and type(n.op) in _BIN_SWAP:
            out.append(("binop", i, 0))
        elif isinstance(n, ast.UnaryOp) and isinstance(n.op, ast.Not):
            out.append(("drop-not", i, 0))
        elif isinstance(n, ast.UnaryOp) and isinstance(n.op, ast.USub):
            out.append(("drop-neg", i, 0))
        elif isinstance(n, ast.Constant) and isinstance(n.value, bool):
            out.append(("bool", i, 0))
        elif isinstance(n, ast.Constant) and isinstance(n.value, int) and not isinstance(n.value, bool) and 0 <= n.value <= 5:
            out.append(("int+1", i, 0))
        elif isinstance(n, ast.Subscript) and isinstance(n.slice, ast.Constant) and isinstance(n.slice.value, int):
            pass   # covered by int+1
        elif isinstance(n, ast.Assert):
            out.append(("drop-assert", i, 0))
        elif isinstance(n, ast.Expr) and isinstance(n.value, ast.Call):
            out.append(("drop-call-stmt", i, 0))
        elif isinstance(n, ast.If) and not n.orelse:
            out.append(("unguard", i, 0))
        elif isinstance(n, ast.AugAssign) and type(n.op) in (ast.Add, ast.Sub):
            out.append(("augop", i, 0))
        elif isinstance(n, ast.IfExp):
            out.append(("ifexp-swap", i, 0))
        elif isinstance(n, (ast.Break, ast.Continue)):
            out.append(("drop-jump", i, 0))
    return out


def _apply(fn: ast.AST, op: str, idx: int, variant: int) -> bool:
    """mutate fn in place; returns False if the mutation is not applicable after all"""
    nodes = list(ast.walk(fn))
    if idx >= len(nodes):
        return False
    n = nodes[idx]
    parent_of = {}
    for p in nodes:
        for c in ast.iter_child_nodes(p):
            parent_of[id(c)] = p

    def replace_stmt(old: ast.stmt, new: list[ast.stmt]) -> bool:
        p = parent_of.get(id(old))
        if p is None:
            return False
        for fld in ("body", "orelse", "finalbody"):
            blk = getattr(p, fld, None)
            if isinstance(blk, list) and any(x is old for x in blk):
                i = [k for k, x in enumerate(blk) if x is old][0]
                blk[i:i + 1] = new if new else [ast.Pass()]
                return True
        return False
    if op == "cmp":
        k, v = divmod(variant, 4)
        n.ops[k] = _CMP_SWAP[type(n.ops[k])][v]()
    elif op == "boolop":
        n.op = ast.Or() if isinstance(n.op, ast.And) else ast.And()
    elif op == "drop-conjunct":
        del n.values[0 if variant == 0 else -1]
        if len(n.values) == 1:
            # BoolOp with one value is invalid: replace in parent by the value
            val = n.values[0]
            n.values = [val, copy.deepcopy(val)]
    elif op == "attr":
        n.attr = _ATTR_SWAP[n.attr]
    elif op == "callname":
        if isinstance(n.func, ast.Name):
            n.func.id = _CALL_SWAP[n.func.id]
        else:
            n.func.attr = _CALL_SWAP[n.func.attr]
    elif op == "argswap":
        n.args = [n.args[1], n.args[0]]
    elif op in ("range+1", "range-1"):
        d = 1 if op == "range+1" else -1
        n.args[variant] = ast.BinOp(left=n.args[variant], op=ast.Add(), right=ast.Constant(value=d))
    elif op == "drop-kwarg":
        del n.keywords[variant]
    elif op == "binop":
        n.op = _BIN_SWAP[type(n.op)]()
    elif op in ("drop-not", "drop-neg"):
        p = parent_of.get(id(n))
        if p is None:
            return False
        for fld, val in ast.iter_fields(p):
            if val is n:
                setattr(p, fld, n.operand)
                return True
            if isinstance(val, list):
                for k, x in enumerate(val):
                    if x is n:
                        val[k] = n.operand
                        return True
        return False
    elif op == "bool":
        n.value = not n.value
    elif op == "int+1":
        n.value = n.value + 1
    elif op == "drop-assert":
        return replace_stmt(n, [])
    elif op == "drop-call-stmt":
        return replace_stmt(n, [])
    elif op == "unguard":
        return replace_stmt(n, list(n.body))
    elif op == "augop":
        n.op = ast.Sub() if isinstance(n.op, ast.Add) else ast.Add()
    elif op == "ifexp-swap":
        n.body, n.orelse = n.orelse, n.body
    elif op == "drop-jump":
        return replace_stmt(n, [])
    else:
        return False
    return True


# ------------------------------------------------------------------ behaviour-preserving transforms
class _RenameLocals(ast.NodeTransformer):
    def __init__(self, fn: ast.FunctionDef):
        params = {a.arg for a in fn.args.posonlyargs + fn.args.args + fn.args.kwonlyargs}
        if fn.args.vararg:
            params.add(fn.args.vararg.arg)
        if fn.args.kwarg:
            params.add(fn.args.kwarg.arg)
        stores = set()

        def own_scope(n):
            for ch in ast.iter_child_nodes(n):
                if isinstance(ch, (ast.FunctionDef, ast.AsyncFunctionDef, ast.Lambda, ast.ClassDef)):
                    continue
                yield ch
                yield from own_scope(ch)
        for n in own_scope(fn):
            if isinstance(n, ast.Name) and isinstance(n.ctx, ast.Store):
                stores.add(n.id)
            if isinstance(n, (ast.Global, ast.Nonlocal)):
                params |= set(n.names)
        self.names = {s for s in stores if s not in params and not s.startswith("__")}
        self.fn = fn
        self.shadow: list = []

    def visit_Name(self, node: ast.Name):
        if node.id in self.names and not any(node.id in sh for sh in self.shadow):
            node.id = node.id + "_rn"
        return node

    @staticmethod
    def _own_names(node) -> set:
        a = node.args
        own = {x.arg for x in a.posonlyargs + a.args + a.kwonlyargs}
        if a.vararg:
            own.add(a.vararg.arg)
        if a.kwarg:
            own.add(a.kwarg.arg)
        if not isinstance(node, ast.Lambda):
            nonlocal_ = set()
            for n in ast.walk(node):
                if isinstance(n, (ast.Global, ast.Nonlocal)):
                    nonlocal_ |= set(n.names)
            for n in ast.walk(node):
                if isinstance(n, ast.Name) and isinstance(n.ctx, ast.Store) and n.id not in nonlocal_:
                    own.add(n.id)
        return own

    def _scoped(self, node):
        # a closure reads the renamed locals of its definer, unless it shadows them
        self.shadow.append(self._own_names(node))
        self.generic_visit(node)
        self.shadow.pop()
        return node

    def visit_FunctionDef(self, node):
        if node is self.fn:
            self.generic_visit(node)
            return node
        return self._scoped(node)

    def visit_Lambda(self, node):
        return self._scoped(node)

    def visit_ClassDef(self, node):
        self.shadow.append({n.id for n in ast.walk(node) if isinstance(n, ast.Name) and isinstance(n.ctx, ast.Store)})
        self.generic_visit(node)
        self.shadow.pop()
        return node


def _t_rename(fn):
    _RenameLocals(fn).visit(fn)
    return True


def _t_reverse_compare(fn):
    rev = {ast.Lt: ast.Gt, ast.Gt: ast.Lt, ast.LtE: ast.GtE, ast.GtE: ast.LtE, ast.Eq: ast.Eq, ast.NotEq: ast.NotEq}
    done = False
    for n in ast.walk(fn):
        if isinstance(n, ast.Compare) and len(n.ops) == 1 and type(n.ops[0]) in rev:
            n.left, n.comparators[0] = n.comparators[0], n.left
            n.ops[0] = rev[type(n.ops[0])]()
            done = True
    return done


def _t_flip_if(fn):
    done = False
    for n in ast.walk(fn):
        if isinstance(n, ast.If) and n.orelse and not (len(n.orelse) == 1 and isinstance(n.orelse[0], ast.If)):
            n.test = ast.UnaryOp(op=ast.Not(), operand=n.test)
            n.body, n.orelse = n.orelse, n.body
            done = True
    return done


def _t_flip_ifexp(fn):
    done = False
    for n in ast.walk(fn):
        if isinstance(n, ast.IfExp):
            n.test = ast.UnaryOp(op=ast.Not(), operand=n.test)
            n.body, n.orelse = n.orelse, n.body
            done = True
    return done


def _t_demorgan(fn):
    done = False
    for n in ast.walk(fn):
        for fld, val in ast.iter_fields(n):
            items = val if isinstance(val, list) else [val]
            for k, x in enumerate(items):
                if isinstance(x, ast.BoolOp) and not isinstance(n, ast.BoolOp):
                    op = ast.Or() if isinstance(x.op, ast.And) else ast.And()
                    new = ast.UnaryOp(op=ast.Not(), operand=ast.BoolOp(op=op, values=[ast.UnaryOp(op=ast.Not(), operand=v) for v in x.values]))
                    if isinstance(val, list):
                        val[k] = new
                    else:
                        setattr(n, fld, new)
                    done = True
    return done


def _t_extract_return(fn):
    done = False
    for p in ast.walk(fn):
        for fld in ("body", "orelse", "finalbody"):
            blk = getattr(p, fld, None)
            if isinstance(blk, list):
                k = 0
                while k < len(blk):
                    st = blk[k]
                    if isinstance(st, ast.Return) and st.value is not None and not isinstance(st.value, (ast.Name, ast.Constant)) \
                            and not any(isinstance(x, (ast.Yield, ast.YieldFrom, ast.Await)) for x in ast.walk(st.value)):
                        blk[k:k + 1] = [ast.Assign(targets=[ast.Name(id="_extracted_ret", ctx=ast.Store())], value=st.value, lineno=st.lineno),
                                        ast.Return(value=ast.Name(id="_extracted_ret", ctx=ast.Load()))]
                        k += 1
                        done = True
                    k += 1
    return done


def _t_chain_split(fn):
    done = False
    for n in ast.walk(fn):
        for fld, val in ast.iter_fields(n):
            items = val if isinstance(val, list) else [val]
            for k, x in enumerate(items):
                if isinstance(x, ast.Compare) and len(x.ops) == 2:
                    a = ast.Compare(left=x.left, ops=[x.ops[0]], comparators=[x.comparators[0]])
                    b = ast.Compare(left=copy.deepcopy(x.comparators[0]), ops=[x.ops[1]], comparators=[x.comparators[1]])
                    new = ast.BoolOp(op=ast.And(), values=[a, b])
                    if isinstance(val, list):
                        val[k] = new
                    else:
                        setattr(n, fld, new)
                    done = True
    return done


def _t_range0(fn):
    done = False
    for n in ast.walk(fn):
        if isinstance(n, ast.Call) and isinstance(n.func, ast.Name) and n.func.id == "range":
            if len(n.args) == 1:
                n.args = [ast.Constant(value=0), n.args[0]]
                done = True
            elif len(n.args) == 2 and isinstance(n.args[0], ast.Constant) and n.args[0].value == 0:
                n.args = [n.args[1]]
                done = True
    return done


def _t_pad(fn):
    fn.body.insert(0, ast.Expr(value=ast.Constant(value="an extra docstring-like string")) if not
                   (fn.body and isinstance(fn.body[0], ast.Expr) and isinstance(fn.body[0].value, ast.Constant)) else ast.Pass())
    fn.body.append(ast.Pass()) if not isinstance(fn.body[-1], (ast.Return, ast.Raise)) else None
    return True


def _t_mul_commute(fn):
    done = False
    for n in ast.walk(fn):
        if isinstance(n, ast.BinOp) and isinstance(n.op, ast.Mult) and not isinstance(n.left, (ast.List, ast.Constant)) and not isinstance(n.right, (ast.List,)):
            if isinstance(n.left, ast.Constant) and isinstance(n.left.value, str):
                continue
            n.left, n.right = n.right, n.left
            done = True
    return done


def _blocks(fn):
    for p in ast.walk(fn):
        for fld in ("body", "orelse", "finalbody"):
            blk = getattr(p, fld, None)
            if isinstance(blk, list) and blk and isinstance(blk[0], ast.stmt):
                yield p, fld, blk


def _t_extract_condition(fn):
    """if <test>: ...  ->  _cond_k = <test>; if _cond_k: ...   (not for elif arms: their test must stay lazy)"""
    done = 0
    for p, fld, blk in list(_blocks(fn)):
        k = 0
        while k < len(blk):
            st = blk[k]
            is_elif = isinstance(p, ast.If) and fld == "orelse" and len(blk) == 1
            if isinstance(st, ast.If) and not is_elif and not isinstance(st.test, (ast.Name, ast.Constant)) \
                    and not any(isinstance(x, (ast.NamedExpr, ast.Yield, ast.Await)) for x in ast.walk(st.test)):
                nm = f"_cond_{done}"
                blk.insert(k, ast.Assign(targets=[ast.Name(id=nm, ctx=ast.Store())], value=st.test, lineno=st.lineno))
                st.test = ast.Name(id=nm, ctx=ast.Load())
                done += 1
                k += 1
            k += 1
    return done > 0


def _t_else_after_jump(fn):
    """if c: ...; return   rest   ->  if c: ...; return  else: rest"""
    done = False
    for p, fld, blk in list(_blocks(fn)):
        for k, st in enumerate(blk):
            if isinstance(st, ast.If) and not st.orelse and st.body and isinstance(st.body[-1], (ast.Return, ast.Raise, ast.Continue, ast.Break)) \
                    and k + 1 < len(blk) and not any(isinstance(x, (ast.FunctionDef, ast.ClassDef)) for x in blk[k + 1:]):
                st.orelse = blk[k + 1:]
                del blk[k + 1:]
                done = True
                break
    return done


def _t_drop_else_after_jump(fn):
    """if c: ...; return  else: rest   ->  if c: ...; return   rest"""
    done = False
    for p, fld, blk in list(_blocks(fn)):
        for k, st in enumerate(blk):
            if isinstance(st, ast.If) and st.orelse and st.body and isinstance(st.body[-1], (ast.Return, ast.Raise, ast.Continue, ast.Break)) \
                    and not (len(st.orelse) == 1 and isinstance(st.orelse[0], ast.If)):
                blk[k + 1:k + 1] = st.orelse
                st.orelse = []
                done = True
                break
    return done


def _t_explicit_return(fn):
    if isinstance(fn.body[-1], (ast.Return, ast.Raise)) or any(isinstance(x, (ast.Yield, ast.YieldFrom)) for x in ast.walk(fn)):
        return False
    fn.body.append(ast.Return(value=None))
    return True


def _t_assert_message(fn):
    done = False
    for n in ast.walk(fn):
        if isinstance(n, ast.Assert):
            n.msg = None if n.msg is not None else ast.Constant(value="must hold")
            done = True
    return done


def _t_split_tuple_assign(fn):
    """a, b = e1, e2  ->  a = e1; b = e2   when e2 does not read a (plain names only)"""
    done = False
    for p, fld, blk in list(_blocks(fn)):
        k = 0
        while k < len(blk):
            st = blk[k]
            if isinstance(st, ast.Assign) and len(st.targets) == 1 and isinstance(st.targets[0], ast.Tuple) and isinstance(st.value, ast.Tuple) \
                    and len(st.targets[0].elts) == len(st.value.elts) and all(isinstance(t, ast.Name) for t in st.targets[0].elts):
                names = [t.id for t in st.targets[0].elts]
                indep = all(not any(isinstance(x, ast.Name) and x.id in names[:i] for x in ast.walk(v)) for i, v in enumerate(st.value.elts))
                if indep and len(set(names)) == len(names):
                    blk[k:k + 1] = [ast.Assign(targets=[t], value=v, lineno=st.lineno) for t, v in zip(st.targets[0].elts, st.value.elts)]
                    k += len(names) - 1
                    done = True
            k += 1
    return done


def _t_join_assign(fn):
    """a = e1; b = e2  ->  a, b = e1, e2   for adjacent plain-name assignments where e2 does not read a"""
    done = False
    for p, fld, blk in list(_blocks(fn)):
        k = 0
        while k + 1 < len(blk):
            s1, s2 = blk[k], blk[k + 1]
            if all(isinstance(s_, ast.Assign) and len(s_.targets) == 1 and isinstance(s_.targets[0], ast.Name) for s_ in (s1, s2)) \
                    and s1.targets[0].id != s2.targets[0].id \
                    and not any(isinstance(x, ast.Name) and x.id == s1.targets[0].id for x in ast.walk(s2.value)) \
                    and not any(isinstance(x, (ast.Call, ast.Lambda)) for x in ast.walk(s2.value)):
                blk[k:k + 2] = [ast.Assign(targets=[ast.Tuple(elts=[s1.targets[0], s2.targets[0]], ctx=ast.Store())],
                                           value=ast.Tuple(elts=[s1.value, s2.value], ctx=ast.Load()), lineno=s1.lineno)]
                done = True
            k += 1
    return done


def _t_inline_single_use(fn):
    """v = <call-free expression>; <next statement reading v once>  ->  the next statement with the expression in place
    (v a plain local stored once in the function and read nowhere else)"""
    stores: dict = {}
    loads: dict = {}
    for n in ast.walk(fn):
        if isinstance(n, ast.Name):
            (stores if isinstance(n.ctx, ast.Store) else loads).setdefault(n.id, []).append(n)
    done = False
    for p, fld, blk in list(_blocks(fn)):
        k = 0
        while k + 1 < len(blk):
            st, nxt = blk[k], blk[k + 1]
            if isinstance(st, ast.Assign) and len(st.targets) == 1 and isinstance(st.targets[0], ast.Name):
                v = st.targets[0].id
                if len(stores.get(v, [])) == 1 and len(loads.get(v, [])) == 1 \
                        and not any(isinstance(x, (ast.Call, ast.Lambda, ast.ListComp, ast.GeneratorExp, ast.List, ast.Dict, ast.Set, ast.Await, ast.Yield))
                                    for x in ast.walk(st.value)) \
                        and isinstance(nxt, (ast.Assign, ast.Return, ast.Expr, ast.AugAssign, ast.Assert)):
                    use = loads[v][0]
                    inside = [x for x in ast.walk(nxt) if x is use]
                    in_closure = any(isinstance(x, (ast.Lambda, ast.FunctionDef, ast.ListComp, ast.GeneratorExp, ast.SetComp, ast.DictComp)) and
                                     any(y is use for y in ast.walk(x)) for x in ast.walk(nxt))
                    if inside and not in_closure:
                        class R(ast.NodeTransformer):
                            def visit_Name(self, node):
                                return copy.deepcopy(st.value) if node is use else node
                        blk[k + 1] = R().visit(nxt)
                        del blk[k]
                        done = True
                        continue
            k += 1
    return done


TRANSFORMS = {
    "rename-locals": _t_rename,
    "reverse-comparisons": _t_reverse_compare,
    "flip-if-else": _t_flip_if,
    "flip-conditional-expr": _t_flip_ifexp,
    "de-morgan": _t_demorgan,
    "extract-return-value": _t_extract_return,
    "split-chained-comparison": _t_chain_split,
    "range(0,n)<->range(n)": _t_range0,
    "pad-with-pass/docstring": _t_pad,
    "extract-condition": _t_extract_condition,
    "else-after-jump": _t_else_after_jump,
    "drop-else-after-jump": _t_drop_else_after_jump,
    "explicit-return-none": _t_explicit_return,
    "assert-message": _t_assert_message,
    "split-tuple-assign": _t_split_tuple_assign,
    "join-assignments": _t_join_assign,
    "inline-single-use-local": _t_inline_single_use,
}


# ------------------------------------------------------------------ running a variant
def _finding_keys(ctx) -> set:
    return {f.key for f in ctx.findings}


def _run_variant(args) -> tuple:
    prop, repo, rel, source, label = args
    import sys
    sys.setrecursionlimit(20000)
    try:
        ctx, err = core.run_property(prop, "quick", repo, overrides={rel: source})
        return label, sorted(_finding_keys(ctx)), err
    except Exception as e:   # pragma: no cover
        return label, [], f"internal: {type(e).__name__}: {e}"


def _anchored_functions(ctx) -> dict:
    """relpath -> set of qualnames examined by the property's rules"""
    out: dict = {}
    for sites in ctx.sites.values():
        for s in sites:
            w = s.get("where", "")
            if "::" in w:
                rel, q = w.split("::", 1)
                if rel in ctx.model.modules and q in ctx.model.modules[rel].functions:
                    out.setdefault(rel, set()).add(q)
    return out


def run(prop: str, repo: str, seed: int) -> dict:
    t0 = time.time()
    base_ctx, base_err = core.run_property(prop, "quick", repo)
    if base_err:
        return {"selftest_failures": [f"baseline analysis error: {base_err}"]}
    base = _finding_keys(base_ctx)
    anchored = _anchored_functions(base_ctx)
    sources = {rel: base_ctx.model.modules[rel].source for rel in anchored}
    rng = random.Random(seed)

    # ---- mutants
    jobs = []
    for rel, quals in sorted(anchored.items()):
        tree0 = ast.parse(sources[rel])
        for q in sorted(quals):
            fn0 = _func_node(tree0, q)
            if fn0 is None:
                continue
            for op, idx, var in _sites(fn0):
                jobs.append((rel, q, op, idx, var))
    rng.shuffle(jobs)
    total_sites = len(jobs)
    jobs = jobs[:MAX_MUTANTS]
    tasks = []
    for rel, q, op, idx, var in jobs:
        tree = ast.parse(sources[rel])
        fn = _func_node(tree, q)
        if fn is None or not _apply(fn, op, idx, var):
            continue
        try:
            ast.fix_missing_locations(tree)
            src = ast.unparse(tree)
            compile(src, rel, "exec")
        except Exception:
            continue
        if src == ast.unparse(ast.parse(sources[rel])):
            continue
        tasks.append((prop, repo, rel, src, f"{rel}::{q}|{op}|{idx}.{var}"))
    # ---- refactors
    rtasks = []
    for rel, quals in sorted(anchored.items()):
        for q in sorted(quals):
            for name, tf in TRANSFORMS.items():
                tree = ast.parse(sources[rel])
                fn = _func_node(tree, q)
                if fn is None:
                    continue
                try:
                    if not tf(fn):
                        continue
                    ast.fix_missing_locations(tree)
                    src = ast.unparse(tree)
                    compile(src, rel, "exec")
                except Exception:
                    continue
                rtasks.append((prop, repo, rel, src, f"{rel}::{q}|{name}"))
    results = []
    rresults = []
    with ProcessPoolExecutor(max_workers=WORKERS) as ex:
        for r in ex.map(_run_variant, tasks + rtasks, chunksize=4):
            (results if r[0].count("|") == 2 else rresults).append(r)
    killed_v, killed_e, survived = [], [], []
    per_op: dict = {}
    per_fn: dict = {}
    for label, keys, err in results:
        where, op, _ = label.split("|")
        new = set(keys) - base
        st = per_op.setdefault(op, [0, 0, 0])
        sf = per_fn.setdefault(where, [0, 0, 0])
        if new:
            killed_v.append(label)
            st[0] += 1
            sf[0] += 1
        elif err:
            killed_e.append(label)
            st[1] += 1
            sf[1] += 1
        else:
            survived.append(label)
            st[2] += 1
            sf[2] += 1
    failures = []
    for label, keys, err in rresults:
        new = set(keys) - base
        if new or err:
            failures.append(f"{label}: " + (sorted(new)[0][:160] if new else str(err)[:160]))
    return {
        "selftest": {
            "anchored_functions": {rel: sorted(q) for rel, q in anchored.items()},
            "mutation_sites_total": total_sites,
            "mutants_run": len(results),
            "killed_by_violation": len(killed_v),
            "refused_as_analysis_error": len(killed_e),
            "survived": len(survived),
            "per_operator[violation,error,survived]": per_op,
            "per_function[violation,error,survived]": per_fn,
            "survivors_sample": sorted(survived)[:60],
            "refactor_variants_run": len(rresults),
            "refactor_variants_silent": len(rresults) - len(failures),
            "seed": seed,
            "wall_s": round(time.time() - t0, 1),
        },
        "selftest_failures": failures,
    }


# ------------------------------------------------------------------ confirmed seeded changes (kept under /verif/seeded)
def patched_sources(patch: str, repo: str) -> Optional[dict]:
    """{relpath: source} of the python files a unified diff touches, with the diff applied to a scratch copy of just
    those files (nothing under ``repo`` is modified); None when the diff no longer applies to the current tree"""
    import re
    import shutil
    import subprocess
    import tempfile
    files = re.findall(r"^\+\+\+ b/(\S+)", open(patch).read(), re.M)
    tmp = tempfile.mkdtemp(prefix="framelint_seed_")
    try:
        for f in files:
            os.makedirs(os.path.dirname(os.path.join(tmp, f)) or tmp, exist_ok=True)
            if os.path.exists(os.path.join(repo, f)):
                shutil.copy(os.path.join(repo, f), os.path.join(tmp, f))
        r = subprocess.run(["patch", "-p1", "-s", "-f", "-d", tmp, "-i", patch], capture_output=True, text=True)
        if r.returncode != 0:
            return None
        return {f: open(os.path.join(tmp, f)).read() for f in files if f.endswith(".py")}
    finally:
        shutil.rmtree(tmp, ignore_errors=True)


def _run_seed(args) -> tuple:
    prop, repo, sid, base = args
    import sys
    sys.setrecursionlimit(20000)
    try:
        ov = patched_sources(os.path.join(core.VERIF_DIR, "seeded", sid, "patch.diff"), repo)
        if ov is None:
            return sid, None, "patch does not apply to this tree"
        ctx, err = core.run_property(prop, "quick", repo, overrides=ov)
        return sid, sorted({k.split("|")[1] for k in _finding_keys(ctx) - set(base)}), err
    except Exception as e:   # pragma: no cover
        return sid, [], f"internal: {type(e).__name__}: {e}"


def run_seeds(prop: str, repo: str, base_keys: Optional[set] = None) -> dict:
    """every confirmed seeded change of this property, applied in memory to the current tree, must be reported"""
    d = os.path.join(core.VERIF_DIR, "seeded")
    ids = sorted(x for x in (os.listdir(d) if os.path.isdir(d) else []) if x.split("-")[0] == prop and os.path.exists(os.path.join(d, x, "patch.diff")))
    if base_keys is None:
        bctx, _ = core.run_property(prop, "quick", repo)
        base_keys = _finding_keys(bctx)
    out, missed, refused = {}, [], []
    with ProcessPoolExecutor(max_workers=min(WORKERS, max(1, len(ids)))) as ex:
        for sid, rules_, err in ex.map(_run_seed, [(prop, repo, s, sorted(base_keys)) for s in ids]):
            if rules_ is None:
                out[sid] = "not applicable: " + str(err)
            elif rules_:
                out[sid] = "reported by " + ", ".join(rules_)
            elif err:
                # the changed code has a shape the rules do not recognise: the run ends with exit 2 (cannot analyse), which is
                # a refusal to pass, not a located violation
                out[sid] = "refused with exit 2 (shape not recognised): " + str(err)[:160]
                refused.append(sid)
            else:
                out[sid] = "MISSED"
                missed.append(sid)
    return {"seeded_changes": out, "seeded_missed": missed, "seeded_refused": refused}
