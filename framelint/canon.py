"""E3 -- canonical forms of expressions / statements and involutions on them.

Canonical form (an S-expression of nested tuples):

* locals assigned exactly once are inlined; other locals and the parameters
  are alpha-renamed by binding order, so local names never matter;
* arithmetic is kept in polynomial normal form over non-arithmetic atoms with
  exact rational coefficients (so ``a - (b - c)``, ``a + c - b`` and
  ``c - b + a`` coincide, ``x / 2`` is ``1/2 * x``);
* comparisons are ``lt0(p)`` ("p < 0") possibly under ``not``; ``a <= b`` is
  ``not lt0(b - a)``; chains are conjunctions; ``==`` is ``eq0`` with a sign
  normalisation;
* ``and`` / ``or`` / ``min`` / ``max`` operands are flattened and sorted;
  ``not`` is pushed inward (De Morgan); ``if c: A else: B`` is oriented so
  that the condition is not a negation;
* docstrings, ``pass`` and assertion messages are dropped; tuple assignments
  are split when that is semantics-preserving.

An *involution* sigma maps attribute names, global names, string constants,
keyword names, swaps the two arguments of pair constructors and permutes
parameters; the *dual* flavour additionally reverses every order comparison
(and keeps tolerance atoms on their side).  sigma is applied on canonical
forms through the same smart constructors, so the result is canonical again.
"""
from __future__ import annotations

import ast
from dataclasses import dataclass, field
from fractions import Fraction
from typing import Any, Callable, Optional

from .srcmodel import FuncInfo, Model, body_without_docstring, AnalysisError

S = Any  # S-expression

# Inlining of single-definition locals bound to call results: 'std' (default, syntactic criterion, see _count_defs),
# 'none' or 'all' (used by the self-test to show that the rules' verdicts do not hinge on inlining decisions).
INLINE_POLICY = __import__("os").environ.get("FRAMELINT_INLINE", "std")


def skey(s: S) -> str:
    return repr(s)


# ----------------------------------------------------------------- constants
def k_num(v) -> S:
    f = Fraction(repr(v)) if isinstance(v, float) else Fraction(v)
    return ("k", "num", (f.numerator, f.denominator))


def k_str(v: str) -> S:
    return ("k", "str", v)


K_TRUE = ("k", "bool", True)
K_FALSE = ("k", "bool", False)
K_NONE = ("k", "none")


def is_num(s: S) -> bool:
    return isinstance(s, tuple) and len(s) == 3 and s[0] == "k" and s[1] == "num"


def num_value(s: S) -> Fraction:
    return Fraction(s[2][0], s[2][1])


# ---------------------------------------------------------------- polynomial
class Poly:
    """Polynomial over atoms (S-expressions) with Fraction coefficients."""
    __slots__ = ("t",)

    def __init__(self, terms: Optional[dict] = None):
        self.t: dict[tuple, Fraction] = {}
        if terms:
            for m, c in terms.items():
                if c != 0:
                    self.t[m] = c

    @staticmethod
    def const(c) -> "Poly":
        return Poly({(): Fraction(c)})

    @staticmethod
    def atom(a: S) -> "Poly":
        return Poly({((a, 1),): Fraction(1)})

    def is_const(self) -> bool:
        return all(m == () for m in self.t)

    def const_value(self) -> Fraction:
        return self.t.get((), Fraction(0))

    def __add__(self, o: "Poly") -> "Poly":
        r = dict(self.t)
        for m, c in o.t.items():
            r[m] = r.get(m, Fraction(0)) + c
        return Poly(r)

    def __neg__(self) -> "Poly":
        return Poly({m: -c for m, c in self.t.items()})

    def __sub__(self, o: "Poly") -> "Poly":
        return self + (-o)

    def __mul__(self, o: "Poly") -> "Poly":
        r: dict[tuple, Fraction] = {}
        for m1, c1 in self.t.items():
            for m2, c2 in o.t.items():
                d: dict[S, int] = {}
                for a, p in m1 + m2:
                    d[a] = d.get(a, 0) + p
                # cancel  a * inv(a)
                for a in [x for x in d if isinstance(x, tuple) and x and x[0] == "inv"]:
                    base = a[1]
                    if base in d and d[a] > 0 and d[base] > 0:
                        k = min(d[a], d[base])
                        d[a] -= k
                        d[base] -= k
                m = tuple(sorted(((a, p) for a, p in d.items() if p != 0), key=skey))
                r[m] = r.get(m, Fraction(0)) + c1 * c2
        return Poly(r)

    def scale(self, c: Fraction) -> "Poly":
        return Poly({m: v * c for m, v in self.t.items()})

    def atoms(self) -> set:
        return {a for m in self.t for a, _ in m}

    def map_atoms(self, fn: Callable[[S], "Poly"]) -> "Poly":
        out = Poly()
        for m, c in self.t.items():
            term = Poly.const(c)
            for a, p in m:
                pa = fn(a)
                for _ in range(p):
                    term = term * pa
            out = out + term
        return out

    def to_s(self) -> S:
        if not self.t:
            return k_num(0)
        if self.is_const():
            c = self.const_value()
            return ("k", "num", (c.numerator, c.denominator))
        if len(self.t) == 1:
            (m, c), = self.t.items()
            if c == 1 and len(m) == 1 and m[0][1] == 1:
                return m[0][0]
        terms = tuple(sorted(((m, (c.numerator, c.denominator)) for m, c in self.t.items()), key=skey))
        return ("poly", terms)

    def leading_sign_normalised(self) -> "Poly":
        """p or -p, whichever has the smaller representation (for eq0 / ne0)."""
        a, b = self.to_s(), (-self).to_s()
        return self if skey(a) <= skey(b) else -self


def to_poly(s: S) -> Poly:
    if is_num(s):
        return Poly.const(num_value(s))
    if isinstance(s, tuple) and s and s[0] == "poly":
        return Poly({m: Fraction(c[0], c[1]) for m, c in s[1]})
    return Poly.atom(s)


# --------------------------------------------------------- smart constructors
def mk_not(s: S) -> S:
    if s == K_TRUE:
        return K_FALSE
    if s == K_FALSE:
        return K_TRUE
    if isinstance(s, tuple) and s:
        if s[0] == "not":
            return s[1]
        if s[0] == "and":
            return mk_or([mk_not(x) for x in s[1]])
        if s[0] == "or":
            return mk_and([mk_not(x) for x in s[1]])
        if s[0] == "eq0":
            return ("ne0", s[1])
        if s[0] == "ne0":
            return ("eq0", s[1])
        if s[0] == "cmp" and s[1] in _NEG_CMP:
            return ("cmp", _NEG_CMP[s[1]], s[2], s[3])
    return ("not", s)


_NEG_CMP = {"is": "isnot", "isnot": "is", "in": "notin", "notin": "in", "seq": "sne", "sne": "seq"}


def _flat(tag: str, items: list[S]) -> list[S]:
    out = []
    for x in items:
        if isinstance(x, tuple) and x and x[0] == tag:
            out.extend(x[1])
        else:
            out.append(x)
    return out


def mk_and(items: list[S]) -> S:
    xs = _flat("and", items)
    if any(x == K_FALSE for x in xs):
        return K_FALSE
    xs = [x for x in xs if x != K_TRUE]
    uniq = sorted({skey(x): x for x in xs}.values(), key=skey)
    if not uniq:
        return K_TRUE
    if len(uniq) == 1:
        return uniq[0]
    return ("and", tuple(uniq))


def mk_or(items: list[S]) -> S:
    xs = _flat("or", items)
    if any(x == K_TRUE for x in xs):
        return K_TRUE
    xs = [x for x in xs if x != K_FALSE]
    uniq = sorted({skey(x): x for x in xs}.values(), key=skey)
    if not uniq:
        return K_FALSE
    if len(uniq) == 1:
        return uniq[0]
    return ("or", tuple(uniq))


def mk_lt(a: S, b: S) -> S:
    """a < b"""
    return ("lt0", (to_poly(a) - to_poly(b)).to_s())


def mk_le(a: S, b: S) -> S:
    """a <= b  ==  not (b < a)"""
    return ("not", mk_lt(b, a))


def mk_eq(a: S, b: S) -> S:
    if _non_numeric(a) or _non_numeric(b):
        x, y = sorted([a, b], key=skey)
        return ("cmp", "seq", x, y)
    p = (to_poly(a) - to_poly(b)).leading_sign_normalised()
    # a length is never negative: len(x) == 0 is 'not (len(x) > 0)' (one form for the emptiness test)
    if len(p.t) == 1:
        (mono, coef), = p.t.items()
        if len(mono) == 1 and mono[0][1] == 1 and isinstance(mono[0][0], tuple) and mono[0][0][:2] == ("c", ("g", "len")):
            return ("not", ("lt0", (-to_poly(mono[0][0])).to_s()))
    return ("eq0", p.to_s())


def is_enum_const(s: S) -> bool:
    """Attribute chain rooted at a global whose last component is UPPER_CASE (enum member)."""
    if not (isinstance(s, tuple) and len(s) == 3 and s[0] == "a" and isinstance(s[2], str) and s[2].isupper()):
        return False
    b = s[1]
    while isinstance(b, tuple) and len(b) == 3 and b[0] == "a":
        b = b[1]
    return isinstance(b, tuple) and len(b) == 2 and b[0] == "g"


def _non_numeric(s: S) -> bool:
    if is_enum_const(s):
        return True
    return isinstance(s, tuple) and len(s) >= 2 and s[0] == "k" and s[1] in ("str", "none", "bool")


COMMUTATIVE_FIRST_TWO = {("g", "almost_eq")}   # repo helpers symmetric in their first two arguments


def mk_call(fn: S, args: list[S], kwargs: list[tuple[str, S]]) -> S:
    if fn in (("g", "min"), ("g", "max")) and not kwargs and len(args) > 1:
        flat = []
        for a in args:
            if isinstance(a, tuple) and a and a[0] == "c" and a[1] == fn and not a[3]:
                flat.extend(a[2])
            else:
                flat.append(a)
        args = sorted(flat, key=skey)
    if fn in COMMUTATIVE_FIRST_TWO and len(args) >= 2:
        args = sorted(args[:2], key=skey) + list(args[2:])
    return ("c", fn, tuple(args), tuple(sorted(kwargs, key=lambda kv: kv[0])))


def _negative(cond: S) -> bool:
    """polarity of a condition: a two-armed conditional is stored with the positive test (``if not c: A else: B`` and
    ``if c: B else: A`` have one form)"""
    if not (isinstance(cond, tuple) and cond):
        return False
    if cond[0] in ("not", "ne0", "or"):
        return True
    return cond[0] == "cmp" and cond[1] in ("sne", "isnot", "notin")


def mk_if(cond: S, then: tuple, orelse: tuple) -> S:
    if orelse and not then:
        return ("if", mk_not(cond), orelse, ())        # a conditional with one arm has that arm first
    if orelse and _negative(cond):
        return ("if", mk_not(cond), orelse, then)
    if cond == K_TRUE:
        return ("seq", then)
    return ("if", cond, then, orelse)


_BOOL_TAGS = ("lt0", "not", "and", "or", "eq0", "ne0", "cmp")


def _boolean(s: S) -> bool:
    if s in (K_TRUE, K_FALSE):
        return True
    if isinstance(s, tuple) and s:
        if s[0] in _BOOL_TAGS:
            return True
        if s[0] == "c" and s[1] in (("g", "all"), ("g", "any"), ("g", "isinstance"), ("g", "bool"), ("g", "callable")):
            return True
        if s[0] == "ite":
            return _boolean(s[2]) and _boolean(s[3])
    return False


def mk_ite(cond: S, a: S, b: S) -> S:
    if a == b:
        return a
    # a conditional between truth values is a formula: (a if c else False) == (c and a), ...
    if _boolean(a) and _boolean(b):
        if b == K_FALSE:
            return mk_and([cond, a])
        if a == K_FALSE:
            return mk_and([mk_not(cond), b])
        if a == K_TRUE:
            return mk_or([cond, b])
        if b == K_TRUE:
            return mk_or([mk_not(cond), a])
    if _negative(cond):
        return ("ite", mk_not(cond), b, a)
    return ("ite", cond, a, b)


# ------------------------------------------------------------- canonicaliser
@dataclass
class CanonOptions:
    inline_locals: bool = True
    project_fields: bool = True          # Shape(a, b).w -> a
    inline_properties: set = field(default_factory=set)   # names of straight-line properties to inline on 'self'-like receivers
    keep_names: set = field(default_factory=set)          # locals never inlined / renamed (kept as ('l', name))
    drop_calls: set = field(default_factory=set)          # expression-statement calls to ignore (e.g. print)
    resolve_constants: bool = True                        # module-level literal constants (KW_*) become their value


VALUE_BUILTINS = {"len", "min", "max", "abs", "float", "int", "str", "bool", "sum", "sorted", "list", "tuple", "dict", "set", "range",
                  "enumerate", "zip", "isinstance", "round", "any", "all", "reversed", "frozenset", "sqrt", "combinations"}


def _is_value_call(c: ast.Call) -> bool:
    f = c.func
    if isinstance(f, ast.Name):
        return f.id in VALUE_BUILTINS or f.id in PAIR_FIELDS
    if isinstance(f, ast.Attribute) and isinstance(f.value, ast.Name) and f.value.id == "math":
        return True
    if isinstance(f, ast.Attribute) and f.attr in ("items", "values", "keys", "get", "copy"):
        return True
    return False


MUTATOR_METHODS = {"append", "extend", "insert", "pop", "popleft", "appendleft", "remove", "sort", "clear", "update",
                   "add", "setdefault", "discard", "reverse", "heappush"}

PAIR_FIELDS = {
    "Point": ("x", "y"),
    "Shape": ("w", "h"),
    "BoundingBox": ("ll", "ur"),
    "AspectRatio": ("min_wh", "max_wh"),
    "Interval": ("low", "high"),
    "StropRectangle": ("rows", "columns"),
}


class _Scope:
    def __init__(self):
        self.env: dict[str, S] = {}
        self.bound: list[dict[str, S]] = []   # comprehension / lambda bindings

    def lookup_bound(self, name: str) -> Optional[S]:
        for d in reversed(self.bound):
            if name in d:
                return d[name]
        return None


class Canon:
    """Canonicaliser for one function."""

    def __init__(self, fi: FuncInfo, model: Optional[Model] = None, opts: Optional[CanonOptions] = None):
        self.fi = fi
        self.model = model
        self.opts = opts or CanonOptions()
        self.scope = _Scope()
        self.params: dict[str, S] = {}
        a = fi.node.args
        pos = [x.arg for x in a.posonlyargs + a.args]
        idx = 0
        for i, n in enumerate(pos):
            if i == 0 and fi.kind in ("method", "property", "setter") :
                self.params[n] = ("self",)
            elif i == 0 and fi.kind == "classmethod":
                self.params[n] = ("clsarg",)
            else:
                self.params[n] = ("p", idx)
                idx += 1
        for x in a.kwonlyargs:
            self.params[x.arg] = ("pk", x.arg)
        if a.vararg:
            self.params[a.vararg.arg] = ("pv",)
        if a.kwarg:
            self.params[a.kwarg.arg] = ("pkw",)
        self._count_defs()
        self._bdepth = 0

    # -- definition counting ------------------------------------------------
    def _count_defs(self) -> None:
        counts: dict[str, int] = {}
        order: list[str] = []
        simple: dict[str, bool] = {}
        loop_single: set[str] = set()

        def bind(name: str, is_simple: bool) -> None:
            if name not in counts:
                order.append(name)
            counts[name] = counts.get(name, 0) + 1
            simple[name] = simple.get(name, True) and is_simple

        def targets(t: ast.expr, is_simple: bool) -> None:
            if isinstance(t, ast.Name):
                bind(t.id, is_simple)
            elif isinstance(t, (ast.Tuple, ast.List)):
                for e in t.elts:
                    targets(e, is_simple)
            elif isinstance(t, ast.Starred):
                targets(t.value, False)

        def visit(stmts: list[ast.stmt], in_loop: bool) -> None:
            for st in stmts:
                if isinstance(st, ast.Assign):
                    for t in st.targets:
                        targets(t, not in_loop)
                        if in_loop:
                            for nn in ast.walk(t):
                                if isinstance(nn, ast.Name) and isinstance(nn.ctx, ast.Store):
                                    loop_single.add(nn.id)
                elif isinstance(st, ast.AnnAssign):
                    if st.value is not None:
                        targets(st.target, not in_loop)
                        if in_loop and isinstance(st.target, ast.Name):
                            loop_single.add(st.target.id)
                elif isinstance(st, ast.AugAssign):
                    targets(st.target, False)
                    if isinstance(st.target, ast.Name):
                        counts[st.target.id] = counts.get(st.target.id, 0) + 1
                elif isinstance(st, (ast.For, ast.AsyncFor)):
                    targets(st.target, False)
                    visit(st.body, True)
                    visit(st.orelse, in_loop)
                elif isinstance(st, ast.While):
                    visit(st.body, True)
                    visit(st.orelse, in_loop)
                elif isinstance(st, ast.If):
                    visit(st.body, in_loop)
                    visit(st.orelse, in_loop)
                elif isinstance(st, (ast.With, ast.AsyncWith)):
                    for it in st.items:
                        if it.optional_vars is not None:
                            targets(it.optional_vars, False)
                    visit(st.body, in_loop)
                elif isinstance(st, ast.Try):
                    visit(st.body, in_loop)
                    for h in st.handlers:
                        if h.name:
                            bind(h.name, False)
                        visit(h.body, in_loop)
                    visit(st.orelse, in_loop)
                    visit(st.finalbody, in_loop)
                elif isinstance(st, (ast.FunctionDef, ast.AsyncFunctionDef, ast.ClassDef)):
                    bind(st.name, False)
                # walrus
                for n in ast.walk(st) if not isinstance(st, (ast.FunctionDef, ast.ClassDef)) else []:
                    if isinstance(n, ast.NamedExpr) and isinstance(n.target, ast.Name):
                        bind(n.target.id, False)

        visit(body_without_docstring(self.fi.node), False)
        # a single definition inside a loop is inlinable too, unless the name is read lexically before it
        first_store: dict[str, tuple] = {}
        first_load: dict[str, tuple] = {}
        for n in ast.walk(self.fi.node):
            if isinstance(n, ast.Name):
                pos = (n.lineno, n.col_offset)
                d = first_store if isinstance(n.ctx, ast.Store) else first_load
                if n.id not in d or pos < d[n.id]:
                    d[n.id] = pos
        for name in list(simple):
            if counts.get(name) == 1 and not simple[name] and name in loop_single:
                if name not in first_load or first_load[name] > first_store.get(name, (0, 0)):
                    simple[name] = True
        # locals with object identity (mutated through a method, a store or a heap primitive) are never inlined
        mutated: set[str] = set()

        def root(n: ast.AST) -> Optional[str]:
            while isinstance(n, (ast.Attribute, ast.Subscript)):
                n = n.value
            return n.id if isinstance(n, ast.Name) else None
        for n in ast.walk(self.fi.node):
            if isinstance(n, (ast.Attribute, ast.Subscript)) and isinstance(n.ctx, (ast.Store, ast.Del)):
                r = root(n.value)
                if r:
                    mutated.add(r)
            elif isinstance(n, ast.AugAssign) and isinstance(n.target, (ast.Attribute, ast.Subscript)):
                r = root(n.target.value)
                if r:
                    mutated.add(r)
            elif isinstance(n, ast.Call) and isinstance(n.func, ast.Attribute):
                if n.func.attr in MUTATOR_METHODS and isinstance(n.func.value, ast.Name):
                    mutated.add(n.func.value.id)
                if isinstance(n.func.value, ast.Name) and n.func.value.id == "heapq" and n.args \
                        and isinstance(n.args[0], ast.Name):
                    mutated.add(n.args[0].id)
        # ... unless the local merely names an object that exists already (``trunk = rectangles[0]``: a path of attributes and
        # subscripts, nothing is built): mutating through the alias is mutating that object, and the alias can be looked through
        alias_defs: dict[str, list] = {}
        for n in ast.walk(self.fi.node):
            if isinstance(n, ast.Assign) and len(n.targets) == 1 and isinstance(n.targets[0], ast.Name):
                alias_defs.setdefault(n.targets[0].id, []).append(n.value)
            elif isinstance(n, ast.AnnAssign) and n.value is not None and isinstance(n.target, ast.Name):
                alias_defs.setdefault(n.target.id, []).append(n.value)

        def is_path(e: ast.AST) -> bool:
            if isinstance(e, ast.Name):
                return True
            if isinstance(e, ast.Attribute):
                return is_path(e.value)
            if isinstance(e, ast.Subscript):
                return is_path(e.value) and isinstance(e.slice, (ast.Constant, ast.Name)) or \
                    (is_path(e.value) and isinstance(e.slice, ast.UnaryOp) and isinstance(e.slice.operand, ast.Constant))
            return False
        aliases = {nm for nm, vs in alias_defs.items() if len(vs) == 1 and not isinstance(vs[0], ast.Name) and is_path(vs[0])}
        self.mutated = mutated
        for name in mutated:
            if name in simple and name not in aliases:
                simple[name] = False
        # a local bound to the result of a call with side effects (or of unknown purity) is not inlined:
        # inlining would duplicate or reorder the effect (``fresh = self.newaux()`` used twice)
        # A local bound to an expression that contains a call (other than the fixed list of value-returning builtins
        # and value-record constructors) is inlined only if it is used at most once: inlining then neither duplicates
        # nor drops an effect.  The criterion is purely syntactic, so the canonical form of a function depends on
        # that function's text only (never on an analysis of its callees).
        uses: dict[str, int] = {}
        self._name_uses = uses
        for n in ast.walk(self.fi.node):
            if isinstance(n, ast.Name) and isinstance(n.ctx, ast.Load):
                uses[n.id] = uses.get(n.id, 0) + 1
        policy = INLINE_POLICY
        if policy != "all":
            for n in ast.walk(self.fi.node):
                if isinstance(n, (ast.Assign, ast.AnnAssign)) and getattr(n, "value", None) is not None:
                    calls = [c for c in ast.walk(n.value) if isinstance(c, ast.Call)]
                    if not calls:
                        continue
                    simple_calls = all(_is_value_call(c) for c in calls)
                    tgts = n.targets if isinstance(n, ast.Assign) else [n.target]
                    names = [nn.id for tg in tgts for nn in ast.walk(tg) if isinstance(nn, ast.Name) and isinstance(nn.ctx, ast.Store)]
                    for nm in names:
                        if nm not in simple:
                            continue
                        if policy == "none":
                            simple[nm] = False
                        elif not simple_calls and (uses.get(nm, 0) > 1 or len(names) > 1):
                            simple[nm] = False
        # a local bound to a freshly constructed object (other than the small value records) keeps its identity
        for n in ast.walk(self.fi.node):
            if isinstance(n, (ast.Assign, ast.AnnAssign)) and isinstance(getattr(n, "value", None), ast.Call):
                f = n.value.func
                cname = f.id if isinstance(f, ast.Name) else (f.attr if isinstance(f, ast.Attribute) else "")
                if cname[:1].isupper() and cname not in PAIR_FIELDS and not cname.isupper():
                    tg = n.targets[0] if isinstance(n, ast.Assign) else n.target
                    if isinstance(tg, ast.Name) and tg.id in simple:
                        simple[tg.id] = False
        # a parameter that is re-assigned is multi-def
        self.inlinable: set[str] = set()
        self.varids: dict[str, S] = {}
        k = 0
        for name in order:
            if name in self.opts.keep_names:
                self.varids[name] = ("l", name)
                continue
            if name in self.params:
                continue
            if self.opts.inline_locals and counts[name] == 1 and simple[name]:
                self.inlinable.add(name)
            else:
                self.varids[name] = ("v", k)
                k += 1

    # -- expressions --------------------------------------------------------
    def expr(self, e: ast.expr) -> S:
        m = getattr(self, "_e_" + type(e).__name__, None)
        if m is None:
            return ("ast", type(e).__name__, tuple(self.expr(c) for c in ast.iter_child_nodes(e) if isinstance(c, ast.expr)))
        return m(e)

    def _e_Constant(self, e: ast.Constant) -> S:
        v = e.value
        if isinstance(v, bool):
            return K_TRUE if v else K_FALSE
        if isinstance(v, (int, float)):
            if isinstance(v, float) and (v != v or v in (float("inf"), float("-inf"))):
                return ("k", "float", repr(v))
            return k_num(v)
        if isinstance(v, str):
            return k_str(v)
        if v is None:
            return K_NONE
        return ("k", "other", repr(v))

    def _e_Name(self, e: ast.Name) -> S:
        b = self.scope.lookup_bound(e.id)
        if b is not None:
            # bound variables are numbered relative to the comprehension / lambda they are used in (1 = its own
            # variables, 2 = those of the enclosing one, ...): a closed comprehension has one form at any nesting depth
            return ("b", self._bdepth - b[1] + 1, b[2])
        if e.id in self.scope.env:
            return self.scope.env[e.id]
        if e.id in self.varids:
            return self.varids[e.id]
        if e.id in self.params:
            return self.params[e.id]
        if e.id in self.inlinable:
            # used before (or without) its definition being seen on this walk: keep symbolic
            return ("u", e.id)
        if self.model is not None and self.opts.resolve_constants:
            v = self.model.global_constant(self.fi.module, e.id)
            if v is not None:
                if isinstance(v, bool):
                    return K_TRUE if v else K_FALSE
                return k_str(v) if isinstance(v, str) else k_num(v)
        if self.model is not None and isinstance(e.ctx, ast.Load):
            # a module-level constant table that the reference tree does not have is read through (like a new helper)
            tab = self.model.new_constant_table(self.fi.module, e.id)
            if tab is not None and not getattr(self, "_in_table", False):
                self._in_table = True
                try:
                    return self.expr(tab)
                finally:
                    self._in_table = False
        return ("g", e.id)

    def _e_Attribute(self, e: ast.Attribute) -> S:
        base = self.expr(e.value)
        return self.attr(base, e.attr)

    def attr(self, base: S, name: str) -> S:
        if self.opts.project_fields and isinstance(base, tuple) and base and base[0] == "c" \
                and isinstance(base[1], tuple) and base[1][0] == "g" and base[1][1] in PAIR_FIELDS:
            f = PAIR_FIELDS[base[1][1]]
            args, kwargs = base[2], dict(base[3])
            if name in f:
                i = f.index(name)
                if name in kwargs:
                    return kwargs[name]
                if i < len(args) and len(args) + len(kwargs) == 2:
                    return args[i]
        if self.opts.inline_properties and self.model is not None:
            for qual in self.opts.inline_properties:
                if qual.split(".")[-1] == name:
                    r = self._inline_property(base, qual)
                    if r is not None:
                        return r
        # inside its class a field that a property simply hands out is read through that property (self._die == self.bounding_box)
        if base == ("self",) and name.startswith("_") and getattr(self.fi, "cls", None) is not None:
            getter = _trivial_getters(self.fi.cls).get(name)
            if getter is not None and getter != self.fi.name:
                return ("a", base, getter)
        # a property defined as the negation of another one (is_soft == not is_hard) is written with that other one
        if self.model is not None:
            twin = self.model.negated_twin(name)
            if twin is not None:
                return mk_not(("a", base, twin))
        return ("a", base, name)

    def _inline_property(self, base: S, qual: str) -> Optional[S]:
        """``qual`` = 'Class.prop': the rule vouches that receivers of ``.prop`` in this
        function are instances of Class; the getter must be straight-line."""
        cname, name = qual.rsplit(".", 1)
        getters = [g for g in self.model.property_getters(name) if g.cls is not None and g.cls.name == cname]
        if len(getters) != 1:
            raise AnalysisError(f"property {qual} not found (or ambiguous) for inlining")
        g = getters[0]
        sub = Canon(g, self.model, CanonOptions(inline_locals=True, project_fields=True,
                                                inline_properties=self.opts.inline_properties - {qual}))
        body = sub.block(body_without_docstring(g.node))
        if len(body) == 1 and body[0][0] == "ret":
            return subst(body[0][1], {("self",): base})
        return None

    def _e_BinOp(self, e: ast.BinOp) -> S:
        a, b = self.expr(e.left), self.expr(e.right)
        op = type(e.op).__name__
        if op == "Add":
            if _is_strlike(a) or _is_strlike(b):
                return ("concat", a, b)
            return (to_poly(a) + to_poly(b)).to_s()
        if op == "Sub":
            return (to_poly(a) - to_poly(b)).to_s()
        if op == "Mult":
            return (to_poly(a) * to_poly(b)).to_s()
        if op == "Div":
            pb = to_poly(b)
            if pb.is_const() and pb.const_value() != 0:
                return to_poly(a).scale(1 / pb.const_value()).to_s()
            return (to_poly(a) * Poly.atom(("inv", pb.to_s()))).to_s()
        if op == "Pow":
            pb = to_poly(b)
            if pb.is_const():
                c = pb.const_value()
                if c.denominator == 1 and 0 <= c.numerator <= 4:
                    r = Poly.const(1)
                    pa = to_poly(a)
                    for _ in range(c.numerator):
                        r = r * pa
                    return r.to_s()
            return ("pow", a, b)
        return ("bin", op, a, b)

    def _e_UnaryOp(self, e: ast.UnaryOp) -> S:
        v = self.expr(e.operand)
        if isinstance(e.op, ast.Not):
            return mk_not(_truth(v))
        if isinstance(e.op, ast.USub):
            return (-to_poly(v)).to_s()
        if isinstance(e.op, ast.UAdd):
            return v
        return ("un", type(e.op).__name__, v)

    def _e_BoolOp(self, e: ast.BoolOp) -> S:
        vs = [_truth(self.expr(v)) for v in e.values]
        return mk_and(vs) if isinstance(e.op, ast.And) else mk_or(vs)

    def _e_Compare(self, e: ast.Compare) -> S:
        parts = []
        left = self.expr(e.left)
        for op, r in zip(e.ops, e.comparators):
            right = self.expr(r)
            parts.append(self.compare(type(op).__name__, left, right))
            left = right
        return mk_and(parts)

    @staticmethod
    def compare(op: str, a: S, b: S) -> S:
        if op == "Lt":
            return mk_lt(a, b)
        if op == "Gt":
            return mk_lt(b, a)
        if op == "LtE":
            return mk_le(a, b)
        if op == "GtE":
            return mk_le(b, a)
        if op == "Eq":
            return mk_eq(a, b)
        if op == "NotEq":
            return mk_not(mk_eq(a, b))
        if op == "Is":
            return ("cmp", "is", a, b)
        if op == "IsNot":
            return ("cmp", "isnot", a, b)
        if op in ("In", "NotIn") and isinstance(b, tuple) and b and b[0] in ("list", "tuple", "set") and len(b) == 2 and 0 < len(b[1]) <= 8 \
                and all(isinstance(x, tuple) and x and x[0] == "k" for x in b[1]):
            # membership in a literal of constants is the disjunction of the equalities ('x not in (a, b)' = 'x != a and x != b')
            eqs = [mk_eq(a, x) for x in b[1]]
            return mk_or(eqs) if op == "In" else mk_and([mk_not(q) for q in eqs])
        if op == "In":
            return ("cmp", "in", a, b)
        if op == "NotIn":
            return ("cmp", "notin", a, b)
        return ("cmp", op, a, b)

    def _e_Call(self, e: ast.Call) -> S:
        # list(map(lambda x: e, xs)) == [e for x in xs]
        if isinstance(e.func, ast.Name) and e.func.id == "list" and len(e.args) == 1 and not e.keywords and isinstance(e.args[0], ast.Call) \
                and isinstance(e.args[0].func, ast.Name) and e.args[0].func.id == "map" and len(e.args[0].args) == 2 and not e.args[0].keywords \
                and isinstance(e.args[0].args[0], ast.Lambda) and not isinstance(e.args[0].args[1], ast.Starred):
            lam = e.args[0].args[0]
            la = lam.args
            if len(la.args) == 1 and not (la.posonlyargs or la.kwonlyargs or la.vararg or la.kwarg or la.defaults):
                comp = ast.ListComp(elt=lam.body, generators=[ast.comprehension(target=ast.Name(id=la.args[0].arg, ctx=ast.Store()),
                                                                                iter=e.args[0].args[1], ifs=[], is_async=0)])
                return self.expr(ast.copy_location(comp, e))
        fn = self.expr(e.func)
        args: list[S] = []
        for a in e.args:
            if isinstance(a, ast.Starred):
                args.append(("star", self.expr(a.value)))
            else:
                args.append(self.expr(a))
        kwargs: list[tuple[str, S]] = []
        for kw in e.keywords:
            if kw.arg is None:
                v = self.expr(kw.value)
                if isinstance(v, tuple) and v and v[0] == "dict" and all(is_str(k) for k, _ in v[1]):
                    for k, val in v[1]:
                        kwargs.append((k[2], val))
                else:
                    kwargs.append(("**", v))
            else:
                kwargs.append((kw.arg, self.expr(kw.value)))
        # calls of repository functions: keyword arguments are bound to their positions and omitted parameters
        # are filled with the callee's (literal) defaults, so f(a, k=b) / f(a, b) / f(a) with default b coincide
        if self.model is not None and not any(isinstance(a, ast.Starred) for a in e.args) and not any(k == "**" for k, _ in kwargs):
            bound = self._bind_call(e, args, kwargs)
            if bound is not None:
                args, kwargs = bound
        # sum([e for ...]) == sum(e for ...): a consumer that walks its argument once does not care whether the list is built first
        if isinstance(fn, tuple) and fn[:1] == ("g",) and fn[1] in ("sum", "any", "all", "min", "max", "sorted", "set", "frozenset", "tuple", "list", "dict") \
                and len(args) >= 1 and isinstance(args[0], tuple) and args[0][:2] == ("comp", "list"):
            args = [("comp", "gen") + tuple(args[0][2:])] + list(args[1:])
        # Class.method(obj, args) == obj.method(args)  (an instance method of a repository class called through the class)
        if isinstance(fn, tuple) and len(fn) == 3 and fn[0] == "a" and isinstance(fn[1], tuple) and fn[1][:1] == ("g",) and args and not kwargs \
                and self.model is not None and not any(isinstance(a, tuple) and a[:1] == ("star",) for a in args):
            try:
                tcls = self.model.resolve_name(self.fi.module, fn[1][1])
            except Exception:
                tcls = None
            meth = getattr(tcls, "methods", {}).get(fn[2]) if tcls is not None and hasattr(tcls, "methods") else None
            if meth is not None and meth.kind == "method" and args[0] != ("self",):
                return mk_call(("a", args[0], fn[2]), list(args[1:]), [])
        # operator.ge(a, b) == a >= b  (and the other comparison / arithmetic functions of the operator module)
        if isinstance(fn, tuple) and fn[:2] == ("a", ("g", "operator")) and len(args) == 2 and not kwargs:
            cmp_ops = {"lt": "Lt", "le": "LtE", "gt": "Gt", "ge": "GtE", "eq": "Eq", "ne": "NotEq"}
            if fn[2] in cmp_ops:
                return self.compare(cmp_ops[fn[2]], args[0], args[1])
            ar = {"add": lambda a, b: (to_poly(a) + to_poly(b)).to_s(), "sub": lambda a, b: (to_poly(a) - to_poly(b)).to_s(),
                  "mul": lambda a, b: (to_poly(a) * to_poly(b)).to_s(), "truediv": lambda a, b: (to_poly(a) * to_poly(("inv", b))).to_s()}
            if fn[2] in ar:
                return ar[fn[2]](args[0], args[1])
        # isinstance(x, (A, B)) == isinstance(x, A) or isinstance(x, B)
        if fn == ("g", "isinstance") and len(args) == 2 and not kwargs and isinstance(args[1], tuple) and args[1][:1] == ("tuple",) and args[1][1]:
            return mk_or([mk_call(fn, [args[0], t], []) for t in args[1][1]])
        # range(0, n) == range(n)
        if fn == ("g", "range") and len(args) == 2 and args[0] == k_num(0):
            args = [args[1]]
        # d.get(k, default) == d[k] if k in d else default
        if isinstance(fn, tuple) and len(fn) == 3 and fn[0] == "a" and fn[2] == "get" and len(args) == 2 and not kwargs:
            return mk_ite(("cmp", "in", args[0], fn[1]), ("s", fn[1], args[0]), args[1])
        if isinstance(fn, tuple) and len(fn) == 3 and fn[0] == "a" and fn[2] == "get" and len(args) == 1 and not kwargs and fn[1] != ("self",) \
                and not is_str(args[0]) and not is_num(args[0]):
            return mk_ite(("cmp", "in", args[0], fn[1]), ("s", fn[1], args[0]), K_NONE)
        if fn == ("g", "float") and len(args) == 1 and is_num(args[0]):
            return args[0]
        return mk_call(fn, args, kwargs)

    def _bind_call(self, e: ast.Call, args: list, kwargs: list):
        try:
            callees = self.model.resolve_call(self.fi, e)
        except Exception:
            return None
        if len(callees) != 1:
            return None
        g = callees[0]
        a = g.node.args
        if a.vararg or a.kwarg or a.kwonlyargs or a.posonlyargs:
            return None
        params = [x.arg for x in a.args]
        if g.kind in ("method", "property", "setter", "classmethod") and params:
            params = params[1:]
        if g.kind == "staticmethod":
            pass
        n_def = len(a.defaults)
        defaults = {}
        all_params = [x.arg for x in a.args]
        for name, d in zip(all_params[len(all_params) - n_def:], a.defaults):
            defaults[name] = d
        if len(args) > len(params):
            return None
        out = list(args)
        kw = dict(kwargs)
        rest = params[len(args):]
        given = [i for i, name in enumerate(rest) if name in kw]
        if not given:
            return (out, []) if not kw else None
        for name in rest[:given[-1] + 1]:     # trailing parameters that are not passed stay absent
            if name in kw:
                out.append(kw.pop(name))
            elif name in defaults:
                d = defaults[name]
                if isinstance(d, ast.Constant):
                    out.append(self._e_Constant(d))
                elif isinstance(d, ast.UnaryOp) and isinstance(d.op, ast.USub) and isinstance(d.operand, ast.Constant) and isinstance(d.operand.value, (int, float)):
                    out.append(k_num(-d.operand.value))
                else:
                    out.append(("default", g.qualname, name))
            else:
                return None
        if kw:
            return None
        return out, []

    def _e_IfExp(self, e: ast.IfExp) -> S:
        return mk_ite(_truth(self.expr(e.test)), self.expr(e.body), self.expr(e.orelse))

    def _e_Subscript(self, e: ast.Subscript) -> S:
        base = self.expr(e.value)
        idx = self.expr(e.slice)
        if isinstance(base, tuple) and base and base[0] == "tuple" and is_num(idx):
            i = num_value(idx)
            if i.denominator == 1 and 0 <= i.numerator < len(base[1]):
                return base[1][i.numerator]
        return ("s", base, idx)

    def _e_Slice(self, e: ast.Slice) -> S:
        return ("slice", self.expr(e.lower) if e.lower else K_NONE, self.expr(e.upper) if e.upper else K_NONE,
                self.expr(e.step) if e.step else K_NONE)

    def _e_Tuple(self, e: ast.Tuple) -> S:
        return ("tuple", tuple(self.expr(x) for x in e.elts))

    def _e_List(self, e: ast.List) -> S:
        return ("list", tuple(self.expr(x) for x in e.elts))

    def _e_Set(self, e: ast.Set) -> S:
        return ("set", tuple(sorted((self.expr(x) for x in e.elts), key=skey)))

    def _e_Dict(self, e: ast.Dict) -> S:
        items = []
        for k, v in zip(e.keys, e.values):
            items.append((self.expr(k) if k is not None else ("k", "splat"), self.expr(v)))
        return ("dict", tuple(items))

    def _e_JoinedStr(self, e: ast.JoinedStr) -> S:
        parts = []
        for v in e.values:
            if isinstance(v, ast.Constant):
                parts.append(k_str(v.value))
            elif isinstance(v, ast.FormattedValue):
                parts.append(("fmt", self.expr(v.value)))
        return ("fstr", tuple(parts))

    def _e_Starred(self, e: ast.Starred) -> S:
        return ("star", self.expr(e.value))

    def _e_NamedExpr(self, e: ast.NamedExpr) -> S:
        return ("walrus", self.expr(e.target), self.expr(e.value))

    def _e_Lambda(self, e: ast.Lambda) -> S:
        names = [a.arg for a in e.args.posonlyargs + e.args.args]
        self._bdepth += 1
        d = {n: ("b", self._bdepth, i) for i, n in enumerate(names)}
        self.scope.bound.append(d)
        try:
            body = self.expr(e.body)
        finally:
            self.scope.bound.pop()
            self._bdepth -= 1
        return ("lambda", len(names), body)

    def _comp(self, kind: str, elts: list[ast.expr], gens: list[ast.comprehension]) -> S:
        self._bdepth += 1
        pushed = 0
        gs = []
        try:
            counter = [0]
            for g in gens:
                it = self.expr(g.iter)
                d: dict[str, S] = {}
                tgt = self._bind_target(g.target, d, counter)
                self.scope.bound.append(d)
                pushed += 1
                conds = mk_and([_truth(self.expr(c)) for c in g.ifs]) if g.ifs else K_TRUE
                gs.append((tgt, it, conds))
            body = tuple(self.expr(x) for x in elts)
        finally:
            for _ in range(pushed):
                self.scope.bound.pop()
            self._bdepth -= 1
        return ("comp", kind, body, tuple(gs))

    def _bind_target(self, t: ast.expr, d: dict, counter: list[int]) -> S:
        if isinstance(t, ast.Name):
            d[t.id] = ("b", self._bdepth, counter[0])      # absolute depth, for the lookup
            counter[0] += 1
            return ("b", 1, counter[0] - 1)
        if isinstance(t, (ast.Tuple, ast.List)):
            return ("tuple", tuple(self._bind_target(x, d, counter) for x in t.elts))
        return self.expr(t)

    def _e_ListComp(self, e: ast.ListComp) -> S:
        return self._comp("list", [e.elt], e.generators)

    def _e_SetComp(self, e: ast.SetComp) -> S:
        return self._comp("set", [e.elt], e.generators)

    def _e_GeneratorExp(self, e: ast.GeneratorExp) -> S:
        return self._comp("gen", [e.elt], e.generators)

    def _e_DictComp(self, e: ast.DictComp) -> S:
        return self._comp("dict", [e.key, e.value], e.generators)

    # -- statements ---------------------------------------------------------
    def block(self, stmts: list[ast.stmt]) -> tuple:
        out: list[S] = []
        for st in stmts:
            out.extend(self.stmt(st))
        return tuple(_merge_guard_chain(out))

    def function(self) -> tuple:
        blk = list(self.block(body_without_docstring(self.fi.node)))
        # falling off the end is 'return None': with it made explicit, a conditional that ends the function has exiting arms
        # and gets the guard normal form ('if not c: rest' == 'if c: return' ; rest); the explicit returns are dropped again
        return _function_tail(blk)

    def stmt(self, st: ast.stmt) -> list[S]:
        if isinstance(st, ast.Pass):
            return []
        if isinstance(st, ast.Expr):
            if isinstance(st.value, ast.Constant) and isinstance(st.value.value, str):
                return []
            v = self.expr(st.value)
            if isinstance(v, tuple) and v and v[0] == "c" and v[1] in {("g", n) for n in self.opts.drop_calls}:
                return []
            return [("expr", v)]
        if isinstance(st, ast.Assign):
            out: list[S] = []
            val = self.expr(st.value)
            for t in st.targets:
                out.extend(self._assign(t, val, st.value))
            return out
        if isinstance(st, ast.AnnAssign):
            if st.value is None:
                return []
            return self._assign(st.target, self.expr(st.value), st.value)
        if isinstance(st, ast.AugAssign):
            tgt = self.expr_store(st.target)
            return [("aug", type(st.op).__name__, tgt, self.expr(st.value))]
        if isinstance(st, ast.Return):
            return [("ret", self.expr(st.value) if st.value is not None else K_NONE)]
        if isinstance(st, ast.If):
            c = _truth(self.expr(st.test))
            return [mk_if(c, self.block(st.body), self.block(st.orelse))]
        if isinstance(st, (ast.For, ast.AsyncFor)):
            it = self.expr(st.iter)
            tgt = self.expr_store(st.target)
            return [("for", tgt, it, _continue_to_else(self.block(st.body)), self.block(st.orelse))]
        if isinstance(st, ast.While):
            return [("while", _truth(self.expr(st.test)), _continue_to_else(self.block(st.body)), self.block(st.orelse))]
        if isinstance(st, ast.Assert):
            return [("assert", _truth(self.expr(st.test)))]
        if isinstance(st, ast.Raise):
            return [("raise", self.expr(st.exc) if st.exc is not None else K_NONE)]
        if isinstance(st, ast.Break):
            return [("break",)]
        if isinstance(st, ast.Continue):
            return [("continue",)]
        if isinstance(st, (ast.With, ast.AsyncWith)):
            items = tuple((self.expr(i.context_expr), self.expr_store(i.optional_vars) if i.optional_vars else K_NONE)
                          for i in st.items)
            return [("with", items, self.block(st.body))]
        if isinstance(st, ast.Try):
            hs = tuple((self.expr(h.type) if h.type else K_NONE, self.block(h.body)) for h in st.handlers)
            return [("try", self.block(st.body), hs, self.block(st.orelse), self.block(st.finalbody))]
        if isinstance(st, ast.Delete):
            return [("del", tuple(self.expr_store(t) for t in st.targets))]
        if isinstance(st, (ast.FunctionDef, ast.AsyncFunctionDef)):
            return [("def", st.name)]
        if isinstance(st, (ast.Global, ast.Nonlocal)):
            return [("global", " ".join(sorted(st.names)))]
        if isinstance(st, (ast.Import, ast.ImportFrom)):
            return []
        return [("stmt", type(st).__name__)]

    def expr_store(self, t: ast.expr) -> S:
        if isinstance(t, ast.Name):
            if t.id in self.varids:
                return self.varids[t.id]
            if t.id in self.params:
                return self.params[t.id]
            return ("u", t.id)
        if isinstance(t, (ast.Tuple, ast.List)):
            return ("tuple", tuple(self.expr_store(x) for x in t.elts))
        if isinstance(t, ast.Attribute):
            return ("a", self.expr(t.value), t.attr)
        if isinstance(t, ast.Subscript):
            return ("s", self.expr(t.value), self.expr(t.slice))
        if isinstance(t, ast.Starred):
            return ("star", self.expr_store(t.value))
        return self.expr(t)

    def _assign(self, t: ast.expr, val: S, val_node: ast.expr) -> list[S]:
        if isinstance(t, ast.Name):
            if t.id in self.inlinable:
                self.scope.env[t.id] = val
                if self._name_uses.get(t.id, 0) == 0 and _has_effectful_call(val):
                    return [("expr", val)]          # '_ = f()': nothing reads the name, the call is still made
                return []
            return [("set", self.expr_store(t), val)]
        if isinstance(t, (ast.Tuple, ast.List)):
            n = len(t.elts)
            if isinstance(val, tuple) and val and val[0] in ("tuple", "list") and len(val[1]) == n \
                    and not any(isinstance(x, ast.Starred) for x in t.elts):
                tgts = [self.expr_store(x) if not (isinstance(x, ast.Name) and x.id in self.inlinable) else None
                        for x in t.elts]
                # simultaneous assignment whose targets are read on the right must stay atomic
                # (a value may read its own target and later ones: assigning left to right gives the same result)
                if any(contains(v, s) for j, v in enumerate(val[1]) for s in tgts[:j] if s is not None):
                    return [("mset", tuple(self.expr_store(x) for x in t.elts), val[1])]
                out: list[S] = []
                for x, v in zip(t.elts, val[1]):
                    out.extend(self._assign(x, v, val_node))
                return out
            out = []
            if any(isinstance(x, ast.Starred) for x in t.elts):
                return [("set", self.expr_store(t), val)]
            for i, x in enumerate(t.elts):
                out.extend(self._assign(x, self._proj(val, i, n), val_node))
            return out
        return [("set", self.expr_store(t), val)]

    def _proj(self, val: S, i: int, n: int) -> S:
        return ("proj", val, i, n)


_EXITS = ("ret", "raise", "continue", "break")


def _ends_in_exit(block) -> bool:
    return bool(block) and isinstance(block[-1], tuple) and bool(block[-1]) and block[-1][0] in _EXITS


def _function_tail(blk) -> tuple:
    """falling off the end is 'return None': with it made explicit, a conditional that ends the function has exiting arms
    and gets the guard normal form ('if not c: rest' == 'if c: return' ; rest); the explicit returns are dropped again"""
    blk = list(blk)
    if not _ends_in_exit(blk):
        blk.append(("ret", K_NONE))
    if blk[-1] == ("ret", K_NONE):
        blk = _tail_returns(blk)
    return _strip_tail_returns(tuple(_merge_guard_chain(blk)))


def _tail_returns(stmts: list) -> list:
    """``stmts`` ends with ``return None``; a conditional right before it gets the return in each of its arms"""
    if len(stmts) >= 2 and isinstance(stmts[-2], tuple) and len(stmts[-2]) == 4 and stmts[-2][0] == "if":
        _, c, a, b = stmts[-2]
        a2 = tuple(a) if _ends_in_exit(a) else tuple(_tail_returns(list(a) + [("ret", K_NONE)]))
        b2 = tuple(b) if _ends_in_exit(b) else tuple(_tail_returns(list(b) + [("ret", K_NONE)]))
        return _merge_guard_chain(list(stmts[:-2]) + [("if", c, a2, b2)])
    return stmts


def _strip_tail_returns(block: tuple) -> tuple:
    """drop the ``return None`` statements that end the function (directly, or as the end of the arms of its last conditional)"""
    block = tuple(block)
    while block and block[-1] == ("ret", K_NONE):
        block = block[:-1]
    if block and isinstance(block[-1], tuple) and len(block[-1]) == 4 and block[-1][0] == "if":
        _, c, a, b = block[-1]
        a2, b2 = _strip_tail_returns(a), _strip_tail_returns(b)
        if not a2 and not b2:
            return _strip_tail_returns(block[:-1]) if False else block[:-1] + (("expr", c),) if _has_effectful_call(c) else block[:-1]
        if not a2:
            return block[:-1] + (("if", mk_not(c), b2, ()),)
        return block[:-1] + (mk_if(c, a2, b2),)
    return block


def _trivial_getters(cls) -> dict:
    """{field: property} for the properties of a class whose whole body is ``return self.field`` (one property per field)"""
    cache = getattr(cls, "_trivial_getters", None)
    if cache is not None:
        return cache
    out: dict = {}
    dup = set()
    for name, m in cls.methods.items():
        if m.kind != "property":
            continue
        from .srcmodel import getter_field
        f = getter_field(m.node)
        if f is not None:
            if f in out:
                dup.add(f)
            out[f] = name
    for f in dup:
        out.pop(f, None)
    try:
        cls._trivial_getters = out
    except Exception:
        pass
    return out


_CONSUMERS = ("sum", "any", "all", "min", "max", "sorted", "set", "frozenset", "tuple", "list", "dict")


def _is_sym_const(x) -> bool:
    """a string constant or an enumeration member (an attribute chain rooted at a global that ends in an UPPER_CASE name)"""
    if is_str(x):
        return True
    if isinstance(x, tuple) and len(x) == 3 and x[0] == "a" and isinstance(x[2], str) and x[2].isupper():
        b = x[1]
        while isinstance(b, tuple) and len(b) == 3 and b[0] == "a":
            b = b[1]
        return isinstance(b, tuple) and len(b) == 2 and b[0] == "g"
    return False


def _case_test(c):
    """(subject, frozenset of constants, positive?) when the test says 'subject is (not) one of these symbolic constants'"""
    if not isinstance(c, tuple) or not c:
        return None
    if c[0] == "cmp" and c[1] in ("seq", "sne") and len(c) == 4:
        for x, k in ((c[2], c[3]), (c[3], c[2])):
            if _is_sym_const(k) and not _is_sym_const(x) and _plain_path(x):
                return x, frozenset([k]), c[1] == "seq"
        return None
    if c[0] in ("or", "and") and len(c) == 2:
        parts = [_case_test(y) for y in c[1]]
        if any(p_ is None for p_ in parts) or len({p_[0] for p_ in parts}) != 1:
            return None
        want_pos = c[0] == "or"
        if any(p_[2] != want_pos for p_ in parts):
            return None
        return parts[0][0], frozenset().union(*[p_[1] for p_ in parts]), want_pos
    return None


def _hoist_asserts(block: tuple) -> tuple:
    """conditional assertions are implications: ``if g: assert A; rest`` is ``assert (not g) or A`` ; ``if g: rest`` (the assertions
    that open an arm, the test without effects)"""
    out = []
    for st in block:
        if isinstance(st, tuple) and st:
            if st[0] == "if" and len(st) == 4:
                a, b = _hoist_asserts(st[2]), _hoist_asserts(st[3])
                if not _has_effectful_call(st[1]):
                    def leading(arm):
                        """(assertions that open the arm -- also past plain local definitions they do not read --, the rest)"""
                        took, rest, defined = [], [], []
                        k = 0
                        while k < len(arm):
                            x = arm[k]
                            if isinstance(x, tuple) and x[:1] == ("assert",) and len(x) == 2 and not any(contains(x[1], v) for v in defined):
                                took.append(x)
                            elif isinstance(x, tuple) and x[:1] == ("set",) and len(x) == 3 and isinstance(x[1], tuple) and x[1][:1] == ("v",) \
                                    and not _has_effectful_call(x[2]):
                                defined.append(x[1])
                                rest.append(x)
                            else:
                                break
                            k += 1
                        return took, tuple(rest) + tuple(arm[k:])
                    ta_, a2 = leading(a)
                    tb_, b2 = leading(b)
                    if ta_ or tb_:
                        for x in ta_:
                            out.append(("assert", mk_or([mk_not(st[1]), x[1]])))
                        for x in tb_:
                            out.append(("assert", mk_or([st[1], x[1]])))
                        a, b = a2, b2
                        if a or b:
                            out.append(_flat_if(mk_if(st[1], tuple(a), tuple(b))))
                        continue
                st = ("if", st[1], a, b)
            elif st[0] == "for" and len(st) == 5:
                st = ("for", st[1], st[2], _hoist_asserts(st[3]), _hoist_asserts(st[4]))
            elif st[0] == "while" and len(st) == 4:
                st = ("while", st[1], _hoist_asserts(st[2]), _hoist_asserts(st[3]))
        out.append(st)
    return tuple(out)


def _switch_normal_form(block: tuple) -> tuple:
    """a chain of tests of ONE subject against symbolic constants (strings, enumeration members) -- if / elif in any order, a
    membership test in a constant table, a test turned round with the arms exchanged -- is stored with its cases in a fixed
    order; in a case for a single constant the subject *is* that constant (so ``table[key]`` is the table's entry and
    ``params[key]`` is ``params['center']``); a case for several constants whose body reads a constant table at the subject is
    one case per constant"""
    def assigned(body, x):
        return bool(atoms_of(body, lambda y: (y[0] in ("set", "for") and len(y) >= 3 and (y[1] == x or (isinstance(y[1], tuple) and y[1][:1] == ("tuple",) and x in y[1][1])))
                             or (y[0] == "aug" and len(y) == 4 and y[2] == x) or (y[0] == "mset" and x in y[1])))

    def collect(st, subj):
        """[(constants, body)], default body -- following the chain while the tests are about ``subj``"""
        t = _case_test(st[1])
        if t is None or t[0] != subj:
            return None
        _, ks, pos = t
        then, other = (st[2], st[3]) if pos else (st[3], st[2])
        arms = [(ks, tuple(then))]
        if len(other) == 1 and isinstance(other[0], tuple) and other[0][:1] == ("if",) and len(other[0]) == 4:
            more = collect(other[0], subj)
            if more is not None:
                return arms + more[0], more[1]
        return arms, tuple(other)

    def rebuild(st):
        t = _case_test(st[1])
        if t is None or _has_effectful_call(st[1]):
            return st
        subj = t[0]
        got = collect(st, subj)
        if got is None:
            return st
        arms, default = got
        if any(assigned(b, subj) for _, b in arms) or assigned(default, subj):
            return st
        seen: set = set()
        cases = []
        for ks, body in arms:
            ks = frozenset(k for k in ks if k not in seen)
            seen |= ks
            if not ks:
                continue
            reads_table = bool(atoms_of(body, lambda y: y[0] == "s" and len(y) == 3 and y[2] == subj and isinstance(y[1], tuple) and y[1][:1] == ("dict",)))
            groups = [frozenset([k]) for k in sorted(ks, key=skey)] if reads_table else [ks]
            for g in groups:
                b = body
                if len(g) == 1:
                    b = _renorm_local(Sigma(raw_subst={subj: next(iter(g))}).apply(body))
                cases.append((g, tuple(b)))
        if len(cases) < 2 and not (len(cases) == 1 and len(cases[0][0]) == 1):
            return st
        # cases with the same body are one case
        merged: dict = {}
        for g, b in cases:
            merged[b] = merged.get(b, frozenset()) | g
        cases = sorted(((g, b) for b, g in merged.items()), key=lambda gb: skey(tuple(sorted(gb[0], key=skey))))
        out = tuple(default)
        for g, b in reversed(cases):
            test = mk_or([("cmp", "seq") + tuple(sorted([subj, k], key=skey)) for k in sorted(g, key=skey)])
            if not b and not out:
                continue
            out = (mk_if(test, b, out),)
        return out[0] if len(out) == 1 else ("seq", out)

    def rec(blk):
        out = []
        for st in blk:
            if isinstance(st, tuple) and st:
                if st[0] == "if" and len(st) == 4:
                    st = ("if", st[1], rec(st[2]), rec(st[3]))
                    st = rebuild(st)
                    if isinstance(st, tuple) and st[:1] == ("seq",):
                        out.extend(st[1])
                        continue
                elif st[0] == "for" and len(st) == 5:
                    st = ("for", st[1], st[2], rec(st[3]), rec(st[4]))
                elif st[0] == "while" and len(st) == 4:
                    st = ("while", st[1], rec(st[2]), rec(st[3]))
            out.append(st)
        return tuple(out)
    return rec(block)


def _plain_path(x) -> bool:
    if not isinstance(x, tuple):
        return False
    if x[:1] in (("v",), ("p",)) or (x[:1] == ("a",) and len(x) == 3 and (x[1] == ("self",) or _plain_path(x[1]))):
        return True
    # an item of a plain sequence at a constant / variable position
    return x[:1] == ("s",) and len(x) == 3 and _plain_path(x[1]) and isinstance(x[2], tuple) and x[2][:1] in (("k",), ("v",), ("p",))


def _unroll_asserts(block: tuple) -> tuple:
    """a loop over a few constants whose body only asserts is those assertions, one per value; an asserted conjunction is one
    assertion per conjunct"""
    out = []
    for st in block:
        if isinstance(st, tuple) and st:
            if st[0] == "for" and len(st) == 5 and not st[4] and isinstance(st[1], tuple) and st[1][:1] == ("v",) and st[3] \
                    and all(isinstance(b, tuple) and b[:1] == ("assert",) for b in st[3]):
                items = None
                it = st[2]
                if isinstance(it, tuple) and it[:2] == ("c", ("g", "range")) and len(it[2]) == 1 and is_num(it[2][0]) and not it[3]:
                    n = num_value(it[2][0])
                    if n.denominator == 1 and 0 <= n <= 8:
                        items = [k_num(j) for j in range(int(n))]
                elif isinstance(it, tuple) and it[:1] in (("tuple",), ("list",)) and len(it) == 2 and len(it[1]) <= 8:
                    items = list(it[1])
                if items is not None:
                    for item in items:
                        sg = Sigma(raw_subst={st[1]: item})
                        out.extend(_unroll_asserts(tuple(sg.apply(b) for b in st[3])))
                    continue
            if st[0] == "assert" and len(st) == 2 and isinstance(st[1], tuple) and st[1][:1] == ("and",):
                out.extend(("assert", c) for c in st[1][1])
                continue
            if st[0] == "if" and len(st) == 4:
                st = ("if", st[1], _unroll_asserts(st[2]), _unroll_asserts(st[3]))
            elif st[0] == "for" and len(st) == 5:
                st = ("for", st[1], st[2], _unroll_asserts(st[3]), _unroll_asserts(st[4]))
            elif st[0] == "while" and len(st) == 4:
                st = ("while", st[1], _unroll_asserts(st[2]), _unroll_asserts(st[3]))
        out.append(st)
    return tuple(out)


def _const_item(x) -> bool:
    if isinstance(x, tuple) and x:
        if x[0] == "k" or _is_sym_const(x):
            return True
        if x[0] in ("tuple", "list") and len(x) == 2:
            return all(_const_item(y) for y in x[1])
    return False


def _unroll_const_loops(block: tuple) -> tuple:
    """a loop over a display of a few constants (``for dr, dc in ((1, 0), (0, 1)): body``) is its body once per constant, with the
    constant in place of the loop variable (no break / continue of its own in the body)"""
    def jumps(body):
        for x in body:
            if isinstance(x, tuple) and x:
                if x[0] in ("break", "continue"):
                    return True
                if x[0] == "if" and len(x) == 4 and (jumps(x[2]) or jumps(x[3])):
                    return True
        return False
    out = []
    for st in block:
        if isinstance(st, tuple) and st:
            if st[0] == "for" and len(st) == 5:
                st = ("for", st[1], st[2], _unroll_const_loops(st[3]), _unroll_const_loops(st[4]))
                it = st[2]
                if not st[4] and isinstance(it, tuple) and it[:1] in (("tuple",), ("list",)) and len(it) == 2 and 2 <= len(it[1]) <= 4 \
                        and all(_const_item(y) for y in it[1]) and not jumps(st[3]):
                    ok = True
                    copies = []
                    for item in it[1]:
                        mp = _match_target(st[1], item)
                        if mp is None or not all(k[:1] == ("v",) for k in mp):
                            ok = False
                            break
                        copies.extend(_renorm_local(Sigma(raw_subst=mp).apply(b)) for b in st[3])
                    assigned = atoms_of(st[3], lambda y: (y[0] == "set" and len(y) == 3 and (y[1] == st[1] or (st[1][:1] == ("tuple",) and y[1] in st[1][1])))
                                        or (y[0] == "aug" and len(y) == 4 and (y[2] == st[1] or (st[1][:1] == ("tuple",) and y[2] in st[1][1]))))
                    if ok and not assigned:
                        out.extend(copies)
                        continue
            elif st[0] == "if" and len(st) == 4:
                st = ("if", st[1], _unroll_const_loops(st[2]), _unroll_const_loops(st[3]))
            elif st[0] == "while" and len(st) == 4:
                st = ("while", st[1], _unroll_const_loops(st[2]), _unroll_const_loops(st[3]))
        out.append(st)
    return tuple(out)


def _chained(it: S) -> S:
    """walking ``itertools.chain(a, b)`` is walking ``a + b``"""
    if isinstance(it, tuple) and len(it) == 4 and it[0] == "c" and it[1] in (("a", ("g", "itertools"), "chain"), ("g", "chain")) and len(it[2]) >= 2 and not it[3]:
        p = to_poly(it[2][0])
        for y in it[2][1:]:
            p = p + to_poly(y)
        return p.to_s()
    return it


def _renorm_local(x: S) -> S:
    """the rewrites that the canonicaliser applies when it sees a construct, applied again after locals have been looked
    through (so that the normal form does not depend on whether a value sat in a local): tests (`len(x) > 0` is `x`),
    consumers of a list comprehension, isinstance with several types, list(map(lambda ...)), d.get"""
    if not isinstance(x, tuple) or not x:
        return x
    x = tuple(_renorm_local(y) for y in x)
    t = x[0]
    if t == "if" and len(x) == 4:
        return ("if", _truth(x[1]), x[2], x[3])
    if t == "while" and len(x) == 4:
        return ("while", _truth(x[1]), x[2], x[3])
    if t == "assert" and len(x) == 2:
        return ("assert", _truth(x[1]))
    if t == "ite" and len(x) == 4:
        return mk_ite(_truth(x[1]), x[2], x[3])
    if t == "not" and len(x) == 2:
        return mk_not(_truth(x[1]))
    if t == "and" and len(x) == 2 and isinstance(x[1], tuple):
        return mk_and([_truth(y) for y in x[1]])
    if t == "or" and len(x) == 2 and isinstance(x[1], tuple):
        return mk_or([_truth(y) for y in x[1]])
    if t == "comp" and len(x) == 4:
        return ("comp", x[1], x[2], tuple((g[0], _chained(g[1]), _truth(g[2])) for g in x[3]))
    if t == "for" and len(x) == 5:
        return ("for", x[1], _chained(x[2]), x[3], x[4])
    # a constant table read at one of its keys; membership in a constant table
    if t == "s" and len(x) == 3 and isinstance(x[1], tuple) and x[1][:1] == ("dict",) and len(x[1]) == 2 and _is_sym_const(x[2]) \
            and all(_is_sym_const(k) for k, _ in x[1][1]):
        hits = [v for k, v in x[1][1] if k == x[2]]
        if len(hits) == 1:
            return hits[0]
    if t == "cmp" and len(x) == 4 and x[1] in ("in", "notin") and isinstance(x[3], tuple) and x[3][:1] == ("dict",) and len(x[3]) == 2 and x[3][1] \
            and all(_is_sym_const(k) for k, _ in x[3][1]):
        eqs = [("cmp", "seq") + tuple(sorted([x[2], k], key=skey)) for k, _ in x[3][1]]
        return mk_or(eqs) if x[1] == "in" else mk_not(mk_or(eqs))
    # an item of a conditional record: (A if c else B)[k] == A[k] if c else B[k]
    if t in ("s", "proj") and isinstance(x[1], tuple) and x[1][:1] == ("ite",) and len(x[1]) == 4 \
            and all(isinstance(arm, tuple) and arm[:1] in (("tuple",), ("list",)) and len(arm) == 2 for arm in x[1][2:4]):
        k = x[2] if t == "proj" else (int(num_value(x[2])) if is_num(x[2]) and num_value(x[2]).denominator == 1 else None)
        if isinstance(k, int) and all(-len(arm[1]) <= k < len(arm[1]) for arm in x[1][2:4]):
            return mk_ite(x[1][1], x[1][2][1][k], x[1][3][1][k])
    if t == "proj" and len(x) == 4 and isinstance(x[2], int) and _plain_path(x[1]):
        return ("s", x[1], k_num(x[2]))        # a, b, c = seq  reads  seq[0], seq[1], seq[2]
    if t == "c" and len(x) == 4 and x[1] in (("g", "all"), ("g", "any")) and len(x[2]) == 1 and not x[3] and isinstance(x[2][0], tuple) \
            and x[2][0][:1] == ("comp",) and len(x[2][0][3]) == 1 and len(x[2][0][2]) == 1:
        # all(p(v) for v in (a, b, c))  ==  p(a) and p(b) and p(c)   (a display of a few items)
        (bv, it, cond), = x[2][0][3]
        if isinstance(it, tuple) and it[:1] in (("tuple",), ("list",)) and len(it) == 2 and 1 <= len(it[1]) <= 8 and isinstance(bv, tuple) and bv[:1] == ("b",):
            insts = []
            for item in it[1]:
                sg = Sigma(raw_subst={bv: item})
                e_, c_ = sg.apply(x[2][0][2][0]), sg.apply(cond)
                if x[1][1] == "all":
                    insts.append(e_ if c_ == K_TRUE else mk_or([mk_not(c_), e_]))
                else:
                    insts.append(e_ if c_ == K_TRUE else mk_and([c_, e_]))
            if not any(_free_bound(i_) for i_ in insts):
                return mk_and(insts) if x[1][1] == "all" else mk_or(insts)
    if t == "concat" and len(x) == 3 and is_str(x[1]) and is_str(x[2]):
        return k_str(x[1][2] + x[2][2])        # 'east' + '_border0' is the name 'east_border0'
    if t == "cmp" and len(x) == 4 and x[1] in ("is", "isnot") and K_NONE in (x[2], x[3]):
        from .peval import fold as _fold           # (T if c else None) is None  ==  not c
        return _fold(x)
    if t == "c" and len(x) == 4 and isinstance(x[1], tuple) and x[1][:2] == ("a", ("g", "operator")) and len(x[2]) == 2 and not x[3]:
        cmp_ops = {"lt": "Lt", "le": "LtE", "gt": "Gt", "ge": "GtE", "eq": "Eq", "ne": "NotEq"}
        if x[1][2] in cmp_ops:
            return Canon.compare(cmp_ops[x[1][2]], x[2][0], x[2][1])
    if t == "c" and len(x) == 4 and isinstance(x[1], tuple):
        fn, args, kwargs = x[1], x[2], x[3]
        if fn[:1] == ("g",) and fn[1] in _CONSUMERS and len(args) >= 1 and isinstance(args[0], tuple) and args[0][:2] == ("comp", "list"):
            return ("c", fn, (("comp", "gen") + tuple(args[0][2:]),) + tuple(args[1:]), kwargs)
        if fn == ("g", "isinstance") and len(args) == 2 and not kwargs and isinstance(args[1], tuple) and args[1][:1] == ("tuple",) and args[1][1]:
            return mk_or([("c", fn, (args[0], ty), ()) for ty in args[1][1]])
        if fn == ("g", "list") and len(args) == 1 and not kwargs and isinstance(args[0], tuple) and args[0][:2] == ("c", ("g", "map")) \
                and len(args[0][2]) == 2 and isinstance(args[0][2][0], tuple) and args[0][2][0][:2] == ("lambda", 1):
            return ("comp", "list", (args[0][2][0][2],), ((("b", 1, 0), args[0][2][1], K_TRUE),))
    return x


def _guard_knowledge(block: tuple) -> tuple:
    """what a guard has established is used in the statements right after it: after ``if not c: return`` a value written
    ``(e if c else None)`` is ``e``.  Only the run of plain value statements (assignments of locals, nested conditionals on values,
    the return) that follows the guard is read that way -- nothing that could change what the test looked at comes in between."""
    from .peval import assume

    def pure_run(stmts):
        n = 0
        for st in stmts:
            if isinstance(st, tuple) and st and (st[0] in ("ret", "assert") or (st[0] == "set" and len(st) == 3 and isinstance(st[1], tuple) and st[1][:1] == ("v",))) \
                    and not _has_effectful_call(st):
                n += 1
            else:
                break
        return n

    def in_arm(arm, cond, truth):
        """the first statement of an arm is evaluated in the light of the test (its value is computed before anything is stored);
        the plain value statements that follow it likewise"""
        arm = tuple(arm)
        if not arm or _has_effectful_call(cond) or not atoms_of(arm[:1] + arm[1:1 + pure_run(arm[1:])], lambda y: y[0] == "ite"):
            return arm
        first = arm[0]
        n = 0
        if isinstance(first, tuple) and first and first[0] in ("set", "ret", "expr", "assert", "aug") and not (first[0] == "set" and _has_effectful_call(first[2]) and False):
            if first[0] == "set" and len(first) == 3:
                new_first = ("set", first[1], assume(first[2], cond, truth))
            elif first[0] == "aug" and len(first) == 4:
                new_first = ("aug", first[1], first[2], assume(first[3], cond, truth))
            else:
                new_first = assume(first, cond, truth)
            is_plain = first[0] in ("ret", "assert") or (first[0] == "set" and len(first) == 3 and first[1][:1] == ("v",) and not _has_effectful_call(first[2]))
            n = pure_run(arm[1:]) if is_plain else 0
            return (new_first,) + tuple(assume(tuple(arm[1:1 + n]), cond, truth)) + arm[1 + n:]
        return arm

    def rec(blk):
        out = list(blk)
        for i, st in enumerate(out):
            if isinstance(st, tuple) and st:
                if st[0] == "if" and len(st) == 4:
                    out[i] = st = ("if", st[1], in_arm(rec(st[2]), st[1], True), in_arm(rec(st[3]), st[1], False))
                    if st[3] == () and _ends_in_exit(st[2]) and not _has_effectful_call(st[1]) and atoms_of(tuple(out[i + 1:]), lambda y: y[0] == "ite"):
                        n = pure_run(out[i + 1:])
                        if n:
                            out[i + 1:i + 1 + n] = list(assume(tuple(out[i + 1:i + 1 + n]), st[1], False))
                elif st[0] == "for" and len(st) == 5:
                    out[i] = ("for", st[1], st[2], rec(st[3]), rec(st[4]))
                elif st[0] == "while" and len(st) == 4:
                    out[i] = ("while", st[1], rec(st[2]), rec(st[3]))
        return tuple(out)
    return rec(block)


def _flat_if(st: S) -> S:
    """``if a: (if b: B)`` with nothing else in either is ``if a and b: B``"""
    while isinstance(st, tuple) and len(st) == 4 and st[0] == "if" and st[3] == () and len(st[2]) == 1 \
            and isinstance(st[2][0], tuple) and len(st[2][0]) == 4 and st[2][0][0] == "if" and st[2][0][3] == ():
        st = ("if", mk_and([st[1], st[2][0][1]]), st[2][0][2], ())
    return st


def _truth(c: S) -> S:
    """a test: ``len(x) > 0`` asks whether the container x is non-empty, which is what ``x`` itself asks"""
    if isinstance(c, tuple) and c:
        if c[0] == "lt0":
            p = to_poly(c[1])
            if len(p.t) == 1:
                (m, coef), = p.t.items()
                if coef == -1 and len(m) == 1 and m[0][1] == 1 and isinstance(m[0][0], tuple) and m[0][0][:2] == ("c", ("g", "len")) \
                        and len(m[0][0][2]) == 1 and not m[0][0][3]:
                    return m[0][0][2][0]
            return c
        if c[0] == "not":
            return mk_not(_truth(c[1]))
        if c[0] == "and":
            return mk_and([_truth(x) for x in c[1]])
        if c[0] == "or":
            return mk_or([_truth(x) for x in c[1]])
    return c


def _merge_guard_chain(stmts: list[S]) -> list[S]:
    """Normal form of conditionals with an exiting arm, then merging of guard chains.

    * ``if c: ...; return  else: rest`` is ``if c: ...; return`` followed by ``rest`` (whichever arm exits);
    * when both the guarded arm and the rest of the block visibly end in an exit, the guard is the arm with the
      positive test (``if not c: return a`` ; ``return b``  ==  ``if c: return b`` ; ``return a``);
    * ``if c1: return v`` ; ``if c2: return v``  ==>  ``if c1 or c2: return v`` (consecutive guards with an identical
      exiting body and no else-branch)."""
    def guard(c: S, body: tuple, follow: list) -> list:
        # both ways end with the same statements (the same computed value is returned): those come once, after the conditional
        if _ends_in_exit(body) and _ends_in_exit(follow):
            k = 0
            while k < len(body) and k < len(follow) and body[len(body) - 1 - k] == follow[len(follow) - 1 - k]:
                k += 1
            last = body[-1]
            if k and last[0] == "ret" and (last[1] == K_NONE or not (isinstance(last[1], tuple) and last[1][:1] == ("k",))):
                b1, b2, common = tuple(body[:len(body) - k]), tuple(follow[:len(follow) - k]), list(follow[len(follow) - k:])
                if not b1 and not b2:
                    return ([("expr", c)] if _has_effectful_call(c) else []) + common
                if not b1:
                    return _merge_guard_chain([_flat_if(("if", mk_not(c), b2, ()))]) + common
                return _merge_guard_chain([_flat_if(mk_if(c, b1, b2))]) + common
        g = ("if", c, tuple(body), ())
        # if a: (if b: T; R); R   ==   if a and b: T; R
        while g[2] and isinstance(g[2][0], tuple) and len(g[2][0]) == 4 and g[2][0][0] == "if" and g[2][0][3] == () \
                and _ends_in_exit(g[2][0][2]) and list(g[2][1:]) == list(follow) and _ends_in_exit(follow):
            g = ("if", mk_and([g[1], g[2][0][1]]), g[2][0][2], ())
        return [g] + list(follow)

    tail: list[S] = []
    for st in reversed(list(stmts)):
        if isinstance(st, tuple) and len(st) == 4 and st[0] == "if" and st[2]:
            c, then, orelse = st[1], st[2], st[3]
            if orelse:
                t_exit, e_exit = _ends_in_exit(then), _ends_in_exit(orelse)
                if t_exit and e_exit:
                    if _negative(c):
                        c, then, orelse = mk_not(c), orelse, then
                    tail = guard(c, then, list(orelse)) + tail
                    continue
                if t_exit:
                    tail = guard(c, then, list(orelse)) + tail
                    continue
                if e_exit:
                    tail = guard(mk_not(c), orelse, list(then)) + tail
                    continue
            elif _ends_in_exit(then) and _ends_in_exit(tail):
                tail = guard(mk_not(c), tuple(tail), list(then)) if _negative(c) else guard(c, then, tail)
                continue
            if orelse and not _ends_in_exit(then) and not _ends_in_exit(orelse):
                # both arms end with the same statements: those come once, after the conditional
                k = 0
                while k < len(then) and k < len(orelse) and then[len(then) - 1 - k] == orelse[len(orelse) - 1 - k]:
                    k += 1
                if k:
                    a, b, common = tuple(then[:len(then) - k]), tuple(orelse[:len(orelse) - k]), list(then[len(then) - k:])
                    if a or b:
                        head = [_flat_if(mk_if(c, a, b))]
                    else:
                        head = [("expr", c)] if _has_effectful_call(c) else []
                    tail = head + common + tail
                    continue
        tail = [st] + tail
    out: list[S] = []
    for st in tail:
        if out and _is_guard(st) and _is_guard(out[-1]) and out[-1][2] == st[2]:
            prev = out.pop()
            out.append(("if", mk_or([prev[1], st[1]]), st[2], ()))
        else:
            out.append(st)
    return out


def _is_guard(st: S) -> bool:
    return isinstance(st, tuple) and len(st) == 4 and st[0] == "if" and st[3] == () and st[2] \
        and isinstance(st[2][-1], tuple) and st[2][-1][0] in _EXITS


def is_str(s: S) -> bool:
    return isinstance(s, tuple) and len(s) == 3 and s[0] == "k" and s[1] == "str"


def _is_strlike(s: S) -> bool:
    return isinstance(s, tuple) and s and (is_str(s) or s[0] in ("concat", "fstr") or
                                           (s[0] == "c" and s[1] == ("g", "str")))


def project_field(base: S, name: str) -> S:
    """Shape(a, b).w -> a  (field projection on the small value records), otherwise the attribute node"""
    if isinstance(base, tuple) and len(base) == 4 and base[0] == "c" and isinstance(base[1], tuple) and base[1][0] == "g" \
            and base[1][1] in PAIR_FIELDS:
        f = PAIR_FIELDS[base[1][1]]
        args, kwargs = base[2], dict(base[3])
        if name in f:
            i = f.index(name)
            if name in kwargs:
                return kwargs[name]
            if i < len(args) and len(args) + len(kwargs) == 2:
                return args[i]
    return ("a", base, name)


def contains(s: S, sub: S) -> bool:
    if s == sub:
        return True
    if isinstance(s, tuple):
        return any(contains(x, sub) for x in s)
    return False


def subst(s: S, mapping: dict) -> S:
    """Structural substitution followed by re-normalisation."""
    return Sigma(raw_subst=mapping).apply(s)


def fold_sums(block: tuple) -> tuple:
    """Accumulator recognition: ``acc = init; ...; for v in it: acc += e`` (the whole loop body being such additions to
    distinct locals that neither the addends nor the statements in between mention) becomes
    ``acc = init + sum(e for v in it)`` at the position of the loop, the form the comprehension spelling of the same
    computation has.  Loops of any other shape are left alone."""
    out: list = []
    for st in block:
        if not isinstance(st, tuple) or not st:
            out.append(st)
            continue
        if st[0] == "for" and len(st) == 5 and not st[4] and isinstance(st[1], tuple) and st[1][:1] == ("v",) and st[3]:
            body = st[3]
            accs = [b[2] for b in body if isinstance(b, tuple) and b[:2] == ("aug", "Add")]
            simple = (len(accs) == len(body) and len(set(accs)) == len(accs) and all(isinstance(a, tuple) and a[:1] == ("v",) for a in accs)
                      and not any(contains(b[3], a) for b in body for a in accs)
                      and not any(atoms_of(b[3], lambda x: x[0] == "comp") for b in body)
                      and not any(contains(st[2], a) for a in accs))
            if simple:
                inits = {}
                for a in accs:
                    for i in range(len(out) - 1, -1, -1):
                        o = out[i]
                        if o is not None and contains(o, a):
                            if isinstance(o, tuple) and o[:2] == ("set", a) and not contains(o[2], a):
                                inits[a] = i
                            break
                if len(inits) == len(accs):
                    b0 = ("b", 1, 0)
                    for b in body:
                        i = inits[b[2]]
                        elt = subst(b[3], {st[1]: b0})
                        total = ("c", ("g", "sum"), (("comp", "gen", (elt,), ((b0, st[2], K_TRUE),)),), ())
                        init = out[i][2]
                        out[i] = None
                        out.append(("set", b[2], (to_poly(init) + to_poly(total)).to_s()))
                    continue
        if st[0] == "if" and len(st) == 4:
            st = ("if", st[1], fold_sums(st[2]), fold_sums(st[3]))
        elif st[0] in ("for", "while") and len(st) in (4, 5):
            st = st[:-2] + (fold_sums(st[-2]), fold_sums(st[-1]))
        out.append(st)
    return tuple(o for o in out if o is not None)


def atoms_of(s: S, pred: Callable[[S], bool]) -> list[S]:
    out = []

    def rec(x):
        if isinstance(x, tuple):
            try:
                ok = bool(x) and pred(x)
            except (IndexError, TypeError):
                ok = False
            if ok:
                out.append(x)
            for y in x:
                rec(y)
    rec(s)
    return out


# ------------------------------------------------------------------ involution
def _has_bound(s: S) -> bool:
    if isinstance(s, tuple):
        if len(s) == 3 and s[0] == "b" and isinstance(s[1], int):
            return True
        return any(_has_bound(x) for x in s)
    return False


def _shift_bound(s: S, by: int, level: int = 0) -> S:
    """the free bound-variable references of a term that is moved ``by`` comprehension levels inwards (references bound
    by a comprehension / lambda inside the term itself stay as they are)"""
    if isinstance(s, tuple):
        if len(s) == 3 and s[0] == "b" and isinstance(s[1], int):
            return ("b", s[1] + by, s[2]) if s[1] > level else s
        if s and s[0] in ("comp", "lambda"):
            return tuple(_shift_bound(x, by, level + 1) for x in s)
        return tuple(_shift_bound(x, by, level) for x in s)
    return s


def _free_bound(s: S, level: int = 0) -> bool:
    """does the term refer to a variable of a comprehension / lambda that encloses it?"""
    if isinstance(s, tuple):
        if len(s) == 3 and s[0] == "b" and isinstance(s[1], int):
            return s[1] > level
        if s and s[0] in ("comp", "lambda"):
            return any(_free_bound(x, level + 1) for x in s)
        return any(_free_bound(x, level) for x in s)
    return False


def copy_sigma(sg: "Sigma", raw_subst: dict) -> "Sigma":
    import dataclasses
    return dataclasses.replace(sg, raw_subst=raw_subst)


@dataclass
class Sigma:
    """A renaming / involution applied to canonical forms."""
    attrs: dict[str, str] = field(default_factory=dict)
    names: dict[str, str] = field(default_factory=dict)        # ('g', name)
    strings: dict[str, str] = field(default_factory=dict)
    kwnames: dict[str, str] = field(default_factory=dict)
    swap_ctors: set = field(default_factory=set)                # ('g', ctor) whose two positional args are swapped
    swap_calls: dict = field(default_factory=dict)              # callee S -> tuple permutation of positional args
    params: dict[int, int] = field(default_factory=dict)        # ('p', i) -> ('p', j)
    dual: bool = False                                          # reverse order comparisons
    eps: Optional[Callable[[S], bool]] = None                   # tolerance atoms (keep their side under dual)
    minmax: bool = False                                        # min <-> max
    raw_subst: dict = field(default_factory=dict)               # S -> S (exact sub-term replacement)
    selfswap: Optional[tuple] = None                            # (S, S): swap two roots (e.g. self <-> p0)
    index_swap: set = field(default_factory=set)                # bases whose double subscript [i][j] is transposed
    word_map: dict[str, str] = field(default_factory=dict)      # replace words inside string constants

    def apply(self, s: S) -> S:
        return self._ap(s)

    def _ap_children(self, s: S) -> S:
        return self._ap(s)

    # helpers
    def _str(self, v: str) -> str:
        if v in self.strings:
            return self.strings[v]
        if self.word_map:
            out = v
            # simultaneous replacement via placeholders
            for i, (a, b) in enumerate(self.word_map.items()):
                out = out.replace(a, f"\0{i}\0")
            for i, (a, b) in enumerate(self.word_map.items()):
                out = out.replace(f"\0{i}\0", b)
            return out
        return v

    def _poly(self, s: S, flip_noneps: bool = False) -> Poly:
        """map atoms; when flip_noneps, negate every monomial that has no eps atom
        (i.e. p[eps -> -eps] negated as a whole)."""
        p = to_poly(s) if (isinstance(s, tuple) and s and s[0] == "poly") or is_num(s) else None
        if p is None:
            a = self._ap(s)
            p2 = to_poly(a)
            if flip_noneps and not (self.eps and self.eps(s)):
                return -p2
            return p2
        out = Poly()
        for m, c in p.t.items():
            term = Poly.const(c)
            has_eps = False
            for a, pw in m:
                if self.eps and self.eps(a):
                    has_eps = True
                pa = to_poly(self._ap(a))
                for _ in range(pw):
                    term = term * pa
            if flip_noneps and not has_eps:
                term = -term
            out = out + term
        return out

    def _ap(self, s: S) -> S:
        if not isinstance(s, tuple) or not s:
            return s
        if self.raw_subst and s in self.raw_subst:
            return self.raw_subst[s]
        if self.raw_subst and s[0] in ("comp", "lambda") and (any(isinstance(k, tuple) and k[:1] == ("b",) for k in self.raw_subst) or
                                                              any(_has_bound(v) for v in self.raw_subst.values())):
            # inside a nested comprehension / lambda the variables of the enclosing one are one level further away
            inner = copy_sigma(self, {(("b", k[1] + 1, k[2]) if isinstance(k, tuple) and k[:1] == ("b",) else k): _shift_bound(v, 1)
                                      for k, v in self.raw_subst.items()})
            if s[0] == "lambda":
                return ("lambda", s[1], inner._ap_children(s[2]))
            return ("comp", s[1], tuple(inner._ap_children(x) for x in s[2]),
                    tuple((g[0], inner._ap_children(g[1]), inner._ap_children(g[2])) for g in s[3]))
        if self.selfswap:
            if s == self.selfswap[0]:
                return self.selfswap[1]
            if s == self.selfswap[1]:
                return self.selfswap[0]
        tag = s[0]
        if tag == "k":
            if s[1] == "str":
                return k_str(self._str(s[2]))
            return s
        if tag == "g":
            return ("g", self.names.get(s[1], s[1]))
        if tag == "p":
            return ("p", self.params.get(s[1], s[1]))
        if tag in ("self", "v", "b", "u", "l", "pk", "pv", "pkw", "clsarg"):
            return s
        if tag == "a" and len(s) == 3 and isinstance(s[2], str):
            return project_field(self._ap(s[1]), self.attrs.get(s[2], s[2]))
        if tag == "poly":
            return self._poly(s).to_s()
        if tag == "lt0":
            if self.dual:
                return ("lt0", self._poly(s[1], flip_noneps=True).to_s())
            return ("lt0", self._poly(s[1]).to_s())
        if tag in ("eq0", "ne0"):
            return (tag, self._poly(s[1]).leading_sign_normalised().to_s())
        if tag == "not":
            return mk_not(self._ap(s[1]))
        if tag == "and":
            return mk_and([self._ap(x) for x in s[1]])
        if tag == "or":
            return mk_or([self._ap(x) for x in s[1]])
        if tag == "c":
            fn = self._ap(s[1])
            if self.minmax and fn in (("g", "min"), ("g", "max")):
                fn = ("g", "max") if fn == ("g", "min") else ("g", "min")
            args = [self._ap(x) for x in s[2]]
            kwargs = [(self.kwnames.get(k, k), self._ap(v)) for k, v in s[3]]
            if s[1] in self.swap_ctors and len(args) == 2 and not kwargs:
                args = [args[1], args[0]]
            elif s[1] in self.swap_calls:
                perm = self.swap_calls[s[1]]
                if len(args) == len(perm):
                    args = [args[i] for i in perm]
            return mk_call(fn, args, kwargs)
        if tag == "if":
            return mk_if(self._ap(s[1]), self._ap(s[2]), self._ap(s[3]))
        if tag == "ite":
            return mk_ite(self._ap(s[1]), self._ap(s[2]), self._ap(s[3]))
        if tag == "s":
            # transposition of a[i][j] for selected bases
            if self.index_swap and isinstance(s[1], tuple) and s[1] and s[1][0] == "s" and s[1][1] in self.index_swap:
                return ("s", ("s", self._ap(s[1][1]), self._ap(s[2])), self._ap(s[1][2]))
            return ("s", self._ap(s[1]), self._ap(s[2]))
        if tag == "set" and len(s) == 2:
            return ("set", tuple(sorted((self._ap(x) for x in s[1]), key=skey)))
        if tag == "cmp":
            a, b = self._ap(s[2]), self._ap(s[3])
            if s[1] in ("seq", "sne"):
                a, b = sorted([a, b], key=skey)
            return ("cmp", s[1], a, b)
        return tuple(self._ap(x) for x in s)


def compose(*sigmas: Sigma) -> Callable[[S], S]:
    def f(s: S) -> S:
        for sg in sigmas:
            s = sg.apply(s)
        return s
    return f


# ------------------------------------------------------------------- helpers
def canon_function(fi: FuncInfo, model: Optional[Model] = None, opts: Optional[CanonOptions] = None, normal: bool = True,
                   expand: bool = False) -> tuple:
    """canonical form of a function.  normal: inlining-independent normal form (see normalize).  expand: additionally
    look through every single-definition local that is not mutated, even when its definition contains a call and it
    is used several times (for rules that match shapes and do not care about the identity of call results)."""
    c = Canon(fi, model, opts).function()
    if expand:
        return normalize(c, keep_identity=False)
    return normalize(c) if normal else c


def canon_statements(fi: FuncInfo, stmts: list[ast.stmt], model: Optional[Model] = None,
                     opts: Optional[CanonOptions] = None, prelude: Optional[list[ast.stmt]] = None) -> tuple:
    """Canonical form of a statement region of ``fi``.  Statements of the
    function that precede the region are walked first so that single-definition
    locals defined earlier are inlined."""
    c = Canon(fi, model, opts)
    if prelude:
        c.block(prelude)
    return c.block(stmts)


def show(s: S, depth: int = 0) -> str:
    """Readable rendering of a canonical form (for reports)."""
    if not isinstance(s, tuple) or not s:
        return repr(s)
    t = s[0]
    if t == "k":
        if s[1] == "num":
            n, d = s[2]
            return str(n) if d == 1 else f"{n}/{d}"
        if s[1] == "str":
            return repr(s[2])
        if s[1] == "bool":
            return str(s[2])
        if s[1] == "none":
            return "None"
        return str(s[2]) if len(s) > 2 else s[1]
    if t == "g":
        return s[1]
    if t == "self":
        return "self"
    if t == "p":
        return f"$p{s[1]}"
    if t == "v":
        return f"$v{s[1]}"
    if t == "b":
        return f"$b{s[1]}_{s[2]}"
    if t in ("u", "l"):
        return s[1]
    if t == "a":
        return f"{show(s[1])}.{s[2]}"
    if t == "s":
        return f"{show(s[1])}[{show(s[2])}]"
    if t == "c":
        args = [show(a) for a in s[2]] + [f"{k}={show(v)}" for k, v in s[3]]
        return f"{show(s[1])}({', '.join(args)})"
    if t == "poly":
        parts = []
        for m, c in s[1]:
            coef = Fraction(c[0], c[1])
            mon = "*".join(show(a) + (f"^{p}" if p != 1 else "") for a, p in m)
            if not mon:
                parts.append(str(coef))
            elif coef == 1:
                parts.append(mon)
            elif coef == -1:
                parts.append("-" + mon)
            else:
                parts.append(f"{coef}*{mon}")
        return "(" + " + ".join(parts) + ")"
    if t == "lt0":
        return f"{show(s[1])} < 0"
    if t == "eq0":
        return f"{show(s[1])} == 0"
    if t == "ne0":
        return f"{show(s[1])} != 0"
    if t == "not":
        return f"not({show(s[1])})"
    if t in ("and", "or"):
        return "(" + f" {t} ".join(show(x) for x in s[1]) + ")"
    if t == "inv":
        return f"1/({show(s[1])})"
    if t == "ret":
        return f"return {show(s[1])}"
    if t == "set" and len(s) == 3:
        return f"{show(s[1])} = {show(s[2])}"
    if t == "assert":
        return f"assert {show(s[1])}"
    if t == "expr":
        return show(s[1])
    if t == "if":
        return f"if {show(s[1])}: [{'; '.join(show(x) for x in s[2])}] else: [{'; '.join(show(x) for x in s[3])}]"
    if t == "for":
        return f"for {show(s[1])} in {show(s[2])}: [{'; '.join(show(x) for x in s[3])}]"
    if t == "tuple":
        return "(" + ", ".join(show(x) for x in s[1]) + ")"
    if t == "list":
        return "[" + ", ".join(show(x) for x in s[1]) + "]"
    if t == "cmp":
        return f"{show(s[2])} {s[1]} {show(s[3])}"
    if t == "ite":
        return f"({show(s[2])} if {show(s[1])} else {show(s[3])})"
    if t == "aug":
        return f"{show(s[2])} {s[1]}= {show(s[3])}"
    return "<" + " ".join(show(x) if isinstance(x, tuple) else str(x) for x in s) + ">"


def diff_paths(a: S, b: S, path: str = "") -> list[str]:
    """First few structural differences between two canonical forms."""
    out: list[str] = []

    def rec(x, y, p):
        if len(out) >= 4:
            return
        if x == y:
            return
        if isinstance(x, tuple) and isinstance(y, tuple) and x and y and len(x) == len(y) \
                and not isinstance(x[0], str) and not isinstance(y[0], str):
            for i, (u, v) in enumerate(zip(x, y)):
                rec(u, v, f"{p}[{i}]")
            return
        if isinstance(x, tuple) and isinstance(y, tuple) and x and y and x[0] == y[0] and len(x) == len(y) \
                and x[0] not in ("poly", "k", "lt0", "eq0", "ne0", "a", "c"):
            for i, (u, v) in enumerate(zip(x, y)):
                rec(u, v, f"{p}/{x[0]}[{i}]" if isinstance(x[0], str) else f"{p}[{i}]")
            return
        out.append(f"{show(x)}  <>  {show(y)}")
    rec(a, b, path)
    return out


def single_defs(block: tuple, keep_identity: bool = True) -> dict:
    """numbered locals ('v', k) that are assigned exactly once in the whole block (and never augmented, swapped or
    used as a loop target) -> their right-hand side.  Lets a rule look through a local regardless of whether the
    canonicaliser chose to inline it."""
    count: dict = {}
    rhs: dict = {}
    banned: set = set()          # re-bound locals (augmented, tuple-assigned, loop targets)
    identity: set = set()        # locals whose object is mutated through them

    def rec(x):
        if isinstance(x, tuple) and x:
            if x[0] == "set" and len(x) == 3 and isinstance(x[1], tuple) and x[1] and x[1][0] == "v":
                count[x[1]] = count.get(x[1], 0) + 1
                rhs[x[1]] = x[2]
            elif x[0] == "aug" and len(x) == 4:
                banned.add(x[2])
            elif x[0] == "mset":
                for t in x[1]:
                    banned.add(t)
            elif x[0] == "for" and len(x) == 5:
                for t in ([x[1]] if x[1][0] != "tuple" else list(x[1][1])):
                    banned.add(t)
            # objects with identity: mutated through a method, a store or a heap primitive
            if x[0] == "c" and isinstance(x[1], tuple) and len(x[1]) == 3 and x[1][0] == "a" and x[1][2] in MUTATOR_METHODS:
                identity.add(x[1][1])
            if x[0] == "c" and isinstance(x[1], tuple) and len(x[1]) == 3 and x[1][0] == "a" and x[1][1] == ("g", "heapq") and x[2]:
                identity.add(x[2][0])
            if x[0] in ("set", "del") and len(x) >= 2 and isinstance(x[1], tuple) and x[1] and x[1][0] in ("s", "a") and len(x[1]) == 3:
                r = x[1][1]
                while isinstance(r, tuple) and len(r) == 3 and r[0] in ("s", "a"):
                    r = r[1]
                identity.add(r)
            if x[0] == "aug" and len(x) == 4 and isinstance(x[2], tuple) and x[2] and x[2][0] in ("s", "a"):
                r = x[2][1]
                while isinstance(r, tuple) and len(r) == 3 and r[0] in ("s", "a"):
                    r = r[1]
                identity.add(r)
            for y in x:
                rec(y)
    rec(block)
    uses: dict = {}

    def cnt(x):
        if isinstance(x, tuple) and x:
            if len(x) == 2 and x[0] == "v":
                uses[x] = uses.get(x, 0) + 1
                return
            for y in x:
                cnt(y)
    cnt(block)
    def is_path(e) -> bool:
        if not isinstance(e, tuple) or not e:
            return False
        if e[0] in ("p", "self", "v", "g"):
            return True
        if e[0] == "a" and len(e) == 3 and isinstance(e[2], str):
            return is_path(e[1])
        if e[0] == "s" and len(e) == 3:
            return is_path(e[1]) and isinstance(e[2], tuple) and e[2][:1] in (("k",), ("v",), ("p",))
        return False
    out = {}
    for v, e in rhs.items():
        if count[v] != 1:
            continue
        if v in banned:
            continue
        if v in identity and not (e[0] in ("a", "s") and is_path(e)):      # an alias of an existing object can be looked through
            continue
        n_uses = uses.get(v, 0) - 1            # minus the occurrence as assignment target
        if keep_identity and n_uses > 1 and _has_effectful_call(e):
            continue                            # e.g. fresh = self.newaux() used twice: keep the identity
        out[v] = e
    return out


_VALUE_FN = {("g", n) for n in VALUE_BUILTINS} | {("g", n) for n in PAIR_FIELDS}


def _has_effectful_call(e: S) -> bool:
    """does the expression contain a call other than the fixed list of value-returning builtins / value records?"""
    found = False

    def rec(x):
        nonlocal found
        if found or not isinstance(x, tuple) or not x:
            return
        if x[0] == "c" and len(x) == 4:
            fn = x[1]
            ok = fn in _VALUE_FN or (isinstance(fn, tuple) and len(fn) == 3 and fn[0] == "a" and
                                     (fn[1] == ("g", "math") or fn[2] in ("items", "values", "keys", "get", "copy")))
            if not ok:
                found = True
                return
        for y in x:
            rec(y)
    rec(e)
    return found


class Normalizer:
    """The inlining-independent normal form of a raw canonical block, plus the substitution that produced it, so
    that other expressions of the same function (branch conditions, call arguments taken from the CFG) can be put
    into the same terms."""

    def __init__(self, raw_block: tuple, keep_identity: bool = True, function_body: bool = True):
        self.rounds: list = []
        nums = [0]

        def scan(x):
            if isinstance(x, tuple):
                if len(x) == 2 and x[0] == "v" and isinstance(x[1], int):
                    nums[0] = max(nums[0], x[1] + 1)
                    return
                for y in x:
                    scan(y)
        scan(raw_block)

        def fresh():
            nums[0] += 1
            return ("v", 500 + nums[0])
        def shape_passes(b):
            return _switch_normal_form(_hoist_asserts(_index_loops(_param_versions(_if_convert(_ret_peephole(_query_loops(_pair_iteration(b))))))))

        def look_through(block):
            defs = single_defs(block, keep_identity)
            for _ in range(6):
                if not defs:
                    break
                self.rounds.append(defs)
                # a definition that nothing reads keeps its call ('_ = m.create_stog()' is the call statement)
                uses_: dict = {}

                def cnt_(x):
                    if isinstance(x, tuple) and x:
                        if len(x) == 2 and x[0] == "v":
                            uses_[x] = uses_.get(x, 0) + 1
                            return
                        for y in x:
                            cnt_(y)
                cnt_(block)
                _UNUSED_NOW.clear()
                _UNUSED_NOW.update(v for v in defs if uses_.get(v, 0) <= 1)
                block = _if_convert(_drop_sets(_renorm_local(deref(block, defs)), set(defs)))
                _UNUSED_NOW.clear()
                fused = _fuse_loops(_fuse_comps(block), fresh)
                if fused != block:
                    block = _index_loops(fused)
                defs = single_defs(block, keep_identity)
            return _switch_normal_form(_hoist_asserts(block))
        # 1. locals that only name a value are looked through first (so that it does not matter whether a comprehension sat in a
        #    local of its own), 2. then the comprehensions that are assigned / returned / put into a record become collecting loops,
        #    3. and what that uncovers is looked through again
        block = shape_passes(_fuse_comps(_renorm_local(raw_block)))
        block = _swap_via_temp(block)
        block, aliases = _store_aliases(block)
        if aliases:
            self.rounds.append(aliases)
        block = _guard_knowledge(look_through(block))
        unfolded = _unfold_list_comps(block, fresh)
        if unfolded != block:
            block = look_through(shape_passes(unfolded))
        block = _unroll_asserts(_unroll_const_loops(block))
        if function_body:
            block = _function_tail(block)
            # a predicate written as guards ('if not a: return False' ; 'return b') is the one expression it computes ('a and b')
            if len(block) > 1 and all(isinstance(st, tuple) and st and st[0] in ("if", "ret") for st in block):
                from .peval import value_expr, _is_boolean
                try:
                    v = value_expr(block)
                except Exception:
                    v = None
                if v is not None and _is_boolean(v) and v[0] != "ite":
                    block = (("ret", v),)
        mapping: dict = {}

        def rec(x):
            if isinstance(x, tuple):
                if len(x) == 2 and x[0] == "v" and isinstance(x[1], int):
                    if x not in mapping:
                        mapping[x] = ("v", len(mapping))
                    return
                for y in x:
                    rec(y)
        rec(block)
        rec(raw_block)      # variables that vanished from the block still get distinct numbers
        self.mapping = mapping
        self.identity = all(k == v for k, v in mapping.items())
        self.block = block if self.identity else Sigma(raw_subst=mapping).apply(block)

    def apply(self, s: S) -> S:
        for defs in self.rounds:
            s = deref(s, defs)
        s = _renorm_local(s)
        return s if self.identity else Sigma(raw_subst=self.mapping).apply(s)


def _swap_via_temp(block: tuple) -> tuple:
    """``t = X; X = Y; Y = t`` (X, Y container slots or attributes) is the exchange ``X, Y = Y, X``; afterwards t names what is
    now at Y.  An exchange is stored with its two places in a fixed order."""
    def occ(x, v):
        if isinstance(x, tuple):
            if x == v:
                return 1
            return sum(occ(y, v) for y in x)
        return 0

    def place(x):
        return isinstance(x, tuple) and x[:1] in (("s",), ("a",)) and len(x) == 3

    def rec(blk):
        blk = list(blk)
        out = []
        i = 0
        while i < len(blk):
            st = blk[i]
            if i + 2 < len(blk):
                a, b, c = blk[i], blk[i + 1], blk[i + 2]
                if all(isinstance(x, tuple) and len(x) == 3 and x[0] == "set" for x in (a, b, c)) and isinstance(a[1], tuple) and a[1][:1] == ("v",) \
                        and place(a[2]) and b[1] == a[2] and place(b[2]) and c[1] == b[2] and c[2] == a[1] and a[2] != b[2] \
                        and not occ(a[2], a[1]) and not occ(b[2], a[1]):
                    x_, y_ = sorted([a[2], b[2]], key=skey)
                    out.append(("mset", (x_, y_), (y_, x_)))
                    if occ(whole, a[1]) > 2:
                        out.append(("set", a[1], b[2]))
                    i += 3
                    continue
            if isinstance(st, tuple) and st:
                if st[0] == "mset" and len(st[1]) == 2 and len(st[2]) == 2 and st[1][0] == st[2][1] and st[1][1] == st[2][0] and place(st[1][0]) and place(st[1][1]):
                    x_, y_ = sorted(st[1], key=skey)
                    st = ("mset", (x_, y_), (y_, x_))
                elif st[0] == "if" and len(st) == 4:
                    st = ("if", st[1], rec(st[2]), rec(st[3]))
                elif st[0] == "for" and len(st) == 5:
                    st = ("for", st[1], st[2], rec(st[3]), rec(st[4]))
                elif st[0] == "while" and len(st) == 4:
                    st = ("while", st[1], rec(st[2]), rec(st[3]))
            out.append(st)
            i += 1
        return tuple(out)
    whole = block
    return rec(block)


def _store_aliases(block: tuple):
    """``t = e`` ; ``d[k] = t`` ; ... t ...   ==   ``d[k] = e`` ; ... d[k] ...   -- a local that only names the value just stored
    in a container slot (the local defined once, read only in the statements that follow in the same block; the slot, the
    container and the key left alone there, the container not handed to anything).  Returns (block, {local: slot})."""
    def occ(x, v):
        if isinstance(x, tuple):
            if x == v:
                return 1
            return sum(occ(y, v) for y in x)
        return 0

    def subscripted(x, d):
        """occurrences of d as the container of a subscript read / store"""
        if isinstance(x, tuple):
            n = 1 if (len(x) == 3 and x[0] == "s" and x[1] == d) else 0
            return n + sum(subscripted(y, d) for y in x)
        return 0

    def vars_of(x, acc):
        if isinstance(x, tuple):
            if len(x) == 2 and x[0] in ("v", "p") and isinstance(x[1], int):
                acc.add(x)
            for y in x:
                vars_of(y, acc)
        return acc

    def stores(x, acc):
        """targets of every binding statement nested in x"""
        if isinstance(x, tuple) and x:
            if x[0] == "set" and len(x) == 3:
                acc.append(x[1])
            elif x[0] == "aug" and len(x) == 4:
                acc.append(x[2])
            elif x[0] == "mset":
                acc.extend(x[1])
            elif x[0] == "for" and len(x) == 5:
                acc.append(x[1])
            elif x[0] == "del":
                acc.extend(x[1] if isinstance(x[1], tuple) else ())
            elif x[0] == "with" and len(x) == 3:
                acc.extend(i[1] for i in x[1])
            for y in x:
                stores(y, acc)
        return acc

    def pure_path(x):
        return isinstance(x, tuple) and (x[:1] in (("v",), ("p",)) or (x[:1] == ("a",) and len(x) == 3 and (x[1] == ("self",) or pure_path(x[1]))))
    aliases: dict = {}
    whole = [block]

    def rec(blk):
        blk = list(blk)
        i = 0
        while i + 1 < len(blk):
            a, b = blk[i], blk[i + 1]
            if isinstance(a, tuple) and len(a) == 3 and a[0] == "set" and isinstance(a[1], tuple) and a[1][:1] == ("v",) \
                    and isinstance(b, tuple) and len(b) == 3 and b[0] == "set" and b[2] == a[1] and isinstance(b[1], tuple) and b[1][:1] == ("s",) \
                    and len(b[1]) == 3 and pure_path(b[1][1]) and not occ(b[1], a[1]):
                v, slot = a[1], b[1]
                d, k = slot[1], slot[2]
                region = tuple(blk[i + 2:])
                tg = stores(region, [])
                kv = vars_of(k, set()) | vars_of(d, set())
                ok = occ(whole[0], v) == 2 + occ(region, v) and occ(region, v) > 0 and not occ(a[2], v)
                ok = ok and not any(t == v or t in kv or (isinstance(t, tuple) and t[:1] in (("tuple",), ("list",)) and (occ(t, v) or any(occ(t, x) for x in kv)))
                                    or (isinstance(t, tuple) and t[:1] == ("s",) and t[1] == d) for t in tg)
                ok = ok and occ(region, d) == subscripted(region, d)
                if ok:
                    sg = Sigma(raw_subst={v: slot})
                    blk[i:i + 2] = [("set", slot, a[2])]
                    blk[i + 1:] = [sg.apply(st) for st in blk[i + 1:]]
                    aliases[v] = slot
                    whole[0] = None       # recomputed lazily below
                    return rec(tuple(blk))
            i += 1
        out = []
        for st in blk:
            if isinstance(st, tuple) and st:
                if st[0] == "if" and len(st) == 4:
                    st = ("if", st[1], rec(st[2]), rec(st[3]))
                elif st[0] == "for" and len(st) == 5:
                    st = ("for", st[1], st[2], rec(st[3]), rec(st[4]))
                elif st[0] == "while" and len(st) == 4:
                    st = ("while", st[1], rec(st[2]), rec(st[3]))
            out.append(st)
        return tuple(out)
    # one alias at a time, so that the occurrence counts are those of the current block
    for _ in range(8):
        n0 = len(aliases)
        whole[0] = block
        block = rec(block)
        if len(aliases) == n0:
            break
    return block, aliases


def _if_convert(block: tuple) -> tuple:
    """``if c: v = a  else: v = b``  ==  ``v = a if c else b`` (both arms only assign the same plain locals), and
    ``v = d`` directly followed by ``if c: v = a``  ==  ``v = a if c else d``: the written form of a conditional value
    is immaterial"""
    def is_set(x):
        return isinstance(x, tuple) and len(x) == 3 and x[0] == "set" and isinstance(x[1], tuple) and x[1][:1] == ("v",)

    def only_sets(arm):
        # assertions inside an arm are conditional assertions: they are hoisted as implications (see below)
        return any(is_set(x) for x in arm) and all(is_set(x) or (isinstance(x, tuple) and len(x) == 2 and x[0] == "assert") for x in arm)

    def arm_env(arm):
        env: dict = {}
        for x in arm:
            if is_set(x):
                env[x[1]] = subst(x[2], env) if env else x[2]
        return env

    def hoisted(arm, guard):
        """``if g: assert A``  ==  ``assert (not g) or A`` (with the arm's earlier assignments looked through)"""
        env: dict = {}
        res = []
        for x in arm:
            if is_set(x):
                env[x[1]] = subst(x[2], env) if env else x[2]
            else:
                a = subst(x[1], env) if env else x[1]
                res.append(("assert", mk_or([mk_not(guard), a])))
        return res
    out: list = []
    for st in block:
        if isinstance(st, tuple) and st:
            if st[0] == "if" and len(st) == 4:
                st = ("if", st[1], _if_convert(st[2]), _if_convert(st[3]))
                # 'if c: f(x, A) else: f(x, B)'  ==  'f(x, A if c else B)': the same call made in both arms with some arguments differing
                if len(st[2]) == 1 and len(st[3]) == 1 and st[2][0][0] == st[3][0][0] == "expr":
                    ca, cb = st[2][0][1], st[3][0][1]

                    def merge(x, y):
                        if x == y:
                            return x
                        if isinstance(x, tuple) and isinstance(y, tuple) and x and y and x[0] == y[0] == "c" and x[1] == y[1] \
                                and len(x[2]) == len(y[2]) and [k for k, _ in x[3]] == [k for k, _ in y[3]]:
                            return ("c", x[1], tuple(merge(p_, q_) for p_, q_ in zip(x[2], y[2])), tuple((k, merge(v, w)) for (k, v), (_, w) in zip(x[3], y[3])))
                        return mk_ite(st[1], x, y)
                    if isinstance(ca, tuple) and isinstance(cb, tuple) and ca[:1] == cb[:1] == ("c",) and ca[1] == cb[1] and len(ca[2]) == len(cb[2]) and ca != cb:
                        out.append(("expr", merge(ca, cb)))
                        continue
                if only_sets(st[2]) and only_sets(st[3]):
                    a, b = arm_env(st[2]), arm_env(st[3])
                    if set(a) == set(b):
                        out.extend(hoisted(st[2], st[1]))
                        out.extend(hoisted(st[3], mk_not(st[1])))
                        for v in dict.fromkeys(x[1] for x in st[2] if is_set(x)):
                            out.append(("set", v, mk_ite(st[1], a[v], b[v])))
                        continue
                if st[2] and not st[3] and all(isinstance(x, tuple) and len(x) == 3 and x[0] == "set" and isinstance(x[1], tuple) and x[1][:1] == ("p",)
                                               for x in st[2]) and len({x[1] for x in st[2]}) == len(st[2]):
                    # 'if c: param = e' : the parameter always has a value, so this is 'param = e if c else param'
                    for x in st[2]:
                        out.append(("set", x[1], mk_ite(st[1], x[2], x[1])))
                    continue
                if only_sets(st[2]) and all(is_set(x) for x in st[2]) and not st[3] and out:
                    a = arm_env(st[2])
                    k = len(a)
                    prev = out[-k:] if k <= len(out) else []
                    if len(prev) == k and only_sets(tuple(prev)) and {x[1] for x in prev} == set(a) and len({x[1] for x in prev}) == k \
                            and (not any(contains(st[1], x[1]) for x in prev) or not any(_has_effectful_call(x[2]) for x in prev)):
                        d = arm_env(tuple(prev))
                        # the test reads the value the local has at that point
                        test = subst(st[1], d) if any(contains(st[1], w) for w in d) else st[1]
                        del out[-k:]
                        for x in prev:
                            v = x[1]
                            out.append(("set", v, mk_ite(test, subst(a[v], d) if any(contains(a[v], w) for w in d) else a[v], d[v])))
                        continue
            elif st[0] == "for" and len(st) == 5:
                st = ("for", st[1], st[2], _if_convert(st[3]), _if_convert(st[4]))
            elif st[0] == "while" and len(st) == 4:
                st = ("while", st[1], _if_convert(st[2]), _if_convert(st[3]))
            elif st[0] == "with" and len(st) == 3:
                st = ("with", st[1], _if_convert(st[2]))
        out.append(st)
    return tuple(out)


def _continue_to_else(body: tuple) -> tuple:
    """in a loop body ``if c: A; continue`` followed by the rest R of the body is ``if c: A else: R`` (and a ``continue``
    that ends the body is nothing): guard-clause and if/else spellings of one iteration have one form"""
    body = tuple(body)
    while body and body[-1] == ("continue",):
        body = body[:-1]
    for k, st in enumerate(body):
        if isinstance(st, tuple) and len(st) == 4 and st[0] == "if" and st[2] and not st[3] and st[2][-1] == ("continue",):
            rest = _continue_to_else(body[k + 1:])
            if not rest:
                new = ("if", st[1], tuple(st[2][:-1]), ()) if st[2][:-1] else None
                return body[:k] + ((new,) if new else ())
            return body[:k] + (mk_if(st[1], tuple(st[2][:-1]), rest),)
    return body


def _pair_iteration(block: tuple) -> tuple:
    """``a, b = pair_call(); for x in [a, b]: ...``  ==  ``for x in pair_call(): ...`` (a and b used nowhere else), and a
    local holding the iterable / the test of the very next loop / conditional, used nowhere else, is looked through"""
    def uses(x, v):
        n = 0
        if isinstance(x, tuple):
            if x == v:
                return 1
            for y in x:
                n += uses(y, v)
        return n

    def rec(b):
        out = []
        for st in b:
            if isinstance(st, tuple) and st:
                if st[0] == "if" and len(st) == 4:
                    st = ("if", st[1], rec(st[2]), rec(st[3]))
                elif st[0] == "for" and len(st) == 5:
                    st = ("for", st[1], st[2], rec(st[3]), rec(st[4]))
                elif st[0] == "while" and len(st) == 4:
                    st = ("while", st[1], rec(st[2]), rec(st[3]))
                # for x in [v5, v6] with v5 = proj(X, 0, 2), v6 = proj(X, 1, 2) just before
                if st[0] == "for" and len(st) == 5 and isinstance(st[2], tuple) and st[2][:1] == ("list",) and len(st[2][1]) == 2 and len(out) >= 2:
                    a, b_ = st[2][1]
                    d1, d2 = out[-2], out[-1]
                    if all(isinstance(d, tuple) and len(d) == 3 and d[0] == "set" for d in (d1, d2)) and d1[1] == a and d2[1] == b_ \
                            and isinstance(d1[2], tuple) and isinstance(d2[2], tuple) and d1[2][:1] == d2[2][:1] == ("proj",) \
                            and d1[2][1] == d2[2][1] and (d1[2][2], d1[2][3], d2[2][2], d2[2][3]) == (0, 2, 1, 2) \
                            and uses(whole, a) == 2 and uses(whole, b_) == 2:
                        out = out[:-2]
                        st = ("for", st[1], d1[2][1], st[3], st[4])
                # v = e ; for ... in f(v) / if g(v): ...   with v used only there
                if st[0] in ("for", "if") and out and isinstance(out[-1], tuple) and len(out[-1]) == 3 and out[-1][0] == "set" \
                        and isinstance(out[-1][1], tuple) and out[-1][1][:1] == ("v",):
                    v, e = out[-1][1], out[-1][2]
                    head = st[2] if st[0] == "for" else st[1]
                    if uses(whole, v) == 2 and uses(head, v) == 1:
                        out = out[:-1]
                        head2 = Sigma(raw_subst={v: e}).apply(head)
                        st = ("for", st[1], head2, st[3], st[4]) if st[0] == "for" else mk_if(head2, st[2], st[3])
            out.append(st)
        return tuple(out)
    whole = block
    return rec(block)


def _query_loops(block: tuple) -> tuple:
    """a search loop that answers with constants -- ``for v in it: if c: return True`` followed by ``return False`` -- is
    ``return any(c for v in it)`` (and the dual is ``all``)"""
    out = list(block)
    for k in range(len(out) - 1):
        lp, last = out[k], out[k + 1]
        if not (isinstance(lp, tuple) and lp[:1] == ("for",) and len(lp) == 5 and not lp[4] and isinstance(last, tuple) and last[:1] == ("ret",)
                and last[1] in (K_TRUE, K_FALSE) and k + 2 == len(out)):
            continue
        body = lp[3]
        if len(body) != 1 or body[0][0] != "if" or len(body[0]) != 4 or body[0][3] or len(body[0][2]) != 1:
            continue
        hit = body[0][2][0]
        if not (hit[0] == "ret" and hit[1] in (K_TRUE, K_FALSE) and hit[1] != last[1]):
            continue
        var = lp[1]
        if not (isinstance(var, tuple) and var[:1] == ("v",)):
            continue
        cond = body[0][1]
        b0 = ("b", 1, 0)
        elt = Sigma(raw_subst={var: b0}).apply(cond if hit[1] == K_TRUE else mk_not(cond))
        fn = ("g", "any") if hit[1] == K_TRUE else ("g", "all")
        out[k:k + 2] = [("ret", ("c", fn, (("comp", "gen", (elt,), ((b0, lp[2], K_TRUE),)),), ()))]
        break
    return tuple(out)


_UNFOLD_COUNTER = [0]


def _unfold_list_comps(block: tuple, fresh) -> tuple:
    """``xs = [e for v in it if c]`` is ``xs = []; for v in it: if c: xs.append(e)`` (one generator); likewise for a returned
    list comprehension and for ``ys.extend([...])``: the collecting-loop spelling and the comprehension have one form"""
    def loop(target, comp):
        (bv, it, cond), = comp[3]
        var = fresh()
        bvars = [bv] if bv[0] != "tuple" else list(bv[1])
        if bv[0] == "tuple":
            vs_ = [fresh() for _ in bvars]
            mapping = dict(zip(bvars, vs_))
            tgt = ("tuple", tuple(vs_))
        else:
            mapping = {bv: var}
            tgt = var
        sg = Sigma(raw_subst=mapping)
        elt = sg.apply(comp[2][0])
        if comp[1] == "dict":
            app = ("set", ("s", target, elt), sg.apply(comp[2][1]))
        else:
            app = ("expr", ("c", ("a", target, "append"), (elt,), ()))
        body = (app,) if cond == K_TRUE else (("if", sg.apply(cond), (app,), ()),)
        return ("for", tgt, it, body, ())

    def simple(comp):
        return isinstance(comp, tuple) and comp[:2] == ("comp", "list") and len(comp[3]) == 1 and len(comp[2]) == 1 \
            and not atoms_of((comp[2][0], comp[3][0][2]), lambda x: x[0] == "lambda")

    def simple_dict(comp):
        return isinstance(comp, tuple) and comp[:2] == ("comp", "dict") and len(comp[3]) == 1 and len(comp[2]) == 2 \
            and not atoms_of((comp[2], comp[3][0][2]), lambda x: x[0] == "lambda")
    out = []
    for st in block:
        if isinstance(st, tuple) and st:
            if st[0] == "set" and len(st) == 3 and isinstance(st[1], tuple) and st[1][:1] == ("v",) and simple(st[2]):
                out.append(("set", st[1], ("list", ())))
                out.append(loop(st[1], st[2]))
                continue
            if st[0] == "set" and len(st) == 3 and isinstance(st[1], tuple) and st[1][:1] == ("v",) and simple_dict(st[2]):
                # a dict comprehension is the loop that stores every entry
                out.append(("set", st[1], ("dict", ())))
                out.append(loop(st[1], st[2]))
                continue
            if st[0] == "ret" and simple(st[1]):
                t = fresh()
                out.append(("set", t, ("list", ())))
                out.append(loop(t, st[1]))
                out.append(("ret", t))
                continue
            if st[0] == "ret" and isinstance(st[1], tuple) and st[1][:1] == ("tuple",) and any(simple(x) for x in st[1][1]):
                # a returned tuple with a list comprehension as one of its items: that list is collected first
                items = []
                for x in st[1][1]:
                    if simple(x):
                        t = fresh()
                        out.append(("set", t, ("list", ())))
                        out.append(loop(t, x))
                        items.append(t)
                    else:
                        items.append(x)
                out.append(("ret", ("tuple", tuple(items))))
                continue
            if st[0] in ("expr", "set", "aug") and len(st) in (2, 3, 4):
                # a list / dict comprehension that is built as part of a larger value (an item of a tuple that is appended, an
                # argument) is collected first, into a local of its own
                pre: list = []

                def hoist(x, item=False):
                    if not isinstance(x, tuple) or not x:
                        return x
                    if x[0] in ("lambda", "ite", "and", "or") or (x[0] == "comp" and not (simple(x) or simple_dict(x))):
                        return x
                    if x[0] == "comp":
                        # only as an item of a tuple / list / dict display (a record that is being put together)
                        if not item or _free_bound(x):
                            return x
                        t = fresh()
                        pre.append(("set", t, ("list", ()) if x[1] == "list" else ("dict", ())))
                        pre.append(loop(t, x))
                        return t
                    if x[0] in ("tuple", "list") and len(x) == 2:
                        return (x[0], tuple(hoist(y, True) for y in x[1]))
                    if x[0] == "dict" and len(x) == 2:
                        return ("dict", tuple((hoist(k, False), hoist(v, True)) for k, v in x[1]))
                    return tuple(hoist(y, False) for y in x)
                val_idx = len(st) - 1
                new_val = hoist(st[val_idx])
                if pre:
                    out.extend(pre)
                    st = st[:val_idx] + (new_val,)
            if st[0] == "if" and len(st) == 4:
                st = ("if", st[1], _unfold_list_comps(st[2], fresh), _unfold_list_comps(st[3], fresh))
            elif st[0] == "for" and len(st) == 5:
                st = ("for", st[1], st[2], _unfold_list_comps(st[3], fresh), _unfold_list_comps(st[4], fresh))
            elif st[0] == "while" and len(st) == 4:
                st = ("while", st[1], _unfold_list_comps(st[2], fresh), _unfold_list_comps(st[3], fresh))
        out.append(st)
    return tuple(out)


def _simple_comp(c) -> bool:
    return isinstance(c, tuple) and len(c) == 4 and c[0] == "comp" and c[1] in ("gen", "list") and len(c[3]) == 1 and len(c[2]) == 1 \
        and not _free_bound(c)


def _match_target(tgt, e) -> Optional[dict]:
    """{target variable: component of e} for a target that is a variable or a tuple of variables"""
    if isinstance(tgt, tuple) and tgt[:1] in (("b",), ("v",)):
        return {tgt: e}
    if isinstance(tgt, tuple) and tgt[:1] == ("tuple",) and isinstance(e, tuple) and e[:1] == ("tuple",) and len(tgt[1]) == len(e[1]):
        out: dict = {}
        for t, x in zip(tgt[1], e[1]):
            m = _match_target(t, x)
            if m is None:
                return None
            out.update(m)
        return out
    return None


def _plain_subst(x, mp: dict):
    if isinstance(x, tuple):
        if x in mp:
            return mp[x]
        return tuple(_plain_subst(y, mp) for y in x)
    return x


def _fuse_comps(x):
    """a comprehension over a comprehension is one comprehension: ``f(y) for y in (g(x) for x in xs if c)`` == ``f(g(x)) for x in xs if c``
    (one generator each, no nested scopes)"""
    if not isinstance(x, tuple):
        return x
    x = tuple(_fuse_comps(y) for y in x)
    # zip(xs, [f(x) for x in xs]) walks xs with f(x) at its side
    if len(x) == 4 and x[0] == "comp" and len(x[3]) == 1 and isinstance(x[3][0][0], tuple) and x[3][0][0][:1] == ("tuple",) and len(x[3][0][0][1]) == 2 \
            and all(isinstance(b, tuple) and b[:1] == ("b",) for b in x[3][0][0][1]) and isinstance(x[3][0][1], tuple) \
            and x[3][0][1][:2] == ("c", ("g", "zip")) and len(x[3][0][1][2]) == 2 and not x[3][0][1][3]:
        (b_a, b_b), (za, zb), cond = x[3][0][0][1], x[3][0][1][2], x[3][0][2]
        for src, derived, b_src, b_der in ((za, zb, b_a, b_b), (zb, za, b_b, b_a)):
            if _simple_comp(derived) and derived[1] == "list" and derived[3][0][1] == src and derived[3][0][2] == K_TRUE and derived[3][0][0][:1] == ("b",) \
                    and not _free_bound(src):
                val = Sigma(raw_subst={derived[3][0][0]: b_src}).apply(derived[2][0])
                sg = Sigma(raw_subst={b_der: val})
                new_b = ("b", 1, 0)
                ren = Sigma(raw_subst={b_src: new_b})
                x = ("comp", x[1], tuple(ren.apply(sg.apply(e)) for e in x[2]), ((new_b, src, ren.apply(sg.apply(cond))),))
                break
    if len(x) == 4 and x[0] == "comp" and len(x[3]) == 1 and _simple_comp(x[3][0][1]):
        tgt, inner, cond = x[3][0]
        mp = _match_target(tgt, inner[2][0])
        if mp is not None and all(k[0] == "b" for k in mp):
            tgt2, it2, cond2 = inner[3][0]
            sg = Sigma(raw_subst=mp)
            x = ("comp", x[1], tuple(sg.apply(e) for e in x[2]), ((tgt2, it2, mk_and([cond2, sg.apply(cond)])),))
    return x


def _renorm(x):
    """re-establish the polynomial normal form after a substitution"""
    return Sigma(raw_subst={}).apply(x)


def _fuse_loops(block: tuple, fresh) -> tuple:
    """a loop over a comprehension is the loop over its source: ``for y in (g(x) for x in xs if c): body(y)`` ==
    ``for x in xs: if c: body(g(x))`` (the loop target not re-bound in the body)"""
    out = []
    for st in block:
        if isinstance(st, tuple) and st:
            if st[0] == "if" and len(st) == 4:
                st = ("if", st[1], _fuse_loops(st[2], fresh), _fuse_loops(st[3], fresh))
            elif st[0] == "while" and len(st) == 4:
                st = ("while", st[1], _fuse_loops(st[2], fresh), _fuse_loops(st[3], fresh))
            elif st[0] == "for" and len(st) == 5:
                st = ("for", st[1], st[2], _fuse_loops(st[3], fresh), _fuse_loops(st[4], fresh))
                if _simple_comp(st[2]):
                    inner = st[2]
                    mp = _match_target(st[1], inner[2][0])
                    tgt2, it2, cond2 = inner[3][0]
                    bvars = [tgt2] if tgt2[:1] == ("b",) else (list(tgt2[1]) if tgt2[:1] == ("tuple",) and all(t[:1] == ("b",) for t in tgt2[1]) else None)
                    rebound = atoms_of(st[3], lambda y: (y[0] in ("set", "for") and len(y) >= 3 and mp is not None and (y[1] in mp or (y[1][:1] == ("tuple",) and any(t in mp for t in y[1][1]))))
                                       or (y[0] == "aug" and len(y) == 4 and mp is not None and y[2] in mp))
                    if mp is not None and bvars is not None and not rebound and not st[4]:
                        new = {b: fresh() for b in bvars}
                        sgn = Sigma(raw_subst=new)
                        mp2 = {k: sgn.apply(v) for k, v in mp.items()}
                        body = Sigma(raw_subst=mp2).apply(st[3])
                        c2 = sgn.apply(cond2)
                        if c2 != K_TRUE:
                            body = (("if", c2, tuple(body), ()),)
                        st = ("for", _plain_subst(tgt2, new), it2, tuple(body), ())
        out.append(st)
    return tuple(out)


def _index_loops(block: tuple) -> tuple:
    """``for i in range(a, len(L)): ... L[i] ...`` (the index used for nothing but reading ``L[i]``, ``L`` not re-bound or
    stored into in the loop) is the loop over the elements ``for x in L[a:]: ... x ...``"""
    def pure_path(x):
        return isinstance(x, tuple) and (x[:1] in (("v",), ("p",), ("g",)) or x == ("self",) or (x[:1] == ("a",) and len(x) == 3 and pure_path(x[1])))

    def items_loop(st):
        """``for k, v in d.items(): ... v ...`` (d a plain name / attribute path, neither stored into, re-bound nor called on in the
        loop; k and v not re-bound) is ``for k in d: ... d[k] ...``"""
        var, it, body = st[1], st[2], st[3]
        if not (isinstance(var, tuple) and var[:1] == ("tuple",) and len(var[1]) == 2 and all(isinstance(x, tuple) and x[:1] == ("v",) for x in var[1])
                and isinstance(it, tuple) and it[:1] == ("c",) and isinstance(it[1], tuple) and it[1][:1] == ("a",) and it[1][2] == "items"
                and not it[2] and not it[3] and pure_path(it[1][1])):
            return st
        d, (k, v) = it[1][1], var[1]
        for x in atoms_of(body, lambda y: y[0] in ("set", "aug", "del", "mset", "for") and len(y) >= 3):
            tgts = x[1] if x[0] == "mset" else ((x[2],) if x[0] == "aug" else (x[1],))
            for t in tgts:
                if contains(t, d) or t in (k, v) or (isinstance(t, tuple) and t[:1] == ("tuple",) and (k in t[1] or v in t[1])):
                    return st
        if atoms_of(body, lambda y: y[0] == "c" and isinstance(y[1], tuple) and y[1][:1] == ("a",) and y[1][1] == d):
            return st
        return ("for", k, d, Sigma(raw_subst={v: ("s", d, k)}).apply(body), st[4])

    def values_loop(st):
        """``for k in d: ... d[k] ...`` with the key used for nothing but reading its entry (d left alone in the loop) is the loop
        over the entries ``for x in d.values(): ... x ...``"""
        var, it, body = st[1], st[2], st[3]
        if not (isinstance(var, tuple) and var[:1] == ("v",) and pure_path(it)):
            return st
        elem = ("s", it, var)
        if not contains(body, elem) or contains(Sigma(raw_subst={elem: ("k", "elem")}).apply(body), var):
            return st
        for x in atoms_of(body, lambda y: y[0] in ("set", "aug", "del", "mset", "for") and len(y) >= 3):
            tgts = x[1] if x[0] == "mset" else ((x[2],) if x[0] == "aug" else (x[1],))
            for t in tgts:
                if contains(t, it) or t == var:
                    return st
        if atoms_of(body, lambda y: y[0] == "c" and isinstance(y[1], tuple) and y[1][:1] == ("a",) and y[1][1] == it):
            return st
        return ("for", var, ("c", ("a", it, "values"), (), ()), Sigma(raw_subst={elem: var}).apply(body), st[4])

    def own_break(body):
        for x in body:
            if isinstance(x, tuple) and x:
                if x[0] == "break":
                    return True
                if x[0] == "if" and len(x) == 4 and (own_break(x[2]) or own_break(x[3])):
                    return True
                if x[0] in ("with", "try") and any(own_break(b) for b in x[1:] if isinstance(b, tuple) and b and isinstance(b[0], tuple)):
                    return True
        return False

    def product_loop(st):
        """``for a, b in product(xs, ys): body`` (no break in body) is ``for a in xs: for b in ys: body``"""
        var, it, body = st[1], st[2], st[3]
        if not (isinstance(var, tuple) and var[:1] == ("tuple",) and isinstance(it, tuple) and it[:1] == ("c",) and not it[3]
                and it[1] in (("g", "product"), ("a", ("g", "itertools"), "product")) and len(it[2]) == len(var[1]) >= 2
                and not any(isinstance(a, tuple) and a[:1] == ("star",) for a in it[2]) and not own_break(body)):
            return st
        # the inner ranges must not depend on what the loop changes: plain ranges / names only
        if any(contains(a, v) for a in it[2] for v in var[1]):
            return st
        inner = tuple(body)
        for v, src in reversed(list(zip(var[1], it[2]))):
            inner = (conv(("for", v, src, inner, ())),)
        return inner[0]

    def combinations_loop(st):
        """``for a, b in combinations(range(lo, n), 2): body`` (no break in body) is ``for a in range(lo, n): for b in range(a + 1, n): body``"""
        var, it, body = st[1], st[2], st[3]
        if not (isinstance(var, tuple) and var[:1] == ("tuple",) and len(var[1]) == 2 and isinstance(it, tuple) and it[:1] == ("c",) and not it[3]
                and it[1] in (("g", "combinations"), ("a", ("g", "itertools"), "combinations")) and len(it[2]) == 2 and it[2][1] == k_num(2)
                and isinstance(it[2][0], tuple) and it[2][0][:2] == ("c", ("g", "range")) and not it[2][0][3] and len(it[2][0][2]) in (1, 2)
                and not own_break(body)):
            return st
        rargs = it[2][0][2]
        hi = rargs[-1]
        if any(contains(a, v) for a in rargs for v in var[1]):
            return st
        a, b = var[1]
        inner_rng = ("c", ("g", "range"), ((to_poly(a) + to_poly(k_num(1))).to_s(), hi), ())
        return conv(("for", a, it[2][0], (conv(("for", b, inner_rng, tuple(body), ())),), ()))

    def conv(st):
        if not (isinstance(st, tuple) and st and st[0] == "for" and len(st) == 5 and not st[4]):
            return st
        st = combinations_loop(st)
        if not (isinstance(st, tuple) and st and st[0] == "for" and len(st) == 5 and not st[4]):
            return st
        st = product_loop(st)
        st = values_loop(items_loop(st))
        var, it, body = st[1], st[2], st[3]
        if not (isinstance(var, tuple) and var[:1] == ("v",) and isinstance(it, tuple) and it[:2] == ("c", ("g", "range")) and not it[3]):
            return st
        args = it[2]
        lo, hi = (k_num(0), args[0]) if len(args) == 1 else ((args[0], args[1]) if len(args) == 2 else (None, None))
        upper = K_NONE
        if hi is not None and isinstance(hi, tuple) and hi[:1] == ("poly",):
            # len(L) - k  (k a positive integer): the slice stops k elements before the end
            ph = to_poly(hi)
            lens = [a for a in ph.atoms() if isinstance(a, tuple) and a[:2] == ("c", ("g", "len")) and len(a[2]) == 1]
            if len(lens) == 1 and len(ph.t) == 2 and ph.t.get(((lens[0], 1),)) == 1 and ph.const_value() < 0 and ph.const_value().denominator == 1:
                upper = k_num(ph.const_value())
                hi = lens[0]
        if hi is None or not (isinstance(hi, tuple) and hi[:2] == ("c", ("g", "len")) and len(hi[2]) == 1):
            return st
        seq = hi[2][0]
        elem = ("s", seq, var)
        # every use of the index is L[i]; L is neither stored into nor re-bound inside the loop
        probe = Sigma(raw_subst={elem: ("k", "elem")}).apply(body)
        if contains(probe, var) or not contains(body, elem):
            return st
        if any(x[0] in ("set", "aug", "del", "mset") and contains(x[1] if x[0] != "aug" else x[2], seq) and (x[1] if x[0] != "aug" else x[2]) != elem
               and not (isinstance(x[1] if x[0] != "aug" else x[2], tuple) and contains(x[1] if x[0] != "aug" else x[2], elem))
               for x in atoms_of(body, lambda y: y[0] in ("set", "aug", "del", "mset") and len(y) >= 3)):
            return st
        it2 = seq if (lo == k_num(0) and upper == K_NONE) else ("s", seq, ("slice", lo if lo != k_num(0) else K_NONE, upper, K_NONE))
        return ("for", var, it2, Sigma(raw_subst={elem: var}).apply(body), st[4])
    out = []
    for st in block:
        if isinstance(st, tuple) and st:
            if st[0] == "if" and len(st) == 4:
                st = ("if", st[1], _index_loops(st[2]), _index_loops(st[3]))
            elif st[0] == "for" and len(st) == 5:
                st = conv(("for", st[1], st[2], _index_loops(st[3]), _index_loops(st[4])))
            elif st[0] == "while" and len(st) == 4:
                st = ("while", st[1], _index_loops(st[2]), _index_loops(st[3]))
        out.append(st)
    return tuple(out)


def _param_versions(block: tuple) -> tuple:
    """a parameter that is re-defined once, at the top level of the function (``if x < 0: x = default``), is from there on
    that new value: the statements that follow read the value, the re-definition itself disappears -- so the spelling
    with a fresh local (``cut = default if x < 0 else x``) has the same form"""
    def sets_of(b, acc):
        for st in b:
            if isinstance(st, tuple) and st:
                if st[0] in ("set", "aug") and isinstance(st[1 if st[0] == "set" else 2], tuple) and st[1 if st[0] == "set" else 2][:1] == ("p",):
                    acc.append(st[1 if st[0] == "set" else 2])
                for x in st:
                    if isinstance(x, tuple) and x and isinstance(x[0], tuple):
                        sets_of(x, acc)
    allsets: list = []
    sets_of(block, allsets)
    out = list(block)
    for k, st in enumerate(block):
        if isinstance(st, tuple) and len(st) == 3 and st[0] == "set" and isinstance(st[1], tuple) and st[1][:1] == ("p",) and allsets.count(st[1]) == 1 \
                and isinstance(st[2], tuple) and st[2][:1] == ("ite",) and st[1] in (st[2][2], st[2][3]):     # a conditional default only
            rest = Sigma(raw_subst={st[1]: st[2]}).apply(tuple(out[k + 1:]))
            return _param_versions(tuple(out[:k]) + tuple(rest))
    return tuple(out)


def _ret_peephole(block: tuple) -> tuple:
    """``v = e; return f(v)`` is ``return f(e)`` whatever else assigns v: the return ends the flow, so this definition
    of the numbered local reaches nothing else."""
    out: list = []
    for st in block:
        if isinstance(st, tuple) and st:
            if st[0] == "if" and len(st) == 4:
                st = ("if", st[1], _ret_peephole(st[2]), _ret_peephole(st[3]))
            elif st[0] == "for" and len(st) == 5:
                st = ("for", st[1], st[2], _ret_peephole(st[3]), _ret_peephole(st[4]))
            elif st[0] == "while" and len(st) == 4:
                st = ("while", st[1], _ret_peephole(st[2]), _ret_peephole(st[3]))
            elif st[0] == "with" and len(st) == 3:
                st = ("with", st[1], _ret_peephole(st[2]))
            elif st[0] == "ret" and out and isinstance(out[-1], tuple) and len(out[-1]) == 3 and out[-1][0] == "set" \
                    and isinstance(out[-1][1], tuple) and out[-1][1][:1] == ("v",) and contains(st[1], out[-1][1]) \
                    and not contains(out[-1][2], out[-1][1]):
                prev = out.pop()
                st = ("ret", subst(st[1], {prev[1]: prev[2]}))
        out.append(st)
    return tuple(out)


def normalize(block: tuple, keep_identity: bool = True) -> tuple:
    """Normal form independent of the canonicaliser's inlining decisions: every eliminable single-definition local
    (see single_defs) is replaced by its definition and its assignment dropped; the remaining numbered locals are
    re-numbered by first occurrence."""
    return Normalizer(block, keep_identity).block


_UNUSED_NOW: set = set()


def _drop_sets(block: tuple, vars_: set) -> tuple:
    out = []
    for st in block:
        if isinstance(st, tuple) and st:
            if st[0] == "set" and len(st) == 3 and st[1] in vars_:
                if _has_effectful_call(st[2]) and st[1] in _UNUSED_NOW:
                    out.append(("expr", st[2]))          # '_ = f()' : the value is discarded, the call is not
                continue
            if st[0] == "if" and len(st) == 4:
                st = mk_if(st[1], _drop_sets(st[2], vars_), _drop_sets(st[3], vars_))
            elif st[0] == "for" and len(st) == 5:
                st = ("for", st[1], st[2], _drop_sets(st[3], vars_), _drop_sets(st[4], vars_))
            elif st[0] == "while" and len(st) == 4:
                st = ("while", st[1], _drop_sets(st[2], vars_), _drop_sets(st[3], vars_))
            elif st[0] == "with" and len(st) == 3:
                st = ("with", st[1], _drop_sets(st[2], vars_))
            elif st[0] == "try" and len(st) == 5:
                st = ("try", _drop_sets(st[1], vars_), tuple((h[0], _drop_sets(h[1], vars_)) for h in st[2]), _drop_sets(st[3], vars_), _drop_sets(st[4], vars_))
        out.append(st)
    return tuple(_merge_guard_chain(out))


class _Deref(Sigma):
    """substitution that leaves the targets of assignments alone"""
    def _ap(self, s):
        if isinstance(s, tuple) and len(s) == 3 and s[0] == "set" and s[1] in self.raw_subst:
            return ("set", s[1], super()._ap(s[2]))
        if isinstance(s, tuple) and len(s) == 4 and s[0] == "aug" and s[2] in self.raw_subst:
            return ("aug", s[1], s[2], super()._ap(s[3]))
        return super()._ap(s)


def deref(s: S, defs: dict, depth: int = 4) -> S:
    """substitute single-definition locals by their definitions (a few levels deep); assignment targets are kept"""
    for _ in range(depth):
        s2 = _Deref(raw_subst=defs).apply(s)
        if s2 == s:
            break
        s = s2
    return s
