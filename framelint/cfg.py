"""E2 -- per-function statement CFG, path queries and dominating-guard facts.

Nodes are simple statements and the tests of compound statements.  Three
virtual nodes: ENTRY, EXIT (normal return / fall off the end) and RAISE
(exceptional exit: ``raise`` and failing ``assert``).

Queries
* ``must_pass(pred, frm, to)``  -- every path frm -> to contains a node with pred
* ``facts_at(node)``           -- conditions that hold on *every* path reaching
  the node (forward must-analysis over branch edges, with kills on
  re-assignment)
"""
from __future__ import annotations

import ast
from dataclasses import dataclass, field
from typing import Callable, Iterable, Optional

from .srcmodel import FuncInfo, body_without_docstring
from .canon import Canon, CanonOptions, S, mk_not, contains

ENTRY, EXIT, RAISE = 0, 1, 2


@dataclass
class Node:
    id: int
    kind: str                      # 'entry' 'exit' 'raise' 'stmt' 'test' 'iter'
    ast: Optional[ast.AST] = None  # the statement (for 'test'/'iter': the compound statement)

    @property
    def lineno(self) -> int:
        return getattr(self.ast, "lineno", 0)


@dataclass
class Edge:
    src: int
    dst: int
    cond: Optional[tuple[ast.expr, bool]] = None   # (test expression, polarity)


class CFG:
    def __init__(self, fi: FuncInfo, model=None):
        self.fi = fi
        self.model = model
        self.nodes: list[Node] = [Node(ENTRY, "entry"), Node(EXIT, "exit"), Node(RAISE, "raise")]
        self.edges: list[Edge] = []
        self.node_of_stmt: dict[int, int] = {}    # id(ast stmt) -> node id
        body = body_without_docstring(fi.node)
        first = self._seq(body, EXIT, brk=None, cont=None)
        self.edges.append(Edge(ENTRY, first))
        self.succ: dict[int, list[Edge]] = {}
        self.pred: dict[int, list[Edge]] = {}
        for e in self.edges:
            self.succ.setdefault(e.src, []).append(e)
            self.pred.setdefault(e.dst, []).append(e)
        self._canon = None
        self._facts: Optional[dict[int, Optional[frozenset]]] = None

    # ------------------------------------------------------------------ build
    def _new(self, kind: str, node: ast.AST) -> int:
        n = Node(len(self.nodes), kind, node)
        self.nodes.append(n)
        self.node_of_stmt.setdefault(id(node), n.id)
        return n.id

    def _seq(self, stmts: list[ast.stmt], nxt: int, brk: Optional[int], cont: Optional[int]) -> int:
        for st in reversed(stmts):
            nxt = self._stmt(st, nxt, brk, cont)
        return nxt

    def _stmt(self, st: ast.stmt, nxt: int, brk: Optional[int], cont: Optional[int]) -> int:
        if isinstance(st, ast.If):
            t = self._new("test", st)
            a = self._seq(st.body, nxt, brk, cont)
            b = self._seq(st.orelse, nxt, brk, cont)
            self.edges.append(Edge(t, a, (st.test, True)))
            self.edges.append(Edge(t, b, (st.test, False)))
            return t
        if isinstance(st, ast.While):
            t = self._new("test", st)
            after = self._seq(st.orelse, nxt, brk, cont)
            body = self._seq(st.body, t, brk=nxt, cont=t)
            self.edges.append(Edge(t, body, (st.test, True)))
            if not (isinstance(st.test, ast.Constant) and st.test.value is True):
                self.edges.append(Edge(t, after, (st.test, False)))
            return t
        if isinstance(st, (ast.For, ast.AsyncFor)):
            t = self._new("iter", st)
            after = self._seq(st.orelse, nxt, brk, cont)
            body = self._seq(st.body, t, brk=nxt, cont=t)
            self.edges.append(Edge(t, body))
            self.edges.append(Edge(t, after))
            if (isinstance(st.iter, (ast.List, ast.Tuple)) and st.iter.elts and
                    not any(isinstance(e, ast.Starred) for e in st.iter.elts)) or self._returns_fixed_tuple(st.iter):
                # a loop over a non-empty literal runs at least once: separate entry node without the skip edge
                first = Node(len(self.nodes), "iter", st)
                self.nodes.append(first)
                self.edges.append(Edge(first.id, body))
                return first.id
            return t
        if isinstance(st, ast.Return):
            n = self._new("stmt", st)
            self.edges.append(Edge(n, EXIT))
            return n
        if isinstance(st, ast.Raise):
            n = self._new("stmt", st)
            self.edges.append(Edge(n, RAISE))
            return n
        if isinstance(st, ast.Assert):
            n = self._new("stmt", st)
            if isinstance(st.test, ast.Constant) and st.test.value is False:
                self.edges.append(Edge(n, RAISE))
            else:
                self.edges.append(Edge(n, nxt, (st.test, True)))
                self.edges.append(Edge(n, RAISE, (st.test, False)))
            return n
        if isinstance(st, ast.Break):
            n = self._new("stmt", st)
            self.edges.append(Edge(n, brk if brk is not None else nxt))
            return n
        if isinstance(st, ast.Continue):
            n = self._new("stmt", st)
            self.edges.append(Edge(n, cont if cont is not None else nxt))
            return n
        if isinstance(st, (ast.With, ast.AsyncWith)):
            n = self._new("stmt", st)
            body = self._seq(st.body, nxt, brk, cont)
            self.edges.append(Edge(n, body))
            return n
        if isinstance(st, ast.Try):
            fin = self._seq(st.finalbody, nxt, brk, cont) if st.finalbody else nxt
            orelse = self._seq(st.orelse, fin, brk, cont) if st.orelse else fin
            body = self._seq(st.body, orelse, brk, cont)
            n = self._new("stmt", st)
            self.edges.append(Edge(n, body))
            for h in st.handlers:
                hb = self._seq(h.body, fin, brk, cont)
                self.edges.append(Edge(n, hb))     # over-approximation: handler may start at try entry
            return n
        n = self._new("stmt", st)
        self.edges.append(Edge(n, nxt))
        return n

    # ---------------------------------------------------------------- queries
    def _returns_fixed_tuple(self, e: ast.expr) -> bool:
        """a call of a repository function whose return annotation is a tuple of fixed, non-zero length
        (``-> tuple['Rectangle', 'Rectangle']``): iterating over its result runs the loop body at least once"""
        if not isinstance(e, ast.Call) or self.model is None:
            return False
        try:
            cands = self.model.resolve_call(self.fi, e)
        except Exception:
            return False
        if not cands:
            return False
        for h in cands:
            r = h.node.returns
            if isinstance(r, ast.Constant) and isinstance(r.value, str):
                try:
                    r = ast.parse(r.value, mode="eval").body
                except SyntaxError:
                    return False
            if not (isinstance(r, ast.Subscript) and isinstance(r.value, ast.Name) and r.value.id in ("tuple", "Tuple")):
                return False
            elts = r.slice.elts if isinstance(r.slice, ast.Tuple) else [r.slice]
            if not elts or any(isinstance(x, ast.Constant) and x.value is Ellipsis for x in elts):
                return False
        return True

    def stmt_nodes(self, include_dead: bool = False) -> Iterable[Node]:
        """statement nodes; dead code (no path from the entry, e.g. a return after an if whose arms both return) is
        left out: nothing can be demanded of it and nothing it does matters"""
        if include_dead:
            return (n for n in self.nodes if n.kind in ("stmt", "test", "iter"))
        live = self.facts()
        return (n for n in self.nodes if n.kind in ("stmt", "test", "iter") and live.get(n.id) is not None)

    def node_for(self, st: ast.AST) -> int:
        return self.node_of_stmt[id(st)]

    def reachable_from(self, start: int, blocked: Callable[[Node], bool] = lambda n: False) -> set[int]:
        seen: set[int] = set()
        todo = [start]
        while todo:
            x = todo.pop()
            if x in seen:
                continue
            seen.add(x)
            if x != start and blocked(self.nodes[x]):
                continue
            for e in self.succ.get(x, []):
                todo.append(e.dst)
        return seen

    def must_pass(self, pred: Callable[[Node], bool], frm: int = ENTRY, to: int = EXIT) -> bool:
        """True iff every path frm -> to goes through a node satisfying pred
        (frm itself excluded)."""
        seen: set[int] = set()
        todo = [frm]
        while todo:
            x = todo.pop()
            if x in seen:
                continue
            seen.add(x)
            if x == to:
                return False
            for e in self.succ.get(x, []):
                d = e.dst
                if d != to and pred(self.nodes[d]):
                    continue
                todo.append(d)
        return True

    def can_reach(self, frm: int, to: int) -> bool:
        return to in self.reachable_from(frm)

    # ------------------------------------------------------------------ facts
    def canon(self):
        """expression canonicaliser of this function whose results are in the same (expanded, re-numbered) normal
        form as ``canon_function(fi, expand=True)``"""
        if self._canon is None:
            c = Canon(self.fi, self.model, CanonOptions())
            raw = c.function()           # fills the single-definition environment
            from .canon import Normalizer
            self._canon = _NormCanon(c, Normalizer(raw, keep_identity=False))
        return self._canon

    def cond_facts(self, test: ast.expr, polarity: bool) -> list[S]:
        c = self.canon().expr(test)
        if not polarity:
            c = mk_not(c)
        if isinstance(c, tuple) and c and c[0] == "and":
            return list(c[1])
        return [c]

    def _kills(self, node: Node) -> list[S]:
        st = node.ast
        out: list[S] = []
        cn = self.canon()
        targets: list[ast.expr] = []
        if isinstance(st, ast.Assign):
            targets = list(st.targets)
        elif isinstance(st, (ast.AugAssign, ast.AnnAssign)):
            targets = [st.target]
        elif isinstance(st, (ast.For, ast.AsyncFor)) and node.kind == "iter":
            targets = [st.target]
        for t in targets:
            for n in ast.walk(t):
                if isinstance(n, ast.Name) and isinstance(n.ctx, ast.Store):
                    out.append(cn.expr_store(n))
                elif isinstance(n, ast.Attribute) and isinstance(n.ctx, ast.Store):
                    out.append(("attr", n.attr))
        return out

    def facts(self) -> dict[int, Optional[frozenset]]:
        """node id -> set of canonical conditions holding on every path to the node."""
        if self._facts is not None:
            return self._facts
        IN: dict[int, Optional[frozenset]] = {n.id: None for n in self.nodes}
        IN[ENTRY] = frozenset()
        work = [ENTRY]
        kills = {n.id: self._kills(n) for n in self.nodes if n.ast is not None}
        while work:
            x = work.pop()
            cur = IN[x]
            assert cur is not None
            out = cur
            ks = kills.get(x)
            if ks:
                out = frozenset(f for f in out if not any(_mentions(f, k) for k in ks))
            for e in self.succ.get(x, []):
                o = out
                if e.cond is not None:
                    o = o | frozenset(self.cond_facts(*e.cond))
                old = IN[e.dst]
                new = o if old is None else (old & o)
                if old is None or new != old:
                    IN[e.dst] = new
                    work.append(e.dst)
        self._facts = IN
        return IN

    def facts_at(self, node_id: int) -> frozenset:
        f = self.facts()[node_id]
        return f if f is not None else frozenset()


class _NormCanon:
    def __init__(self, canon: Canon, normalizer):
        self.c = canon
        self.n = normalizer

    def expr(self, e: ast.expr) -> S:
        return self.n.apply(self.c.expr(e))

    def expr_store(self, t: ast.expr) -> S:
        return self.n.apply(self.c.expr_store(t))


def _mentions(fact: S, kill: S) -> bool:
    if kill[0] == "attr":
        def rec(x):
            if isinstance(x, tuple):
                if len(x) == 3 and x[0] == "a" and x[2] == kill[1]:
                    return True
                return any(rec(y) for y in x)
            return False
        return rec(fact)
    return contains(fact, kill)


def enclosing_stmt_map(fn: ast.FunctionDef) -> dict[int, ast.stmt]:
    """id(expr node) -> the simple statement / compound header containing it."""
    out: dict[int, ast.stmt] = {}

    def visit_stmt(st: ast.stmt) -> None:
        header_exprs: list[ast.AST] = []
        bodies: list[list[ast.stmt]] = []
        if isinstance(st, ast.If) or isinstance(st, ast.While):
            header_exprs = [st.test]
            bodies = [st.body, st.orelse]
        elif isinstance(st, (ast.For, ast.AsyncFor)):
            header_exprs = [st.target, st.iter]
            bodies = [st.body, st.orelse]
        elif isinstance(st, (ast.With, ast.AsyncWith)):
            header_exprs = [i.context_expr for i in st.items]
            bodies = [st.body]
        elif isinstance(st, ast.Try):
            bodies = [st.body, st.orelse, st.finalbody] + [h.body for h in st.handlers]
        elif isinstance(st, (ast.FunctionDef, ast.AsyncFunctionDef, ast.ClassDef)):
            return
        else:
            header_exprs = [st]
        for h in header_exprs:
            for n in ast.walk(h):
                out[id(n)] = st
        for b in bodies:
            for s in b:
                visit_stmt(s)

    for s in fn.body:
        visit_stmt(s)
    return out


# ------------------------------------------------------------------ definite assignment (per loop iteration)
def _stores_of(node: Node) -> set[str]:
    st = node.ast
    out: set[str] = set()
    if st is None:
        return out
    if node.kind == "iter":
        roots = [st.target]
    elif node.kind == "test":
        roots = [st.test]
    elif isinstance(st, (ast.With, ast.AsyncWith)):
        roots = [i.optional_vars for i in st.items if i.optional_vars is not None]
    elif isinstance(st, ast.Try):
        roots = []
    elif isinstance(st, (ast.FunctionDef, ast.AsyncFunctionDef, ast.ClassDef)):
        return {st.name}
    elif isinstance(st, (ast.Import, ast.ImportFrom)):
        return {(a.asname or a.name).split(".")[0] for a in st.names}
    else:
        roots = [st]
    for r in roots:
        for n in ast.walk(r):
            if isinstance(n, ast.Name) and isinstance(n.ctx, ast.Store):
                out.add(n.id)
    return out


def _loads_of(node: Node) -> list[ast.Name]:
    st = node.ast
    if st is None:
        return []
    if node.kind == "iter":
        roots = [st.iter]
    elif node.kind == "test":
        roots = [st.test]
    elif isinstance(st, (ast.With, ast.AsyncWith)):
        roots = [i.context_expr for i in st.items]
    elif isinstance(st, (ast.Try, ast.FunctionDef, ast.AsyncFunctionDef, ast.ClassDef)):
        return []
    else:
        roots = [st]
    out = []
    for r in roots:
        bound_in_comp: set[str] = set()
        for n in ast.walk(r):
            if isinstance(n, ast.comprehension):
                for t in ast.walk(n.target):
                    if isinstance(t, ast.Name):
                        bound_in_comp.add(t.id)
            if isinstance(n, ast.Lambda):
                for a in n.args.args:
                    bound_in_comp.add(a.arg)
        for n in ast.walk(r):
            if isinstance(n, ast.Name) and isinstance(n.ctx, ast.Load) and n.id not in bound_in_comp:
                out.append(n)
    return out


def possibly_unassigned(cfg: "CFG") -> list[tuple[Node, str]]:
    """(node, name) pairs where a local of the function is read although it is not assigned on every path that
    reaches the read *within the current loop iteration* (back edges are ignored, so a value left over from a
    previous iteration does not count as an assignment)."""
    fn = cfg.fi.node
    params = {a.arg for a in fn.args.posonlyargs + fn.args.args + fn.args.kwonlyargs}
    if fn.args.vararg:
        params.add(fn.args.vararg.arg)
    if fn.args.kwarg:
        params.add(fn.args.kwarg.arg)
    local_names: set[str] = set()
    for n in cfg.nodes:
        local_names |= _stores_of(n)
    local_names -= params
    # back edges by DFS
    back: set[tuple[int, int]] = set()
    color: dict[int, int] = {}

    def dfs(u: int) -> None:
        stack = [(u, iter(cfg.succ.get(u, [])))]
        color[u] = 1
        while stack:
            x, it = stack[-1]
            adv = False
            for e in it:
                if color.get(e.dst, 0) == 1:
                    back.add((e.src, e.dst))
                elif color.get(e.dst, 0) == 0:
                    color[e.dst] = 1
                    stack.append((e.dst, iter(cfg.succ.get(e.dst, []))))
                    adv = True
                    break
            if not adv:
                color[x] = 2
                stack.pop()
    dfs(ENTRY)
    IN: dict[int, Optional[frozenset]] = {n.id: None for n in cfg.nodes}
    IN[ENTRY] = frozenset()
    work = [ENTRY]
    while work:
        x = work.pop()
        cur = IN[x]
        out = cur | frozenset(_stores_of(cfg.nodes[x]))
        for e in cfg.succ.get(x, []):
            if (e.src, e.dst) in back:
                continue
            old = IN[e.dst]
            new = out if old is None else (old & out)
            if old is None or new != old:
                IN[e.dst] = new
                work.append(e.dst)
    res = []
    for n in cfg.nodes:
        if IN[n.id] is None:
            continue
        for nm in _loads_of(n):
            if nm.id in local_names and nm.id not in IN[n.id]:
                res.append((n, nm.id))
    return res
