"""Rule registry, findings, known-findings triage, evidence and replay files."""
from __future__ import annotations

import hashlib
import json
import os
import sys
import time
import traceback
from dataclasses import dataclass, field
from typing import Any, Callable, Optional

from .srcmodel import Model, FuncInfo, AnalysisError
from .canon import Canon, CanonOptions, canon_function
from .cfg import CFG

VERIF_DIR = os.path.dirname(os.path.dirname(os.path.abspath(__file__)))
DEFAULT_REPO = os.environ.get("FRAME_REPO", "/repo")


@dataclass
class Finding:
    prop: str
    rule: str
    where: str          # file::qualname
    construct: str      # canonical / normalised construct text (never a line number)
    message: str
    details: dict = field(default_factory=dict)
    lineno: int = 0     # informational only (not part of the key)

    @property
    def key(self) -> str:
        return f"{self.prop}|{self.rule}|{self.where}|{self.construct}"


@dataclass
class RuleDef:
    prop: str
    rid: str
    kind: str
    desc: str
    fn: Callable[["Ctx"], None]
    floor: int = 1
    tiers: tuple = ("quick", "thorough")


RULES: dict[str, list[RuleDef]] = {}


def rule(prop: str, rid: str, kind: str, desc: str, floor: int = 1, tiers: tuple = ("quick", "thorough")):
    def deco(fn):
        RULES.setdefault(prop, []).append(RuleDef(prop, rid, kind, desc, fn, floor, tiers))
        return fn
    return deco


class Ctx:
    def __init__(self, model: Model, prop: str, tier: str):
        self.model = model
        self.prop = prop
        self.tier = tier
        self.findings: list[Finding] = []
        self.sites: dict[str, list[dict]] = {}
        self.current: Optional[RuleDef] = None
        self._cfg: dict[Any, CFG] = {}
        self.notes: list[str] = []

    # --- recording -----------------------------------------------------------
    def site(self, where: str, what: str, **facts) -> None:
        """Record that a rule instance examined a construct."""
        assert self.current is not None
        rec = {"where": where, "what": what}
        rec.update(facts)
        self.sites.setdefault(self.current.rid, []).append(rec)

    def report(self, where: str, construct: str, message: str, lineno: int = 0, **details) -> None:
        assert self.current is not None
        self.findings.append(Finding(self.prop, self.current.rid, where, construct, message, details, lineno))

    def require(self, cond: bool, msg: str) -> None:
        if not cond:
            raise AnalysisError(f"{self.prop}/{self.current.rid if self.current else '?'}: {msg}")

    # --- cached analyses -----------------------------------------------------
    def func(self, relpath: str, qualname: str) -> FuncInfo:
        return self.model.func(relpath, qualname)

    def cfg(self, fi: FuncInfo) -> CFG:
        k = (fi.module.relpath, fi.qualname, fi.kind)
        if k not in self._cfg:
            self._cfg[k] = CFG(fi, self.model)
        return self._cfg[k]

    def canon(self, fi: FuncInfo, opts: Optional[CanonOptions] = None) -> tuple:
        return canon_function(fi, self.model, opts)

    def effects(self):
        return self.model.effects()


def load_known_findings() -> dict:
    path = os.path.join(VERIF_DIR, "known_findings.json")
    if not os.path.exists(path):
        return {"findings": [], "fixed": []}
    with open(path) as f:
        return json.load(f)


def run_property(prop: str, tier: str, repo: str = DEFAULT_REPO, overrides: Optional[dict] = None,
                 only_rule: Optional[str] = None, model: Optional[Model] = None) -> tuple[Ctx, Optional[str]]:
    """Run all rules of a property.  Returns (ctx, analysis_error_message)."""
    import importlib
    importlib.import_module(f"rules.{prop}")
    if model is None:
        model = Model(repo, overrides)
    ctx = Ctx(model, prop, tier)
    err: Optional[str] = None
    for rd in RULES.get(prop, []):
        if tier not in rd.tiers:
            continue
        if only_rule and rd.rid != only_rule:
            continue
        ctx.current = rd
        try:
            rd.fn(ctx)
            n = len(ctx.sites.get(rd.rid, []))
            if n < rd.floor and not any(f.rule == rd.rid for f in ctx.findings):
                # (a rule that already reports a violation is not passing vacuously)
                raise AnalysisError(f"{prop}/{rd.rid}: matched {n} site(s), fewer than the confirmed floor {rd.floor} "
                                    f"-- the rule would pass vacuously")
        except AnalysisError as e:
            err = (err + "; " if err else "") + str(e)
        except RecursionError as e:
            err = (err + "; " if err else "") + f"{prop}/{rd.rid}: recursion limit ({e})"
        except Exception as e:  # internal error of a rule = analysis broken, never a pass and never a violation
            tb = traceback.format_exc(limit=6)
            err = (err + "; " if err else "") + f"{prop}/{rd.rid}: internal error {type(e).__name__}: {e}\n{tb}"
        finally:
            ctx.current = None
    return ctx, err


def finish(prop: str, tier: str, ctx: Ctx, err: Optional[str], t0: float, extra: Optional[dict] = None,
           write_evidence: bool = True, seed: int = 0) -> int:
    """Print the verdict lines, write evidence + replay files, return the exit code."""
    known = load_known_findings()
    known_keys = {f"{k['property']}|{k['rule']}|{k['where']}|{k['construct']}": k for k in known.get("findings", [])}
    new: list[Finding] = []
    listed: list[Finding] = []
    seen = set()
    for f in ctx.findings:
        if f.key in seen:
            continue
        seen.add(f.key)
        (listed if f.key in known_keys else new).append(f)

    replay_dir = os.path.join(VERIF_DIR, "evidence", "replay")
    for f in listed:
        print(f"KNOWN-FINDING: property={prop} rule={f.rule} {f.where} :: {known_keys[f.key].get('what', f.message)}")
    rc = 0
    if err:
        print(f"ANALYSIS-ERROR property={prop} {err}")
        rc = 2
    for f in new:
        os.makedirs(replay_dir, exist_ok=True)
        h = hashlib.sha256(f.key.encode()).hexdigest()[:10]
        path = os.path.join(replay_dir, f"{prop}-{f.rule}-{h}.json")
        with open(path, "w") as fh:
            json.dump({"property": prop, "rule": f.rule, "where": f.where, "construct": f.construct,
                       "message": f.message, "details": f.details, "line_hint": f.lineno, "key": f.key}, fh, indent=1)
        print(f"FINDING property={prop} rule={f.rule} at {f.where}:{f.lineno}: {f.message}")
        print(f"    construct: {f.construct}")
        for k, v in f.details.items():
            print(f"    {k}: {v}")
        print(f"VIOLATION property={prop} replay={path}")
        rc = 1   # a reported violation wins over an analysis error of another rule

    if write_evidence:
        write_evidence_file(prop, tier, ctx, err, new, listed, t0, extra, seed)
    return rc


def write_evidence_file(prop: str, tier: str, ctx: Ctx, err: Optional[str], new: list[Finding],
                        listed: list[Finding], t0: float, extra: Optional[dict], seed: int) -> None:
    rules = [rd for rd in RULES.get(prop, []) if tier in rd.tiers]
    per_rule = []
    total_sites = 0
    nontrivial = 0
    samples = []
    bad_rules = {f.rule for f in ctx.findings}
    distinct_sites = set()
    for rd in rules:
        s = ctx.sites.get(rd.rid, [])
        total_sites += len(s)
        for x in s:
            distinct_sites.add((rd.rid, x["where"], x["what"]))
        if s:
            nontrivial += 1
        per_rule.append({"rule": rd.rid, "kind": rd.kind, "what": rd.desc, "floor": rd.floor, "sites": len(s),
                         "holds": rd.rid not in bad_rules})
        for x in s[:2]:
            samples.append({"rule": rd.rid, **{k: (v if isinstance(v, (int, float, bool, str, list, dict)) else str(v))
                                               for k, v in x.items()}})
    st = ctx.model.stats()
    ev = {
        "property_id": prop,
        "tier": tier,
        "seed": seed,
        "level": "other",
        "coverage": {
            "explanation": ("static analysis of /repo's current working tree (stdlib ast; nothing imported or executed): "
                            f"{len(rules)} repository-specific rules evaluated on the resolved program model; each rule "
                            "decides a structural necessary condition of the property on every path / site of the "
                            "anchored code. See DESIGN.md section 6 for the clauses decided and not decided."),
            "obligations": total_sites,
            "discharged": total_sites - len({(f.rule, f.where, f.construct) for f in ctx.findings}),
            "evaluations": total_sites,
            "distinct_nontrivial": len(distinct_sites),
            "rule": ("one evaluation = one rule instance applied to one construct (function, statement, call site, "
                     "path); distinct = distinct (rule, function, construct) triples; non-trivial = the rule actually "
                     "matched the construct it is about (rules matching fewer sites than their hand-confirmed floor "
                     "abort the run with exit 2)"),
            "samples": samples[:40],
            "rules": per_rule,
            "rules_with_sites": nontrivial,
            "model": {**st, "repo": ctx.model.root},
            "known_findings_printed": [f.key for f in listed],
            "new_findings": [{"rule": f.rule, "where": f.where, "construct": f.construct, "message": f.message}
                             for f in new],
            "analysis_error": err,
            "exhaustive": False,
        },
        "assumptions": [
            "asserts are FRAME's rejection mechanism: python -O voids every reject clause",
            "receiver types are resolved from annotations / constructors / unique method names, not by a type checker",
            "a rule decides a structural necessary condition, not the numerical behaviour (DESIGN.md section 1)",
        ],
        "wall_s": round(time.time() - t0, 3),
        "violations": len(new),
    }
    if extra:
        ev["coverage"].update(extra)
    os.makedirs(os.path.join(VERIF_DIR, "evidence"), exist_ok=True)
    with open(os.path.join(VERIF_DIR, "evidence", f"{prop}.json"), "w") as fh:
        json.dump(ev, fh, indent=1, default=str)
