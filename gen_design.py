#!/venv/bin/python
"""gen_design.py -- assembles /verif/DESIGN.md from the hand-written text below and from what the machinery itself
knows: the rule registry (ids, kinds, descriptions, floors), known_findings.json, the seeded changes under
/verif/seeded and the self-validation numbers of the last thorough run (evidence/*.json).  Run after changing rules."""
import json, os, sys, glob
sys.path.insert(0, "/verif")
sys.setrecursionlimit(20000)
from framelint import core

PROPS = [f"C{i:02d}" for i in range(1, 21)]
import importlib
for p in PROPS:
    importlib.import_module(f"rules.{p}")
titles = {json.loads(l)["id"]: json.loads(l)["title"] for l in open("/verif/properties.jsonl")}

NOT_DECIDED = {
 "C01": "that the greedy cover never leads to a rejected valid die for combinatorial reasons (T-junctions, holes); the size of the accumulated round-off of the area sum.  What is decided is that an *accepted* die is exactly what the self-check admits, that the self-check demands the three tiling facts over all four lists with the right tolerances, that regions/fixed rectangles are taken over unchanged and completely, and that the Hanan-grid code treats x and y alike.",
 "C02": "numerical equality of areas and centroids before/after (round-off).  Decided: every new cell is a split piece of its parent (both pieces kept), maps are copied, fixed cells are guarded, the splitter terminates, the measuring formula counts every cell, the split helpers tile (C18 laws evaluated for them).",
 "C03": "the numerical value of an overlap (delegated to the C18 laws evaluated for area_overlap); behaviour for modules whose own rectangles overlap (outside the quantifier).",
 "C04": "how ruamel formats a float; byte equality of two documents.  Decided: key sets, value shapes, attribute reads, kind flags, order (including the emitter flavour), omission constants, purity of the writer, the net/section codecs as inverse pairs, stability of the reader's normalisation.",
 "C05": "the numerical value of centroid / wire length (their *formulas* are decided, with exact vector arithmetic); rejection classes are decided as dominating assertions -- `python -O` voids them.",
 "C06": "geometric completeness of find_location for arbitrary float inputs beyond its tolerance conventions; uniqueness of the trunk when several rectangles qualify (only the deterministic tie rule is decided).",
 "C07": "the model set of the produced CNF and what the SAT solver answers.  Decided: every path posts or raises, the tautology shortcut is strict-aware, Tseitin polarity/children, construction laws of both diagram builders, store discipline, at-most-one encodings, the operator table, the solver/decoder sign table.",
 "C08": "satisfiability / optimality of the search; that a shape is found iff one exists.  Decided: the structure of the generated clauses (closure under the symmetries, anchors, independence of the four border tests, unconditional per-cell constraints, tuple positions) and the exactness of the encoding layer (C07 rules).",
 "C09": "what GEKKO returns; the smoothing tolerance.  Decided: the equation system's structure (tables, mirrors, coverage of all pairs/sides, fixing tables, comparison dispatch) and that branch sides come from the exact find_location.",
 "C10": "what the non-linear solver returns (not applicable).  Decided: the declared model (bounds, capacity, fixed constants), rigid handling of hard modules (recenter + reflection), the rebuilt allocation, the initial grid helper.",
 "C11": "optimal choice of which rectangle to split (any choice is admissible).  Decided: partition-back, consume-all of split results, aspect-ratio re-check of every piece, count, tag inheritance through split/grid helpers.",
 "C12": "convergence speed.  Decided: the decision predicate equals the refinement condition, griddify cuts at all gathered boundaries with kind-correct indices, cuttable tests (C18 laws), termination of the splitter, purity.",
 "C13": "the numerical trajectory of the force iteration.  Decided: fixed modules are never written, the clamp on both axes with the die's own half-sizes, only centres written, no nondeterminism source and no hidden process-wide state, argmin over all spring constants with the same iteration count, exact vector arithmetic.",
 "C14": "the eigenvector iteration, the random start and convergence (runtime quantities).  Decided: normalisation scale (min over movable entries), fixed nodes skipped, span definition size/2 - radius, effects (only centres of movable modules; graph construction writes only the graph), rigid re-centring onto the area-weighted centroid, totality for modules without rectangles.",
 "C15": "exhaustiveness of trunk candidates as a combinatorial fact; the point-in-polygon test's numerical robustness.  Decided: mirror structure of histograms/extraction, index kinds, rectangle geometry from coordinates, validity count, polygon ring closure, recognition of the result as an orthogon (C06 rules).",
 "C16": "semantic equality of arbitrary expressions as a whole.  Decided: scaling law of __mul__, polarity-merge law of __add__, normal form after every coefficient write, term ownership, Ineq operator table, overload tables.",
 "C17": "accuracy (1e-5 rmax^2), bounds and symmetry of the *value* -- numerical clauses, not applicable.  Decided: totality (acos domain clamp, case split before the division by d), mirror structure of the two angles, caller's radii, exact and unsigned centre distance (Point arithmetic).",
 "C18": "round-off of the results.  Decided: symmetries (x/y, low/high, operands), strictness conventions, attribute inheritance, polynomial tiling laws, containment definitions.",
 "C19": "field-by-field equality of every produced document with its source for all objects (only the structural tables: keys, shapes, kinds, names, defaults, order, purity, definite assignment).",
 "C20": "whether a 1000x larger tolerance flips one particular comparison.  Decided: the inventory of process-wide state (globals, module-level containers and objects, class attributes, memo caches) and its writers, tolerance set-once discipline with relative magnitudes, mutable defaults, legaliser slack re-definition, own tolerances.",
}


def rules_table(prop):
    out = ["| rule | kind | what is decided (on every run, on /repo's current source) | floor |", "|---|---|---|---|"]
    for rd in core.RULES.get(prop, []):
        out.append(f"| {rd.rid} | {rd.kind} | {rd.desc} | {rd.floor} |")
    return "\n".join(out)


def seeded_table():
    rows = ["| id | files | change (sub-agent's own heading) | reported by (own property's check) | also reported under | missed before strengthening |", "|---|---|---|---|---|---|"]
    n = missed = 0
    for d in sorted(glob.glob("/verif/seeded/C*-*")):
        m = json.load(open(os.path.join(d, "meta.json")))
        head = ""
        np_ = os.path.join(d, "notes.md")
        if os.path.exists(np_):
            for l in open(np_):
                if l.startswith("#"):
                    head = l.lstrip("# ").strip()
                    break
        own = m["detected_by"].get(m["property"], {})
        rep = ", ".join(own.get("rules", [])) if own.get("exit") == 1 else (f"analysis refused (exit 2): {own.get('error','')[:70]}" if own.get("exit") == 2 else "NOT REPORTED")
        others = ", ".join(f"{k}" + ("(exit 2)" if v.get("exit") == 2 else "") for k, v in sorted(m["detected_by"].items()) if k != m["property"])
        rows.append(f"| {m['id']} | {', '.join(os.path.basename(f) for f in m['files_changed'])} | {head[:110]} | {rep} | {others} | {'yes' if m.get('missed_before_strengthening') else ''} |")
        n += 1
        missed += bool(m.get("missed_before_strengthening"))
    return "\n".join(rows), n, missed


def selftest_table():
    rows = ["| property | mutation sites | mutants run | reported as violation | refused (exit 2) | silent | behaviour-preserving variants run | of which silent | seeded changes reported |", "|---|---|---|---|---|---|---|---|---|"]
    for p in PROPS:
        try:
            c = json.load(open(f"/verif/evidence/{p}.json"))["coverage"]
        except Exception:
            continue
        s = c.get("selftest")
        if not s:
            rows.append(f"| {p} | (evidence is from a quick run) | | | | | | | |")
            continue
        sd = c.get("seeded_changes", {})
        rows.append(f"| {p} | {s['mutation_sites_total']} | {s['mutants_run']} | {s['killed_by_violation']} | {s['refused_as_analysis_error']} | {s['survived']} | "
                    f"{s['refactor_variants_run']} | {s['refactor_variants_silent']} | {sum(1 for v in sd.values() if v.startswith('reported'))}/{len(sd)}" + (f" (+{sum(1 for v in sd.values() if v.startswith('refused'))} refused)" if any(v.startswith('refused') for v in sd.values()) else "") + f" |")
    return "\n".join(rows)


def benign_table():
    try:
        status = json.load(open("/verif/benign/status.json"))
    except Exception:
        status = {}
    rows = ["| id | files | refactor (sub-agent's own heading) | reported when first evaluated | now (all 20 properties) |", "|---|---|---|---|---|"]
    n = silent = 0
    for d in sorted(glob.glob("/verif/benign/C*-b*"), key=lambda x: (x.split("/")[-1].split("-")[0], int(x.split("-b")[-1]))):
        m = json.load(open(os.path.join(d, "meta.json")))
        if not m["verification"]["confirmed"]:
            continue
        head = ""
        np_ = os.path.join(d, "notes.md")
        if os.path.exists(np_):
            for l in open(np_):
                if l.startswith("#"):
                    head = l.lstrip("# ").strip()
                    break
        first = ", ".join(sorted(m.get("reported_by", {}))) or "-"
        st = status.get(m["id"], {})
        now = "silent" if st.get("state") == "ok" and not st.get("reports") else ("reported: " + ", ".join(sorted(st.get("reports", {}))) if st else "?")
        n += 1
        silent += now == "silent"
        rows.append(f"| {m['id']} | {', '.join(os.path.basename(f) for f in m['files_changed'])} | {head[:100]} | {first} | {now} |")
    return "\n".join(rows) + f"\n\n{silent} of {n} confirmed refactors leave all 20 checks silent.", n, silent


known = json.load(open("/verif/known_findings.json"))
fixed_rows = "\n".join(f"* `{x}`" for x in known["fixed"])
kf_rows = "\n".join(f"* **{k['property']} {k['rule']}** at `{k['where']}` (construct `{k['construct']}`): {k['what']}" for k in known["findings"])
st, n_seed, n_missed = seeded_table()
per_prop = "\n\n".join(f"### {p} -- {titles[p]}\n\n{rules_table(p)}\n\nNot decided: {NOT_DECIDED[p]}" for p in PROPS)
n_rules = sum(len(v) for v in core.RULES.values())

TEXT = open("/verif/DESIGN.tmpl.md").read()
TEXT = (TEXT.replace("@@PER_PROPERTY@@", per_prop).replace("@@FIXED@@", fixed_rows).replace("@@KNOWN@@", kf_rows)
        .replace("@@SEEDED@@", st).replace("@@NSEED@@", str(n_seed)).replace("@@NMISSED@@", str(n_missed))
        .replace("@@BENIGN@@", benign_table()[0]).replace("@@SELFTEST@@", selftest_table()).replace("@@NRULES@@", str(n_rules)))
open("/verif/DESIGN.md", "w").write(TEXT)
print("DESIGN.md written:", len(TEXT.splitlines()), "lines;", n_rules, "rules;", n_seed, "seeded changes")
