#!/venv/bin/python
"""benign_eval.py Cxx [...] -- verifies each sub-agent refactor in its scratch worktree (tests pass with it, the
equivalence script prints the same digest with and without it), evaluates ALL properties on /repo's sources with the
refactor applied in memory, and files it under /verif/benign/<id>/ (patch.diff, equiv.py, notes.md, meta.json).
A report by any property on a confirmed behaviour-preserving refactor is a false alarm of the checker."""
import json, os, shutil, subprocess, sys
sys.path.insert(0, "/verif")
sys.setrecursionlimit(20000)
from framelint import core, selftest

def sh(cmd, cwd=None, timeout=1800):
    p = subprocess.run(cmd, shell=True, cwd=cwd, capture_output=True, text=True, timeout=timeout)
    return p.returncode, (p.stdout + p.stderr)

ALL = [f"C{i:02d}" for i in range(1, 21)]
ROUND = int(os.environ.get("BENIGN_ROUND", "1"))
R = "" if ROUND == 1 else str(ROUND)
OFFSET = 3 * (ROUND - 1)
base = {}
for P in [a for a in sys.argv[1:] if not a.startswith("--")]:
    out, wt = f"/tmp/ben{R}_{P}", f"/tmp/wb{R}_{P}"
    for I in range(1, 10):
        diff = f"{out}/refactor_{I}.diff"
        if not os.path.exists(diff):
            continue
        sid = f"{P}-b{I + OFFSET}"
        sh("git checkout -q -- . ; git clean -fdq", wt)
        rc0, o0 = sh(f"PYTHONPATH={wt} /venv/bin/python {out}/equiv_{I}.py", wt)
        rc_apply, _ = sh(f"git apply {diff}", wt)
        rc_t, o_t = sh(f"PYTHONPATH={wt} /venv/bin/python -m pytest -q -p no:cacheprovider tests 2>&1 | tail -1", wt)
        rc1, o1 = sh(f"PYTHONPATH={wt} /venv/bin/python {out}/equiv_{I}.py", wt)
        sh("git checkout -q -- . ; git clean -fdq", wt)
        # the digest is the last line; warnings printed before it carry line numbers that a refactor moves
        last = lambda o: (o.strip().splitlines() or [""])[-1]
        same = rc0 == 0 and rc1 == 0 and last(o0) == last(o1) and last(o0) != ""
        ok = rc_apply == 0 and "46 passed" in o_t and same
        # all properties on the worktree's sources with the refactor applied on disk, against the same worktree without it
        # (the worktree may be a few fix: commits behind /repo; both sides of the comparison use the same base)
        results = {}
        if wt not in base:
            base[wt] = {}
            for Q in ALL:
                c0, e0 = core.run_property(Q, "quick", wt)
                base[wt][Q] = ({f.key for f in c0.findings}, e0)
        rc_apply2, _ = sh(f"git apply {diff}", wt)
        try:
            if rc_apply2 == 0:
                for Q in ALL:
                    ctx, err = core.run_property(Q, "quick", wt)
                    newk = {f.key for f in ctx.findings} - base[wt][Q][0]
                    if newk:
                        results[Q] = {"exit": 1, "findings": sorted(newk)}
                    elif err and not base[wt][Q][1]:
                        results[Q] = {"exit": 2, "error": str(err)[:300]}
        finally:
            sh("git checkout -q -- . ; git clean -fdq", wt)
        d = f"/verif/benign/{sid}"
        os.makedirs(d, exist_ok=True)
        shutil.copy(diff, f"{d}/patch.diff")
        shutil.copy(f"{out}/equiv_{I}.py", f"{d}/equiv.py")
        if os.path.exists(f"{out}/notes_{I}.md"):
            shutil.copy(f"{out}/notes_{I}.md", f"{d}/notes.md")
        meta = {"id": sid, "property": P, "origin": "independent sub-agent asked for behaviour-preserving refactors (given only the property text and a scratch worktree)",
                "files_changed": sorted({l[6:] for l in open(diff).read().splitlines() if l.startswith("+++ b/")}),
                "verification": {"patch_applies": rc_apply == 0, "test_suite_with_patch": o_t.strip().splitlines()[-1] if o_t.strip() else "",
                                 "equiv_digest_original": o0.strip()[-200:], "equiv_digest_refactored": o1.strip()[-200:], "digests_equal": same, "confirmed": ok},
                "reported_by": results}
        json.dump(meta, open(f"{d}/meta.json", "w"), indent=1)
        print(sid, "confirmed" if ok else f"NOT-CONFIRMED(apply={rc_apply} tests={o_t.strip()[-30:]} same={same})", "| reports:", {k: (v['exit'], v.get('findings', v.get('error'))) for k, v in results.items()} or "none")
