#!/venv/bin/python
"""developer aid: show the source change of self-test mutants.  usage: tools_mutant.py Cxx <substring of label> [...]"""
import ast, sys, difflib, json
sys.path.insert(0, "/verif")
sys.setrecursionlimit(20000)
from framelint import selftest
from framelint.srcmodel import Model

prop = sys.argv[1]
subs = sys.argv[2:]
ev = json.load(open(f"/verif/evidence/{prop}.json"))["coverage"]["selftest"]
labels = [l for l in ev["survivors_sample"] if any(s in l for s in subs)] if subs else ev["survivors_sample"]
m = Model("/repo")
for lab in labels:
    where, op, iv = lab.split("|")
    rel, q = where.split("::")
    idx, var = iv.split(".")
    src = m.modules[rel].source
    tree = ast.parse(src)
    fn = selftest._func_node(tree, q)
    before = ast.unparse(fn).splitlines()
    ok = selftest._apply(fn, op, int(idx), int(var))
    after = ast.unparse(fn).splitlines()
    print("=====", lab, "" if ok else "(not applied)")
    for l in difflib.unified_diff(before, after, lineterm="", n=0):
        if not l.startswith(("---", "+++", "@@")):
            print("   ", l)
