#!/venv/bin/python
"""refresh_seed_meta.py [Cxx ...] -- recompute 'detected_by' in /verif/seeded/*/meta.json (all 20 properties evaluated on
/repo's current sources with the stored patch applied in memory); the verification record of the change is kept."""
import json, os, sys, glob
sys.path.insert(0, "/verif")
sys.setrecursionlimit(20000)
from concurrent.futures import ProcessPoolExecutor
ALL = [f"C{i:02d}" for i in range(1, 21)]

def one(d):
    from framelint import core, selftest
    m = json.load(open(os.path.join(d, "meta.json")))
    ov = selftest.patched_sources(os.path.join(d, "patch.diff"), "/repo")
    if ov is None:
        return m["id"], None
    res = {}
    for Q in ALL:
        base, be = core.run_property(Q, "quick", "/repo")
        ctx, err = core.run_property(Q, "quick", "/repo", overrides=ov)
        newk = {f.key for f in ctx.findings} - {f.key for f in base.findings}
        if newk:
            res[Q] = {"exit": 1, "rules": sorted({k.split("|")[1] for k in newk})}
        elif err and not be:
            res[Q] = {"exit": 2, "rules": [], "error": str(err)[:200]}
    m["detected_by"] = res
    m["detected_by_own_property_check"] = m["property"] in res and res[m["property"]]["exit"] == 1
    json.dump(m, open(os.path.join(d, "meta.json"), "w"), indent=1)
    return m["id"], res.get(m["property"])

if __name__ == "__main__":
    want = sys.argv[1:]
    dirs = [d for d in sorted(glob.glob("/verif/seeded/C*-*")) if not want or os.path.basename(d).split("-")[0] in want]
    with ProcessPoolExecutor(16) as ex:
        for sid, own in ex.map(one, dirs):
            print(sid, own)
