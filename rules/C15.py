"""C15 -- grid orthogon decomposition (Strop / StropInstance / strop_decomposition).
Exhaustiveness of the trunk candidates and the point-in-polygon test are combinatorial / numerical: not decided."""
from __future__ import annotations

import ast

from framelint.core import rule, Ctx
from framelint.canon import _shift_bound
from framelint.srcmodel import walk_own, AnalysisError
from framelint.canon import (Canon, CanonOptions, canon_function, show, S, to_poly, mk_lt, mk_not, mk_and, mk_eq, k_num, contains, skey,
                             atoms_of, Sigma, K_TRUE, single_defs, deref, Poly, diff_paths)
from framelint.kinds import IndexSpec, IndexTyper
from framelint.cfg import ENTRY, EXIT
from .common import main_line, STROP, FSUTILS, call_name, norm_stmt, stmt_calls, facts_text
from .C01 import _alpha

S_ = ("self",)
from framelint.canon import canon_function as _canon_function_expanded

def canon_function(fi, model=None, opts=None):   # rules of this file match shapes: look through every local
    return _canon_function_expanded(fi, model, opts, expand=True)



def _init_blocks(ctx: Ctx):
    f = ctx.func(STROP, "StropInstance.__init__")
    body = main_line(f.node.body)
    fors = [st for st in body if isinstance(st, ast.For)]
    return f, body, fors


class _Transpose(Sigma):
    """rows <-> columns, matrix transposed, north <-> west, south <-> east"""
    def __init__(self, matrix_vars: set):
        super().__init__(attrs={"rows": "columns", "columns": "rows", "num_rows": "num_columns", "num_columns": "num_rows",
                                "_north": "_west", "_west": "_north", "_south": "_east", "_east": "_south",
                                "_nrows": "_ncols", "_ncols": "_nrows"},
                         swap_ctors={("g", "StropRectangle")}, index_swap=matrix_vars)


@rule("C15", "R1.side-mirror", "MIRROR",
      "the north/south histogram block and the west/east histogram block of StropInstance are mirror images under "
      "transposition; the four branch-extraction blocks map onto each other (north->west, south->east under "
      "transposition; north->south under reflection of the row index)", floor=4)
def r1(ctx: Ctx) -> None:
    f = ctx.func(STROP, "StropInstance.__init__")
    # decided on the normal form of the whole constructor: how the blocks are cut into helpers, generators and locals plays no role
    c = canon_function(f, ctx.model)

    def flat(stmts):           # the main line, entering the arm of 'if self.valid():'
        out = []
        for st in stmts:
            if st[0] == "if" and len(st) == 4 and not st[3] and contains(st[1], "valid") and any(x[0] == "for" for x in st[2]):
                out += flat(st[2])
            else:
                out.append(st)
        return out
    line = flat(c)
    fors = [i for i, st in enumerate(line) if st[0] == "for"]
    ctx.require(len(fors) >= 6, f"StropInstance.__init__: expected 2 histogram loops and 4 extraction loops, found {len(fors)}")
    hist_a, hist_b = (line[fors[0]],), (line[fors[1]],)
    # extraction regions: the statements from the end of the previous region to the loop, and the conditionals that follow it
    ext, start = [], fors[1] + 1
    for k in range(2, 6):
        i = fors[k]
        first = i
        while first - 1 >= start and line[first - 1][0] == "set" and isinstance(line[first - 1][1], tuple) and line[first - 1][1][:1] == ("v",):
            first -= 1
        j = i + 1
        while j < len(line) and line[j][0] == "if":
            j += 1
        ext.append(tuple(line[first:j]))
        start = j
    matrix_vars = set(atoms_of(c, lambda x: x[0] == "a" and len(x) == 3 and x[2] == "matrix"))
    for v_, d_ in single_defs(c).items():
        if isinstance(d_, tuple) and d_[:1] == ("a",) and len(d_) == 3 and d_[2] == "matrix":
            matrix_vars.add(v_)
    ctx.require(bool(matrix_vars), "StropInstance.__init__: the cell matrix is not read")
    sg = _Transpose(matrix_vars)
    a, b = hist_a, hist_b
    ctx.site(f.where, "N/S histogram block == transpose(W/E histogram block)", statements=len(a))
    ia = _alpha(list(sg.apply(a)))
    ib = _alpha(list(b))
    if ia != ib:
        d = diff_paths(tuple(ia), tuple(ib))
        ctx.report(f.where, f"mirror[histograms] {d[0][:200] if d else ''}", "the north/south and west/east histogram loops are not mirror images under transposition",
                   differences=d)
    names = ["north", "south", "west", "east"]
    ce = dict(zip(names, ext))
    for src, dst in [("north", "west"), ("south", "east")]:
        ctx.site(f.where, f"{src} extraction == transpose({dst} extraction)")
        ia = _alpha(list(sg.apply(ce[src])))
        ib = _alpha(list(ce[dst]))
        if ia != ib:
            d = diff_paths(tuple(ia), tuple(ib))
            ctx.report(f.where, f"mirror[{src}->{dst}] {d[0][:200] if d else ''}", f"the {src} and {dst} branch extraction blocks are not mirror images under transposition", differences=d)
    # reflection of the index along the axis: i -> -i maps [low - v, low - 1] onto [high' + 1, high' + v]

    class _Reflect(Sigma):
        def __init__(self, axis: str, other_lists: dict):
            super().__init__(attrs=other_lists)
            self.axis = axis

        def _ap(self, s):
            if isinstance(s, tuple) and len(s) == 3 and s[0] == "a" and s[2] in ("low", "high") and isinstance(s[1], tuple) and s[1][0] == "a" and s[1][2] == self.axis:
                other = "high" if s[2] == "low" else "low"
                return (-to_poly(("a", super()._ap(s[1]), other))).to_s()
            if isinstance(s, tuple) and len(s) == 4 and s[0] == "c" and s[1] == ("g", "Interval") and len(s[2]) == 2:
                a_, b_ = [super(_Reflect, self)._ap(x) for x in s[2]]
                # only the interval along the reflected axis (it mentions the axis bounds through the count variable)
                if contains(s, self.axis) and not contains(s, "init") and self._is_axis_interval(s):
                    return ("c", ("g", "Interval"), ((-to_poly(self._ap(s[2][1]))).to_s(), (-to_poly(self._ap(s[2][0]))).to_s()), ())
            return super()._ap(s)

        def _is_axis_interval(self, s):
            return any(isinstance(x, tuple) and contains(x, self.axis) for x in s[2])
    for src, dst, axis, lists in [("north", "south", "rows", {"_north": "_south", "_south": "_north"}),
                                  ("west", "east", "columns", {"_west": "_east", "_east": "_west"})]:
        ctx.site(f.where, f"{src} extraction == reflect({dst} extraction) along {axis}")
        ia = _alpha(list(_Reflect(axis, lists).apply(ce[src])))
        ib = _alpha(list(ce[dst]))
        if ia != ib:
            d = diff_paths(tuple(ia), tuple(ib))
            ctx.report(f.where, f"mirror[{src}->{dst}] {d[0][:200] if d else ''}", f"the {src} and {dst} branch extraction blocks are not reflections of each other "
                       f"(rows [low - v, low - 1] <-> [high + 1, high + v])", differences=d)


@rule("C15", "R2.trunk-search", "CLOSED/TUPLE",
      "the trunk candidates are those found on the matrix and on its transpose (mapped back by exchanging rows and "
      "columns) whose four corner quadrants are empty; the quadrants are exactly rows<low|rows>high x cols<low|cols>high", floor=3)
def r2(ctx: Ctx) -> None:
    f = ctx.func(STROP, "Strop._get_potential_trunks")
    c = canon_function(f, ctx.model)
    c = deref(c, single_defs(c))
    from .common import self_field
    m = self_field(f, "_m")
    NROWS, NCOLS = self_field(f, "_nrows"), self_field(f, "_ncols")
    b10, b20 = ("b", 1, 0), ("b", 2, 0)
    ctx.site(f.where, "second candidate set computed on the transposed matrix and mapped back")
    tr = atoms_of(c, lambda x: x[0] == "comp" and x[1] == "list" and x[2] and x[2][0][0] == "comp")
    ok_t = False
    for t in tr:
        outer_b, outer_it, _ = t[3][0]
        inner = t[2][0]
        inner_b, inner_it, _ = inner[3][0]
        if inner[2][0] == ("s", ("s", m, inner_b), _shift_bound(outer_b, 1)) and inner_it == ("c", ("g", "range"), (NROWS,), ()) and \
                outer_it == ("c", ("g", "range"), (NCOLS,), ()):
            ok_t = True
    back = atoms_of(c, lambda x: x[0] == "c" and x[1] == ("g", "StropRectangle") and len(x[2]) == 2 and x[2][0][0] == "a" and x[2][0][2] == "columns"
                    and x[2][1][0] == "a" and x[2][1][2] == "rows" and x[2][0][1] == x[2][1][1])
    inter = atoms_of(c, lambda x: x[0] == "c" and x[1][0] == "a" and x[1][2] == "intersection")
    if not (ok_t and back and inter):
        ctx.report(f.where, f"transpose-search transposed={ok_t} mapped-back={bool(back)} intersect={bool(inter)}",
                   "the trunk search does not intersect the candidates of the matrix with those of its transpose mapped back by StropRectangle(r.columns, r.rows)",
                   lineno=f.node.lineno)
    ctx.site(f.where, "candidates filtered by the empty-corner test")
    if not contains(c, ("a", S_, "_empty_corners")):
        ctx.report(f.where, "no-corner-filter", "trunk candidates are not filtered by the empty-corner test", lineno=f.node.lineno)
    g = ctx.func(STROP, "Strop._empty_corners")
    cg = canon_function(g, ctx.model)
    R = ("p", 0)
    ctx.site(g.where, "four quadrants: rows before/after the trunk x columns before/after the trunk; all must be empty")
    lo_r = ("c", ("g", "range"), (("a", ("a", R, "rows"), "low"),), ())
    hi_r = ("c", ("g", "range"), ((to_poly(("a", ("a", R, "rows"), "high")) + Poly.const(1)).to_s(), NROWS), ())
    lo_c = ("c", ("g", "range"), (("a", ("a", R, "columns"), "low"),), ())
    hi_c = ("c", ("g", "range"), ((to_poly(("a", ("a", R, "columns"), "high")) + Poly.const(1)).to_s(), NCOLS), ())
    want = {(lo_r, lo_c), (lo_r, hi_c), (hi_r, lo_c), (hi_r, hi_c)}
    got = set()
    anys = atoms_of(cg, lambda x: x[0] == "c" and x[1] == ("g", "any"))
    for a in anys:
        comp = a[2][0]
        if comp[0] == "comp" and len(comp[3]) == 2:
            (b0, it0, c0), (b1, it1, c1) = comp[3]
            if comp[2][0] == ("s", ("s", m, b0), b1) and c0 == K_TRUE and c1 == K_TRUE:
                got.add((it0, it1))
            elif comp[2][0] == ("s", ("s", m, b1), b0) and c0 == K_TRUE and c1 == K_TRUE:
                got.add((it1, it0))
    # the answer as one expression (a single return, or guards that return False as soon as one quadrant has a cell)
    from framelint.peval import value_expr
    val = value_expr(cg)
    neg_ok = val is not None and val[0] == "and" and all(x[0] == "not" for x in val[1]) and len(val[1]) == 4
    if got != want or not neg_ok:
        ctx.report(g.where, f"corner-quadrants {len(got & want)}/4 negated={neg_ok}", "_empty_corners does not test exactly the four quadrants "
                   "(rows < low | rows > high) x (columns < low | columns > high) for emptiness", lineno=g.node.lineno)
    # prime rectangles: diagonal = row interval; upper triangle = intersection of neighbours
    t = ctx.func(STROP, "Strop._get_trunks_matrix")
    ct = canon_function(t, ctx.model)
    ctx.site(t.where, "interval table: diagonal = row interval, rect[r][c] = rect[r+1][c] & rect[r][c-1]")
    sets = atoms_of(ct, lambda x: x[0] == "set" and len(x) == 3 and x[1][0] == "s" and x[1][1][0] == "s")
    ok = False
    for st in sets:
        row, col = st[1][1][2], st[1][2]
        tab = st[1][1][1]
        want_v = ("c", ("a", ("s", ("s", tab, (to_poly(row) + Poly.const(1)).to_s()), col), "intersection"), (("s", ("s", tab, row), (to_poly(col) - Poly.const(1)).to_s()),), ())
        alt_v = ("c", ("a", ("s", ("s", tab, row), (to_poly(col) - Poly.const(1)).to_s()), "intersection"), (("s", ("s", tab, (to_poly(row) + Poly.const(1)).to_s()), col),), ())
        if st[2] in (want_v, alt_v):
            ok = True
    if not ok:
        ctx.report(t.where, "interval-recurrence", "the common column interval of rows r..c is not computed as rect[r+1][c] & rect[r][c-1]", lineno=t.node.lineno)


def _strop_spec(extra_containers=None, params=None) -> IndexSpec:
    cont = dict(extra_containers or {})
    return IndexSpec(containers=cont, attr_paths={("rows", "low"): "ROW", ("rows", "high"): "ROW", ("columns", "low"): "COL", ("columns", "high"): "COL"},
                     attrs={"num_rows": "ROW", "num_columns": "COL", "_nrows": "ROW", "_ncols": "COL"}, params=params or {})


@rule("C15", "R3.index-kinds", "KIND(INDEX-OF)",
      "row indices subscript only the first level of the matrix, the east/west histograms and the y coordinate list; column "
      "indices only the second level, the north/south histograms and the x coordinate list; the high side of a rectangle is "
      "coordinate[index + 1]; centre = midpoint, size = high - low", floor=3)
def r3(ctx: Ctx) -> None:
    f = ctx.func(STROP, "StropInstance.__init__")
    c = canon_function(f, ctx.model)
    defs = single_defs(c)
    # containers: m -> (ROW, COL); h_north/h_south -> COL ; h_east/h_west -> ROW   (identified by their initial size)
    cont = {}
    for st in c:
        if st[0] == "set" and len(st) == 3 and st[1][0] == "v":
            v, e = st[1], st[2]
            if e[0] == "a" and e[2] == "matrix":
                cont[v] = ("ROW", "COL")
            p = to_poly(e)
            if contains(e, "num_columns") and contains(e, ("list", (k_num(0),))):
                cont[v] = "COL"
            if contains(e, "num_rows") and contains(e, ("list", (k_num(0),))):
                cont[v] = "ROW"
    if not any(isinstance(k, tuple) and isinstance(v_, tuple) for k, v_ in cont.items()):
        cont[("a", ("p", 0), "matrix")] = ("ROW", "COL")      # the alias 'm = p.matrix' is inlined
    ctx.require(len(cont) >= 5, f"StropInstance.__init__: matrix and four histograms not identified ({len(cont)})")
    ty = IndexTyper(_strop_spec(cont))
    for st in c:
        ty.walk(st)
    ctx.site(f.where, "index kinds in StropInstance.__init__", uses_checked=ty.checked, unresolved=ty.unknown, mismatches=len(ty.mismatches))
    ctx.require(ty.checked - ty.unknown >= 15, f"fewer resolved index uses than confirmed ({ty.checked - ty.unknown})")
    for m_ in ty.mismatches:
        ctx.report(f.where, f"index-kind {m_.use[-40:]} {show(m_.expr)} wants {m_.want} got {m_.got}",
                   f"a {m_.got} index is used where a {m_.want} index is required in the branch histograms / extraction", lineno=f.node.lineno)
    g = ctx.func(STROP, "Strop._empty_corners")
    cg = canon_function(g, ctx.model)
    ty2 = IndexTyper(_strop_spec({("a", S_, "_m"): ("ROW", "COL")}))
    for st in cg:
        ty2.walk(st)
    ctx.site(g.where, "index kinds in _empty_corners", uses_checked=ty2.checked, unresolved=ty2.unknown)
    for m_ in ty2.mismatches:
        ctx.report(g.where, f"index-kind {show(m_.expr)} wants {m_.want} got {m_.got}", "row/column index mix-up in the corner test", lineno=g.node.lineno)
    # strop_decomposition
    d = ctx.func(FSUTILS, "strop_decomposition")
    cd = canon_function(d, ctx.model)
    xs = sorted({a for a in atoms_of(cd, lambda x: x[0] == "c" and x[1] == ("g", "sorted") and contains(x, "x") and not contains(x, "reverse"))}, key=skey)
    ys = sorted({a for a in atoms_of(cd, lambda x: x[0] == "c" and x[1] == ("g", "sorted") and dict(x[3]).get("reverse") == K_TRUE)}, key=skey)
    ctx.require(len(xs) == 1 and len(ys) == 1, "strop_decomposition: coordinate lists not identified")
    ty3 = IndexTyper(_strop_spec({xs[0]: "COL", ys[0]: "ROW"}))
    for st in cd:
        ty3.walk(st)
    ctx.site(d.where, "index kinds in strop_decomposition", uses_checked=ty3.checked, unresolved=ty3.unknown)
    ctx.require(ty3.checked - ty3.unknown >= 8, "strop_decomposition: fewer resolved coordinate subscripts than confirmed")
    for m_ in ty3.mismatches:
        ctx.report(d.where, f"index-kind {show(m_.expr)} wants {m_.want} got {m_.got}", "a row index subscripts the x coordinates (or a column index the y coordinates)",
                   lineno=d.node.lineno)
    # rectangle geometry from indices
    loops = [lp for lp in cd if lp[0] == "for" and contains(lp[2], "rectangles")]
    ctx.site(d.where, "rectangle = [mid x, mid y, x[high+1] - x[low], y[low] - y[high+1]] (y sorted downwards)")
    ok = False
    if len(loops) == 1:
        r = loops[0][1]
        body = deref(loops[0][3], single_defs(loops[0][3]))
        x0 = ("s", xs[0], ("a", ("a", r, "columns"), "low"))
        x1 = ("s", xs[0], (to_poly(("a", ("a", r, "columns"), "high")) + Poly.const(1)).to_s())
        y0 = ("s", ys[0], ("a", ("a", r, "rows"), "low"))
        y1 = ("s", ys[0], (to_poly(("a", ("a", r, "rows"), "high")) + Poly.const(1)).to_s())
        half = __import__("fractions").Fraction(1, 2)

        def fl(e):
            return ("c", ("g", "float"), (e,), ())
        want = ("list", (fl((to_poly(x0) + to_poly(x1)).scale(half).to_s()), fl((to_poly(y0) + to_poly(y1)).scale(half).to_s()),
                         fl((to_poly(x1) - to_poly(x0)).to_s()), fl((to_poly(y0) - to_poly(y1)).to_s())))
        ok = any(st[0] == "expr" and contains(st, "append") and contains(st, want) for st in body)
    if not ok:
        ctx.report(d.where, "rectangle-from-indices", "the rectangles are not built as centre = midpoint and size = coordinate[high + 1] - coordinate[low]", lineno=d.node.lineno)


@rule("C15", "R4.validity", "OBLIGATION",
      "a decomposition is valid iff trunk + rays account for all set cells of the grid; refusing a non-STROP dominates the "
      "use of an instance; rectangles() refuses an invalid instance", floor=3)
def r4(ctx: Ctx) -> None:
    f = ctx.func(STROP, "StropInstance.__init__")
    c = canon_function(f, ctx.model)
    s_ = ("self",)
    counts = [st for st in c if st[0] == "set" and st[1] == ("a", s_, "_num_cells")]
    ctx.site(f.where, "number of cells counts every set cell of the whole grid")
    ok = False
    if len(counts) == 1:
        e = deref(counts[0][2], single_defs(c))
        if e[0] == "c" and e[1] == ("g", "sum") and e[2][0][0] == "comp" and len(e[2][0][3]) == 2:
            (b0, it0, c0), (b1, it1, c1) = e[2][0][3]
            ok = contains(it0, "num_rows") and contains(it1, "num_columns") and it0[1] == ("g", "range") and len(it0[2]) == 1 and len(it1[2]) == 1 and \
                c0 == K_TRUE and c1[0] == "s" and c1[2] == b1 and c1[1][2] == b0 and e[2][0][2][0] == k_num(1)
    if not ok:
        ctx.report(f.where, "cell-count", "the number of cells of the polygon is not the count of all set cells of the grid", lineno=f.node.lineno)
    ctx.site(f.where, "valid iff number of cells == trunk area + rays")
    valid = [st for st in c if st[0] == "set" and st[1] == ("a", s_, "_valid")]
    ok = False
    if len(valid) == 1 and valid[0][2][0] == "eq0":
        p = to_poly(valid[0][2][1])
        ok = len(p.t) == 2 and any(a == ("a", s_, "_num_cells") for a in p.atoms())
        tot = [a for a in p.atoms() if a != ("a", s_, "_num_cells")]
        if ok and tot:
            inits = [st for st in c if st[0] == "set" and st[1] == tot[0]]
            incs = atoms_of(c, lambda x: x[0] == "aug" and x[1] == "Add" and x[2] == tot[0] and x[3] == k_num(1))
            ok = len(inits) == 1 and contains(inits[0][2], "area") and len(incs) == 4
    if not ok:
        ctx.report(f.where, "validity-test", "validity is not 'number of set cells == trunk area + one per ray cell (4 directions)'", lineno=f.node.lineno)
    r = ctx.func(STROP, "StropInstance.rectangles")
    facts = [set(ctx.cfg(r).cond_facts(a.test, True)) for a in walk_own(r.node) if isinstance(a, ast.Assert)]
    ctx.site(r.where, "rectangles() refuses an invalid instance")
    if not any(("c", ("a", s_, "valid"), (), ()) in fs for fs in facts):
        ctx.report(r.where, "rectangles-invalid", "rectangles() does not assert that the instance is valid", lineno=r.node.lineno)
    d = ctx.func(FSUTILS, "strop_decomposition")
    g = ctx.cfg(d)
    ctx.site(d.where, "'assert is_strop' dominates the use of the decomposition")
    uses = [n for n in g.stmt_nodes() if n.kind in ("stmt", "iter") and any(isinstance(x, ast.Call) and call_name(x) in ("instances", "rectangles") for x in ast.walk(n.ast if n.kind == "stmt" else n.ast.iter))]
    ctx.require(len(uses) >= 1, "strop_decomposition: use of the decomposition not found")
    for n in uses:
        fs = g.facts_at(n.id)
        if not any(fa[0] == "a" and fa[2] == "is_strop" for fa in fs):
            ctx.report(d.where, "unchecked-decomposition", "an instance of the decomposition is used without 'assert is_strop' having been passed", lineno=n.lineno)
    st = ctx.func(STROP, "Strop.__init__")
    cst = canon_function(st, ctx.model)
    ctx.site(st.where, "only valid instances are kept")
    loops = [lp for lp in cst if lp[0] == "for" and contains(lp[2], "_get_potential_trunks")]
    ok = False
    if len(loops) == 1:
        body = loops[0][3]
        ok = any(x[0] == "if" and x[1][0] == "c" and x[1][1][0] == "a" and x[1][1][2] == "valid" and contains(x[2], "append") and x[3] == () for x in body)
    if not ok:
        ctx.report(st.where, "keeps-invalid", "Strop.__init__ does not keep exactly the instances whose valid() is true", lineno=st.node.lineno)


@rule("C15", "R5.polygon-ring", "LOOP-COVER",
      "the even-odd inside test walks all n edges of the vertex ring, including the closing edge from the last vertex back "
      "to the first (vertices[(i + 1) % n] for i in range(n)); the crossing test is half-open on y", floor=1)
def r5(ctx: Ctx) -> None:
    f = ctx.func(FSUTILS, "is_point_inside_polygon")
    c = canon_function(f, ctx.model)
    verts = ("p", 1)
    n = ("c", ("g", "len"), (verts,), ())
    loops = [lp for lp in c if lp[0] == "for"]
    ctx.site(f.where, "edge loop: i in range(len(vertices)), second endpoint vertices[(i + 1) % n]", loops=len(loops))
    ok = False
    # the edges are walked by a loop or by a comprehension (counting crossings): either way over range(n), reading
    # vertices[i] and vertices[(i + 1) % n]
    walks = [(lp[1], lp[2], lp[3]) for lp in loops]
    for cp in atoms_of(c, lambda x: x[0] == "comp" and len(x) == 4 and len(x[3]) == 1):
        walks.append((cp[3][0][0], cp[3][0][1], (cp[2], cp[3][0][2])))
    walks = [w for w in walks if w[1] == ("c", ("g", "range"), (n,), ())]
    if len(walks) == 1:
        i, _, body_ = walks[0]
        nxt = ("s", verts, ("bin", "Mod", (to_poly(i) + Poly.const(1)).to_s(), n))
        ok = contains(body_, nxt) and contains(body_, ("s", verts, i))
    if not ok:
        # an explicit closing of the ring is acceptable as well: zip(vertices, vertices[1:] + vertices[:1])
        ok = contains(c, ("g", "zip")) and contains(c, ("slice", K_NONE if False else ("k", "none"), k_num(1), ("k", "none")))
    if not ok:
        ctx.report(f.where, "ring-not-closed", "the inside test does not visit the closing edge (last vertex -> first vertex): for an open vertex list cells next to that edge "
                   "are classified wrongly and the decomposition has the wrong area or is refused", lineno=f.node.lineno)


@rule("C15", "R6.recognised-as-orthogon", "SHARED(C06)",
      "a decomposition loaded as a module is recognised as a single-trunk orthogon with the trunk first: the recognition "
      "rules of C06 (every rectangle tried as trunk by identity, the same predicate for all, pruning only after a valid "
      "trunk, trunk swapped to the front, sides from find_location) evaluated for the converter's output", floor=8)
def r6(ctx: Ctx) -> None:
    from . import C06 as _c06
    from .common import support
    support(ctx, [_c06.r1, _c06.r2, _c06.r5, _c06.r6, _c06.r7], {"create_stog", "Rectangle.find_location", "Module.create_stog", "Module.has_stog"})


@rule("C15", "R7.run-extraction", "LOOP-COVER",
      "the branches on a side are the maximal runs of equal non-zero height of that side's histogram: whenever the height changes "
      "the open run is closed (emitted if its height is not 0) AND a new run is opened at the current index with the new height -- "
      "both unconditionally -- and the last run is emitted after the loop; four loops, one per side", floor=4)
def r7_runs(ctx: Ctx) -> None:
    f = ctx.func(STROP, "StropInstance.__init__")
    c = canon_function(f, ctx.model)
    n = bad = 0
    for lp in atoms_of(c, lambda x: x[0] == "for" and len(x) == 5 and len(x[3]) == 1 and x[3][0][0] == "if" and x[3][0][3] == ()):
        i = lp[1]
        chg = lp[3][0]
        p_ = chg[1]
        if not (p_[0] == "ne0" and contains(p_, i)):
            continue
        hists = [a for a in to_poly(p_[1]).atoms() if a[0] == "s" and a[2] == i]
        curs = [a for a in to_poly(p_[1]).atoms() if a[0] == "v"]
        if len(hists) != 1 or len(curs) != 1:
            continue
        n += 1
        hist, cur = hists[0], curs[0]
        arm = chg[2]
        reopened = [st for st in arm if st[0] == "set" and len(st) == 3 and st[2] == i and st[1][0] == "v"]
        updated = ("set", cur, hist) in arm
        emits = [st for st in arm if st[0] == "if" and st[3] == () and contains(st[2], "append") and st[1] == ("ne0", (-to_poly(cur)).leading_sign_normalised().to_s())
                 or (st[0] == "if" and st[3] == () and contains(st[2], "append") and contains(st[1], cur) and st[1][0] == "ne0")]
        ctx.site(f.where, "height change: run closed (emitted if non-zero), new run opened at the current index, height updated", loop_over=show(lp[2])[:80],
                 reopened=len(reopened), updated=updated, emits=len(emits))
        if len(reopened) != 1 or not updated or len(emits) != 1 or len(arm) != 3:
            bad += 1
            ctx.report(f.where, f"run-not-reopened {show(hist)[:40]}", "when the height of the histogram changes the next run is not opened at the current index "
                       "unconditionally (or the height is not updated / the closed run not emitted): a branch that follows a branch of another non-zero height "
                       "starts where the previous one started, so the rectangles overlap and the module's shape is wrong", lineno=f.node.lineno)
    ctx.require(n >= 4 or bad, f"run-extraction loops not found ({n})")


@rule("C15", "R8.cell-membership", "LOOP-COVER",
      "the occupancy string of a polygon is decided cell by cell with the even-odd inside test: in strop_decomposition every cell of "
      "the rows x columns grid gets '1' exactly when is_point_inside_polygon(centre of the cell, the given vertices) holds (no "
      "shortcut that assumes a row of the polygon is one contiguous run)", floor=1)
def r8_cells(ctx: Ctx) -> None:
    f = ctx.func(FSUTILS, "strop_decomposition")
    c = canon_function(f, ctx.model)
    one, zero = ("k", "str", "1"), ("k", "str", "0")

    def is_inside_test(t):
        return t[0] == "c" and t[1] == ("g", "is_point_inside_polygon") and len(t[2]) == 2 and t[2][1] == ("p", 0) \
            and t[2][0][0] == "c" and t[2][0][1] == ("g", "Point")
    marks = []
    depths = []
    seen: set = set()
    # the spellings: a conditional that adds '1' or '0', one addition of ('1' if inside else '0'), or that conditional value as the
    # element of the comprehensions whose pieces are joined; 'depth' counts the loops and comprehension clauses around the mark

    def walk(x, depth):
        if not isinstance(x, tuple) or not x:
            return
        if x[0] == "for" and len(x) == 5:
            walk(x[2], depth)
            for y in x[3]:
                walk(y, depth + 1)
            for y in x[4]:
                walk(y, depth)
            return
        if x[0] == "comp" and len(x) == 4:
            for k, cl in enumerate(x[3]):
                walk(cl[1], depth + k)
                walk(cl[2], depth + k + 1)
            for y in x[2]:
                walk(y, depth + len(x[3]))
            return
        if x[0] == "if" and len(x) == 4:
            adds_one = [y for y in x[2] if y[0] == "aug" and y[1] == "Add" and y[3] == one]
            adds_zero = [y for y in x[3] if y[0] == "aug" and y[1] == "Add" and y[3] == zero]
            if adds_one or adds_zero:
                if x not in seen:
                    seen.add(x)
                    marks.append(is_inside_test(x[1]) and len(adds_one) == 1 and len(adds_zero) == 1 and len(x[2]) == 1 and len(x[3]) == 1)
                    depths.append(depth)
        if x[0] == "ite" and len(x) == 4 and {x[2], x[3]} == {one, zero}:
            if x not in seen:          # a looked-through local shows the same mark at each of its reads
                seen.add(x)
                marks.append(is_inside_test(x[1]) and x[2] == one)
                depths.append(depth)
        for y in x:
            walk(y, depth)
    for st in c:
        walk(st, 0)
    nested = [d for d in depths if d >= 2]
    ctx.site(f.where, "'1' is appended exactly when is_point_inside_polygon(cell centre, vertices) holds, once per cell of the grid", marks=len(marks), nested_loops=len(nested))
    if marks != [True] or not nested:
        ctx.report(f.where, "cell-membership", "a cell of the grid is not marked occupied exactly when its centre passes the even-odd inside test against the given "
                   "vertices: polygons whose rows are not one contiguous run (U, comb, H shapes) get their gaps filled in", lineno=f.node.lineno)


def _enclosing(fi, target):
    out = []

    def rec(node, stack):
        for ch in ast.iter_child_nodes(node):
            if ch is target:
                out.extend(stack)
                return True
            if rec(ch, stack + ([ch] if isinstance(ch, (ast.For, ast.While)) else [])):
                return True
        return False
    rec(fi.node, [])
    return out


@rule("C15", "R9.interval-intersection", "ORDERINGS",
      "two row / column intervals that share exactly one cell intersect: Interval.intersection reports the empty interval only when "
      "max(lows) > min(highs) (strictly), and [max(lows), min(highs)] otherwise -- the one-cell overlap of two shifted rows is the "
      "only legal trunk of a staircase polygon.  Decided on the paths of the normal form: the literal that compares max(lows) with "
      "min(highs) on every path that ends in the empty / the non-empty answer", floor=1)
def r9_interval(ctx: Ctx) -> None:
    from framelint.peval import paths
    from framelint.canon import K_NONE
    f = ctx.func(STROP, "Interval.intersection")
    c = canon_function(f, ctx.model)
    O = ("p", 0)
    M = ("c", ("g", "max"), (("a", O, "low"), ("a", S_, "low")), ())
    M2 = ("c", ("g", "max"), (("a", S_, "low"), ("a", O, "low")), ())
    m_ = ("c", ("g", "min"), (("a", O, "high"), ("a", S_, "high")), ())
    m2 = ("c", ("g", "min"), (("a", S_, "high"), ("a", O, "high")), ())
    ds = {(to_poly(b) - to_poly(a)).to_s() for a in (M, M2) for b in (m_, m2)}           # min(highs) - max(lows)
    nds = {(to_poly(a) - to_poly(b)).to_s() for a in (M, M2) for b in (m_, m2)}
    decided = 0
    for lits, outcome in paths(c, fall=K_NONE, split_values=True):
        empty = outcome == ("g", "EMPTY_INTERVAL") or (isinstance(outcome, tuple) and outcome[:2] == ("c", ("g", "Interval")) and outcome[2] == (k_num(-1), k_num(-1)))
        full = isinstance(outcome, tuple) and outcome[:2] == ("c", ("g", "Interval")) and contains(outcome, ("g", "max")) and contains(outcome, ("g", "min"))
        def atoms_(lit):
            """the comparisons a branch literal is made of: a conjunction that holds / fails, a disjunction that holds / fails -- each
            comparison with the polarity it has (for a failed conjunction / a disjunction that holds: may have) on this path"""
            if isinstance(lit, tuple) and lit[:1] in (("and",), ("or",)):
                return [a for x in lit[1] for a in atoms_(x)]
            if isinstance(lit, tuple) and lit[:1] == ("not",) and isinstance(lit[1], tuple) and lit[1][:1] in (("and",), ("or",)):
                return [a for x in lit[1][1] for a in atoms_(mk_not(x))]
            return [lit]
        for lit in [a for l_ in lits for a in atoms_(l_)]:
            pos = not (isinstance(lit, tuple) and lit[:1] == ("not",))
            core = lit if pos else lit[1]
            if not (isinstance(core, tuple) and core[:1] == ("lt0",)):
                continue
            # d = min(highs) - max(lows); the intersection is non-empty exactly when d >= 0
            if core[1] in ds:        # the literal is  d < 0  (positive)  /  d >= 0  (negated)
                bad = (empty and not pos) or (full and pos)
            elif core[1] in nds:     # the literal is  d > 0  (positive)  /  d <= 0  (negated): d == 0 must not end in the empty answer
                bad = empty or (full and not pos)
            else:
                continue
            decided += 1
            if bad:
                ctx.report(f.where, "one-cell-overlap-lost", "Interval.intersection calls two intervals with max(lows) == min(highs) disjoint (or keeps a reversed interval): "
                           "rows or columns that overlap in exactly one cell have no common trunk any more, so staircase polygons are not decomposed", lineno=f.node.lineno)
    ctx.site(f.where, "empty exactly when max(lows) > min(highs)", comparisons_decided=decided)
    ctx.require(decided >= 1, "Interval.intersection: the comparison of max(lows) with min(highs) was not found")


@rule("C15", "R10.loaded-as-module-recognised", "SHARED(C06)",
      "the decomposition loaded as a module is recognised as a single-trunk orthogon for every kind of module (FloorSet blocks "
      "are hard / fixed): the netlist's create_stog call sites do not depend on a kind flag -- C06.R10 evaluated for C15 "
      "(seeded change C15-9)", floor=2)
def shared_recognition(ctx: Ctx) -> None:
    from .C06 import recognition_for_every_kind
    recognition_for_every_kind(ctx)
