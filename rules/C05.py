"""C05 -- a loaded netlist matches its definition; ill-formed designs are rejected."""
from __future__ import annotations

import ast

from framelint.core import rule, Ctx
from framelint.srcmodel import walk_own, AnalysisError
from framelint.canon import (canon_function, show, S, to_poly, mk_lt, mk_and, mk_or, mk_not, mk_eq, k_num, k_str, contains,
                             skey, atoms_of, Sigma, Poly, diff_paths, K_FALSE, K_TRUE, K_NONE)
from framelint.cfg import EXIT, ENTRY
from .common import (GEOM, NETLIST, MODULE, NTYPES, YREAD, sigma_xy, stmt_calls, exit_facts, facts_text, call_name,
                     norm_stmt, assert_conjuncts, enclosing_loops, kw_value)
from framelint.canon import canon_function as _canon_function_expanded

def canon_function(fi, model=None, opts=None):   # rules of this file match shapes: look through every local
    return _canon_function_expanded(fi, model, opts, expand=True)



def top_asserts(block) -> set:
    out = set()
    for st in block:
        if st[0] == "assert":
            out |= set(st[1][1]) if st[1][0] == "and" else {st[1]}
    return out


def _loops(c, pred=lambda lp: True):
    return [lp for lp in atoms_of(c, lambda x: x[0] == "for" and len(x) == 5) if pred(lp)]


def _len_lower_bound(e: S, facts: set) -> int:
    """lower bound of len(e) from asserted facts 'len(x) >= k' and slicing"""
    return max(_len_from_facts(e, facts), _len_structural(e, facts))


def _len_structural(e: S, facts: set) -> int:
    if e[0] == "ite":
        return min(_len_lower_bound(e[2], facts), _len_lower_bound(e[3], facts))
    if e[0] == "s" and e[2][0] == "slice":
        base = _len_lower_bound(e[1], facts)
        lo, hi, step = e[2][1], e[2][2], e[2][3]
        drop = 0
        if lo != ("k", "none"):
            v = to_poly(lo)
            if not v.is_const():
                return 0
            c = int(v.const_value())
            drop += c if c >= 0 else 0
            if c < 0:
                return min(base, -c)
        if hi != ("k", "none"):
            v = to_poly(hi)
            if not v.is_const():
                return 0
            c = int(v.const_value())
            if c < 0:
                drop += -c
            else:
                return max(0, min(base, c) - drop)
        return max(0, base - drop)
    if e[0] == "c" and e[1] in (("g", "list"), ("g", "tuple")) and len(e[2]) == 1:
        return _len_lower_bound(e[2][0], facts)
    return 0


def _len_from_facts(e: S, facts: set) -> int:
    best = 0
    for f in facts:
        # not (len(e) - k < 0)   <=>  len(e) >= k
        if f[0] == "not" and f[1][0] == "lt0":
            p = to_poly(f[1][1])
            ln = ("c", ("g", "len"), (e,), ())
            if p.t.get(((ln, 1),)) == 1 and len(p.t) == 2:
                best = max(best, int(-p.const_value()))
        if f[0] == "lt0":   # k - len(e) < 0  <=> len(e) > k
            p = to_poly(f[1])
            ln = ("c", ("g", "len"), (e,), ())
            if p.t.get(((ln, 1),)) == -1 and len(p.t) <= 2:
                best = max(best, int(p.const_value()) + 1)
        if f[0] == "eq0":
            p = to_poly(f[1])
            ln = ("c", ("g", "len"), (e,), ())
            if len(p.t) == 2 and abs(p.t.get(((ln, 1),), 0)) == 1:
                best = max(best, abs(int(p.const_value())))
    return best


@rule("C05", "R1.reject-classes", "OBLIGATION/LEN",
      "each of the eleven ill-formed classes is refused by an assertion that every offending item must pass: unknown "
      "module in a net, weight > 0, area > 0, soft without area, hard with area, hard without rectangles, hard with "
      "overlapping rectangles (all pairs), unknown attribute (reader and constructor), invalid name, one-pin net "
      "(length-interval analysis of the member list), non-positive rectangle size", floor=12)
def r1(ctx: Ctx) -> None:
    m = ctx.model
    # 1 + 2: Netlist.__init__
    fn = ctx.func(NETLIST, "Netlist.__init__")
    c = canon_function(fn, m)
    edge_loops = _loops(c, lambda lp: contains(lp[2], "parse_yaml_netlist") or lp[2][0] in ("v", "u"))
    edge_loops = [lp for lp in edge_loops if contains(lp[3], ("g", "HyperEdge"))]
    ctx.require(len(edge_loops) == 1, "Netlist.__init__: loop over the parsed nets not found")
    e = edge_loops[0][1]
    body = edge_loops[0][3]
    ctx.site(fn.where, "every net: weight > 0 asserted before the net is stored")
    if mk_lt(k_num(0), ("a", e, "weight")) not in top_asserts(body):
        ctx.report(fn.where, "reject-weight", "a net with non-positive weight is not refused for every net", lineno=fn.node.lineno)
    inner = [lp for lp in body if lp[0] == "for" and lp[2] == ("a", e, "modules")]
    ctx.site(fn.where, "every member of every net: name known before it is resolved")
    ok = False
    if len(inner) == 1:
        b = inner[0][1]
        ok = ("cmp", "in", b, ("a", ("self",), "_name2module")) in top_asserts(inner[0][3])
        # the lookup itself also raises KeyError for an unknown name; the obligation is the assert
    if not ok:
        ctx.report(fn.where, "reject-unknown-module", "an unknown module name in a net is not refused for every member of every net", lineno=fn.node.lineno)

    # 3: area > 0
    fa = ctx.func(MODULE, "Module._read_region_area")
    ca = canon_function(fa, m)
    from framelint.peval import paths
    ctx.site(fa.where, "scalar area > 0 and every per-region area > 0")
    area = ("p", 0)
    # every way to a result either took the mapping form (asserted to be a dict) or asserted the scalar to be > 0
    pos = {mk_lt(k_num(0), ("c", ("g", "float"), (area,), ())), mk_lt(k_num(0), area)}
    is_map = ("c", ("g", "isinstance"), (area, ("g", "dict")), ())
    def conjuncts(l):
        out_ = set()
        for t in l:
            out_ |= set(t[1]) if t[0] == "and" else {t}
        return out_
    done = [(conjuncts(l), o) for l, o in paths(ca, fall=K_NONE) if not (isinstance(o, tuple) and o[:1] == ("raise",))]
    def known_map(l):
        # asserted directly, or by an asserted disjunction all of whose other alternatives are excluded on this path
        if is_map in l:
            return True
        return any(t[0] == "or" and is_map in t[1] and all(d == is_map or mk_not(d) in l for d in t[1]) for t in l)
    scalar_ok = bool(done) and all(known_map(l) or (pos & l) for l, o in done) and any(pos & l for l, o in done)
    from .common import dict_loops as _dict_loops
    dict_loops = _dict_loops(ca, area)
    dict_ok = False
    if len(dict_loops) == 1:
        _lp, reg, a_ = dict_loops[0]
        ta = top_asserts(_lp[3])
        dict_ok = mk_lt(k_num(0), a_) in ta and ("c", ("g", "is_number"), (a_,), ()) in ta and ("c", ("g", "valid_identifier"), (reg,), ()) in ta
    if not scalar_ok or not dict_ok:
        ctx.report(fa.where, f"reject-area scalar={scalar_ok} dict={dict_ok}", "a non-positive (or non-numeric) area is not refused in both the scalar and the per-region form",
                   lineno=fa.node.lineno)
    # the constructor routes KW_AREA through it
    fc = ctx.func(MODULE, "Module.__init__")
    cc = canon_function(fc, m)
    ctx.site(fc.where, "constructor reads the area through the validating helper")
    if not any(st[0] == "set" and st[1] == ("a", ("self",), "_area_regions") and contains(st[2], "_read_region_area")
               for st in atoms_of(cc, lambda x: x[0] == "set" and len(x) == 3)):
        ctx.report(fc.where, "area-unvalidated", "Module.__init__ stores the area without the validating helper", lineno=fc.node.lineno)

    # 4, 5, 6: Module.setup
    fs = ctx.func(MODULE, "Module.setup")
    cs = canon_function(fs, m)
    s_ = ("self",)
    hard = ("a", s_, "is_hard")
    from framelint.canon import _truth
    area_def = _truth(mk_lt(k_num(0), ("c", ("g", "len"), (("a", s_, "area_regions"),), ())))
    ta = top_asserts(cs)
    ctx.site(fs.where, "soft module without area refused")
    if mk_or([hard, area_def]) not in ta:
        ctx.report(fs.where, "reject-soft-no-area", "a soft module without area is not refused", lineno=fs.node.lineno)
    # what is asserted for hard modules: inside 'if self.is_hard:', or -- the normal form -- as the implication 'not hard or ...'
    hard_blocks = [st for st in cs if st[0] == "if" and st[1] == hard]
    th = top_asserts(hard_blocks[0][2]) if len(hard_blocks) == 1 else set()
    for t in ta:
        if t[0] == "or" and mk_not(hard) in t[1]:
            rest = [d for d in t[1] if d != mk_not(hard)]
            th.add(rest[0] if len(rest) == 1 else mk_or(rest))
    ctx.site(fs.where, "hard module with an area refused")
    if mk_not(area_def) not in th:
        ctx.report(fs.where, "reject-hard-area", "a hard module with an area is not refused", lineno=fs.node.lineno)
    ctx.site(fs.where, "hard module without rectangles refused (terminals excepted)")
    if mk_or([("a", s_, "is_terminal"), mk_lt(k_num(0), ("a", s_, "num_rectangles"))]) not in th:
        ctx.report(fs.where, "reject-hard-no-rect", "a hard, non-terminal module without rectangles is not refused", lineno=fs.node.lineno)
    # setup must actually be run by the reader after the rectangles are attached
    fr = ctx.func(YREAD, "parse_yaml_module")
    g = ctx.cfg(fr)
    ctx.site(fr.where, "reader runs setup() on every path, after attaching the rectangles")

    def is_setup(n):
        return n.kind == "stmt" and any(isinstance(c_, ast.Call) and call_name(c_) == "setup" for c_ in ast.walk(n.ast))
    if not g.must_pass(is_setup, ENTRY, EXIT):
        ctx.report(fr.where, "setup-skipped", "parse_yaml_module can return a module whose consistency checks (setup) did not run", lineno=fr.node.lineno)
    for n in g.stmt_nodes():
        if n.kind == "stmt" and any(isinstance(c_, ast.Call) and call_name(c_) == "add_rectangle" for c_ in ast.walk(n.ast)):
            if not g.must_pass(is_setup, n.id, EXIT):
                ctx.report(fr.where, "setup-before-rectangles", "rectangles are attached after setup(): the hard-module checks do not see them", lineno=n.lineno)

    # 7: hard overlapping rectangles -- all pairs, every module
    fcr = ctx.func(NETLIST, "Netlist._create_rectangles")
    ccr = canon_function(fcr, m)
    ctx.site(fcr.where, "hard modules: no two rectangles overlap (all unordered pairs, every module)")
    ok = False
    for lp in _loops(ccr, lambda lp: lp[2] == ("a", s_, "modules")):
        mv = lp[1]
        for st in lp[3]:
            if st[0] == "if":
                conj = set(st[1][1]) if st[1][0] == "and" else {st[1]}
                if ("a", mv, "is_hard") in conj and conj <= {("a", mv, "is_hard"), mk_not(("a", mv, "is_terminal"))}:
                    for ilp in st[2]:
                        if ilp[0] == "for" and ilp[2] == ("c", ("g", "combinations"), (("a", mv, "rectangles"), k_num(2)), ()) and ilp[1][0] == "tuple":
                            a_, b_ = ilp[1][1]
                            for x in ilp[3]:
                                if x[0] == "assert" and x[1][0] == "not" and x[1][1][0] == "c" and x[1][1][1][0] == "a" and x[1][1][1][2] == "overlap" \
                                        and {x[1][1][1][1], x[1][1][2][0]} == {a_, b_}:
                                    ok = True
    if not ok:
        ctx.report(fcr.where, "reject-hard-overlap", "overlapping rectangles of a hard module are not refused for all pairs of every hard module", lineno=fcr.node.lineno)

    # 8: unknown attribute -- reader and constructor
    cr = canon_function(fr, m)
    ctx.site(fr.where, "reader: unknown module attribute refused")
    key_loops = [(x[0][0], x[0][1], x[0][2], x[0][3], x[0][4], x[1]) for x in _dict_loops(cr, ("p", 1))]
    ok = False
    known = {k_str(kw_value(ctx, k)) for k in ["KW_AREA", "KW_TERMINAL", "KW_FIXED", "KW_HARD", "KW_FLIP", "KW_CENTER", "KW_ASPECT_RATIO", "KW_RECTANGLES"]}
    if len(key_loops) == 1:
        kv = key_loops[0][5]
        # walk the if/elif chain: the final else must refuse
        st = [x for x in key_loops[0][3] if x[0] == "if"]
        seen = set()
        cur = st[0] if st else None
        from .common import eq_constants

        def refuses(arm):
            return len(arm) >= 1 and (arm[0] == ("assert", K_FALSE) or arm[0][0] == "raise")
        while cur is not None:
            cnd = cur[1]
            pos = eq_constants(cnd, kv)
            neg = eq_constants(mk_not(cnd), kv) if pos is None else None
            if pos is not None:          # 'if key is one of K: handle  else: <rest of the chain>'
                seen |= pos
                nxt = cur[3]
            elif neg is not None:        # 'if key is none of K: <rest of the chain>  else: handle'
                seen |= neg
                nxt = cur[2]
            else:
                break
            if len(nxt) == 1 and nxt[0][0] == "if":
                cur = nxt[0]
            else:
                ok = refuses(nxt) and seen == known
                cur = None
        # the normal form of 'else: assert False' at the end of the chain: the assertion 'key is one of the known attributes'
        if not ok:
            for a_st in key_loops[0][3]:
                if a_st[0] == "assert" and eq_constants(a_st[1], kv) == known:
                    ok = True
    if not ok:
        ctx.report(fr.where, "reject-unknown-attr-reader", "the reader does not refuse an unknown module attribute (or its key table differs from the documented one)",
                   lineno=fr.node.lineno)
    ctx.site(fc.where, "constructor: unknown keyword refused")
    ctor_keys = {k_str(kw_value(ctx, k)) for k in ["KW_CENTER", "KW_ASPECT_RATIO", "KW_AREA", "KW_TERMINAL", "KW_HARD", "KW_FIXED", "KW_FLIP"]}
    ok = False
    for lp in _loops(cc, lambda lp: contains(lp[2], "items")):
        kv = lp[1][1][0] if lp[1][0] == "tuple" else None
        for t in top_asserts(lp[3]):
            from .common import eq_constants
            if eq_constants(t, kv) == ctor_keys:
                ok = True
    if not ok:
        ctx.report(fc.where, "reject-unknown-attr-ctor", "Module.__init__ does not refuse an unknown keyword", lineno=fc.node.lineno)

    # 9: invalid name
    ctx.site(fc.where, "invalid module name refused")
    facts = exit_facts(ctx, fc)
    if ("c", ("g", "valid_identifier"), (("p", 0),), ()) not in facts:
        ctx.report(fc.where, "reject-invalid-name", "Module.__init__ does not refuse an invalid name", lineno=fc.node.lineno)

    # 10: net arity (LEN)
    fe = ctx.func(YREAD, "parse_yaml_edges")
    ce = canon_function(fe, m)
    lps = _loops(ce, lambda lp: lp[2] == ("p", 0))
    ctx.require(len(lps) == 1, "parse_yaml_edges: loop over the nets not found")
    ev = lps[0][1]
    facts = top_asserts(lps[0][3])
    ctors = atoms_of(lps[0][3], lambda x: x[0] == "c" and x[1] == ("g", "NamedHyperEdge"))
    ctx.require(len(ctors) >= 1, "parse_yaml_edges: NamedHyperEdge construction not found")
    # member-list variable defined in the loop?
    env = {st[1]: st[2] for st in lps[0][3] if st[0] == "set" and len(st) == 3}
    for ctor in ctors:
        members = ctor[2][0] if ctor[2] else dict(ctor[3]).get("modules")
        members = env.get(members, members)
        lb = _len_lower_bound(members, facts)
        ctx.site(fe.where, "member list of a stored net has at least two names (length-interval analysis)", members=show(members)[:120], lower_bound=lb)
        if lb < 2:
            ctx.report(fe.where, f"reject-one-pin-net lower-bound={lb}",
                       "the member list of a net can have fewer than two names: len(net) >= 2 is checked on the raw list, then a trailing "
                       "weight is stripped, so [B, 3] is loaded as a one-pin net", lineno=fe.node.lineno, members=show(members)[:200])
    ctx.site(fe.where, "every member is a string")
    str_ok = any(il[0] == "for" and ("c", ("g", "isinstance"), (("s", ev, il[1]), ("g", "str")), ()) in top_asserts(il[3]) for il in lps[0][3])
    # the same loop over the elements (index loops have this form): for name in entry[:-1]: assert isinstance(name, str)
    str_ok = str_ok or any(il[0] == "for" and (il[2] == ev or (il[2][0] == "s" and il[2][1] == ev and il[2][2][0] == "slice")) and
                           ("c", ("g", "isinstance"), (il[1], ("g", "str")), ()) in top_asserts(il[3]) for il in lps[0][3])
    if not str_ok:      # the same check spelt 'assert all(isinstance(name, str) for name in <the member entries>)'
        b0 = ("b", 1, 0)
        for t in top_asserts(lps[0][3]):
            if t[0] == "c" and t[1] == ("g", "all") and len(t[2]) == 1 and t[2][0][0] == "comp" and len(t[2][0][3]) == 1:
                comp = t[2][0]
                bv, it, cond = comp[3][0]
                if comp[2] == (("c", ("g", "isinstance"), (bv, ("g", "str")), ()),) and cond == K_TRUE and contains(it, ev) and \
                        (it == ev or (it[0] == "s" and it[1] == ev and it[2][0] == "slice")):
                    str_ok = True
    if not str_ok:
        ctx.report(fe.where, "reject-non-string-member", "non-string net members are not refused", lineno=fe.node.lineno)

    # 11: rectangle size > 0
    frc = ctx.func(GEOM, "Rectangle.__init__")
    pos = 0
    for node, a, conj, fs_ in assert_conjuncts(ctx, frc):
        for t in conj:
            if t[0] == "lt0" and (contains(t, "w") or contains(t, "h")) and any(contains(f, k_str(kw_value(ctx, "KW_SHAPE"))) for f in fs_):
                pos += 1
    ctx.site(frc.where, "rectangle width and height > 0", asserts=pos)
    if pos < 2:
        ctx.report(frc.where, "reject-rect-size", "Rectangle.__init__ does not refuse non-positive width or height", lineno=frc.node.lineno)
    fpr = ctx.func(GEOM, "parse_yaml_rectangle")
    from .common import unversion
    cpr = unversion(canon_function(fpr, m), 0)       # the reader first coerces a list argument into a tuple
    ctx.site(fpr.where, "rectangle reader: 4..5 entries, four numerics >= 0")
    # the four numeric fields, each asserted to be a number and >= 0 (a loop over range(4) is, in the normal form, one
    # assertion per field)
    ta_ = top_asserts(cpr)
    okr = all(mk_not(mk_lt(("s", ("p", 0), k_num(i)), k_num(0))) in ta_
              and any(contains(t, ("g", "isinstance")) and contains(t, ("s", ("p", 0), k_num(i))) for t in ta_) for i in range(4))
    if not okr:
        ctx.report(fpr.where, "reject-rect-fields", "parse_yaml_rectangle does not check all four of x, y, w, h to be numbers >= 0", lineno=fpr.node.lineno)


@rule("C05", "R2.definitions", "LAW/MIRROR",
      "derived quantities are computed by their definition: module area = sum of all region areas (hard: sum of all "
      "rectangle areas); centroid = sum(area*centre)/sum(area) with x/y mirror symmetry; wire length = weight * sum of "
      "distances from every member centre to the mean of all member centres; netlist wire length = sum over all nets", floor=6)
def r2(ctx: Ctx) -> None:
    m = ctx.model
    s_ = ("self",)
    fa = ctx.func(MODULE, "Module.area")
    ca = canon_function(fa, m)
    ctx.site(fa.where, "total area == sum of all region areas (memoised)")
    from .common import self_field
    total = ("c", ("g", "sum"), (("c", ("a", self_field(fa, "_area_regions"), "values"), (), ()),), ())
    sets = [st for st in atoms_of(ca, lambda x: x[0] == "set" and len(x) == 3) if st[1] == ("a", s_, "_total_area")]
    if len(sets) != 1 or sets[0][2] != total:
        ctx.report(fa.where, "area-definition", "Module.area() is not the sum of all per-region areas", lineno=fa.node.lineno)
    ctx.site(fa.where, "per-region area: stored value, 0 for an absent region")
    from framelint.peval import value_expr
    from framelint.canon import mk_ite, K_NONE
    regs = self_field(fa, "_area_regions")
    per_region = value_expr(tuple(st for st in ca if not (st[0] == "if" and st[1] == ("cmp", "is", ("p", 0), K_NONE))))
    if per_region != mk_ite(("cmp", "in", ("p", 0), regs), ("s", regs, ("p", 0)), k_num(0)):
        ctx.report(fa.where, "area-region-definition", "Module.area(region) does not return the stored area of that region", lineno=fa.node.lineno)
    fs = ctx.func(MODULE, "Module.setup")
    cs = canon_function(fs, m)
    rect_sum = ("c", ("g", "sum"), (("comp", "gen", (("a", ("b", 1, 0), "area"),), ((("b", 1, 0), ("a", s_, "rectangles"), ("k", "bool", True)),)),), ())
    ctx.site(fs.where, "hard module area == sum of all rectangle areas (ground region)")
    sets = atoms_of(cs, lambda x: x[0] == "set" and len(x) == 3 and x[1] in (("a", s_, "_area_regions"), ("a", s_, "_total_area")))
    ok = len(sets) == 2 and any(st[1][2] == "_total_area" and st[2] == rect_sum for st in sets) and \
        any(st[1][2] == "_area_regions" and st[2] == ("dict", ((k_str(kw_value(ctx, "KW_GROUND")), rect_sum),)) for st in sets)
    if not ok:
        ctx.report(fs.where, "hard-area-definition", "the area of a hard module is not the sum of the areas of all its rectangles", lineno=fs.node.lineno)
    # centroid
    fc = ctx.func(MODULE, "Module.calculate_center_from_rectangles")
    cc = canon_function(fc, m)
    loops = _loops(cc, lambda lp: lp[2] == ("a", s_, "rectangles"))
    ctx.site(fc.where, "centroid == sum(area * centre) / sum(area) over all rectangles, x and y alike")
    ok = False
    if len(loops) == 1:
        r = loops[0][1]
        augs = [st for st in loops[0][3] if st[0] == "aug" and st[1] == "Add"]
        acc = {}
        for st in augs:
            acc[st[2]] = st[3]
        ra = ("a", r, "area")
        wx = (to_poly(ra) * to_poly(("a", ("a", r, "center"), "x"))).to_s()
        wy = (to_poly(ra) * to_poly(("a", ("a", r, "center"), "y"))).to_s()
        vx = [v for v, e in acc.items() if e == wx]
        vy = [v for v, e in acc.items() if e == wy]
        va = [v for v, e in acc.items() if e == ra]
        if len(vx) == 1 and len(vy) == 1 and len(va) == 1 and len(acc) == 3 and len(loops[0][3]) == 3:
            inits = {st[1]: st[2] for st in cc if st[0] == "set" and len(st) == 3}
            zero_ok = all(inits.get(v) == k_num(0) for v in (vx[0], vy[0], va[0]))
            want = ("c", ("g", "Point"), ((to_poly(vx[0]) * to_poly(("inv", va[0]))).to_s(), (to_poly(vy[0]) * to_poly(("inv", va[0]))).to_s()), ())
            ok = zero_ok and any(st[0] == "set" and st[1] == ("a", s_, "center") and st[2] == want for st in cc)
    if not ok:
        ctx.report(fc.where, "centroid-definition", "the module centre is not Point(sum(area*x)/sum(area), sum(area*y)/sum(area)) over all its rectangles",
                   lineno=fc.node.lineno)
    # the netlist computes it for every module that has rectangles
    fcr = ctx.func(NETLIST, "Netlist._create_rectangles")
    ccr = canon_function(fcr, m)
    ctx.site(fcr.where, "centre recomputed for every module with rectangles")
    ok = False
    for lp in _loops(ccr, lambda lp: lp[2] == ("a", s_, "modules")):
        mv = lp[1]
        for st in lp[3]:
            if st[0] == "if" and st[1] == mk_lt(k_num(0), ("a", mv, "num_rectangles")) and \
                    st[2] == (("expr", ("c", ("a", mv, "calculate_center_from_rectangles"), (), ())),):
                ok = True
    if not ok:
        ctx.report(fcr.where, "centroid-not-applied", "the netlist does not recompute the centre of every module that has rectangles", lineno=fcr.node.lineno)
    # wire length
    fw = ctx.func(NTYPES, "HyperEdge.wire_length")
    cw = canon_function(fw, m)
    ctx.site(fw.where, "wire length == weight * sum_b |mean(centres) - centre_b| over all members")
    # the returned value as one expression (however the computation is cut into loops, locals and helper lists)
    from framelint.symsum import returned_value
    got = returned_value(cw)
    b0 = ("b", 1, 0)
    mods = ("a", s_, "modules")
    n_ = ("c", ("g", "len"), (mods,), ())
    total = ("c", ("g", "sum"), (("comp", "gen", (("a", b0, "center"),), ((b0, mods, K_TRUE),)),), ())
    zero = ("c", ("g", "Point"), (k_num(0), k_num(0)), ())
    ok = False
    for z in (True, False):                     # the sum of the centres may start from Point(0, 0)
        cen = (to_poly(total) + (to_poly(zero) if z else Poly())) * to_poly(("inv", n_))
        for sign in (1, -1):
            v = ((cen - to_poly(("a", b0, "center"))) * Poly.const(sign)).to_s()
            from framelint.canon import Sigma as _Sg
            v = _Sg(raw_subst={}).apply(v)
            for dist in (("c", ("g", "sqrt"), (("bin", "BitAnd", v, v),), ()), ("c", ("a", v, "norm"), (), ())):
                # inside the outer sum the centroid's own sum is one comprehension level further in: its bound variable is its own
                want = (to_poly(("a", s_, "weight")) * to_poly(("c", ("g", "sum"), (("comp", "gen", (dist,), ((b0, mods, K_TRUE),)),), ()))).to_s()
                if got == want:
                    ok = True
    if not ok:
        ctx.report(fw.where, "wirelength-definition", "HyperEdge.wire_length is not weight * sum of distances from each member centre to the mean of all member centres",
                   lineno=fw.node.lineno)
    fnw = ctx.func(NETLIST, "Netlist.wire_length")
    cnw = canon_function(fnw, m)
    ctx.site(fnw.where, "netlist wire length == sum over all nets")
    ok = len(cnw) == 1 and cnw[0][0] == "ret" and cnw[0][1][0] == "c" and cnw[0][1][1] == ("g", "sum") and cnw[0][1][2][0][0] == "comp" and \
        cnw[0][1][2][0][3] == ((("b", 1, 0), ("a", s_, "edges"), ("k", "bool", True)),) and cnw[0][1][2][0][2] == (("a", ("b", 1, 0), "wire_length"),)
    if not ok:
        ctx.report(fnw.where, "netlist-wirelength", "Netlist.wire_length is not the sum of the wire lengths of all nets", lineno=fnw.node.lineno)
    # ... and both are evaluated afresh on every read: a plain property (the centres move between reads)
    for g_ in (fw, fnw):
        names_ = []
        for d in g_.node.decorator_list:
            core_ = d.func if isinstance(d, ast.Call) else d
            names_.append(core_.id if isinstance(core_, ast.Name) else (core_.attr if isinstance(core_, ast.Attribute) else ast.unparse(core_)))
        ctx.site(g_.where, "recomputed on every read (plain property, no memo)", decorators=names_)
        memo = [n_ for n_ in names_ if "cache" in n_ or "memo" in n_]
        stores_ = [n for n in walk_own(g_.node) if isinstance(n, (ast.Attribute, ast.Subscript)) and isinstance(n.ctx, ast.Store)]
        if memo or stores_:
            ctx.report(g_.where, f"wirelength-memoised {g_.qualname}", f"{g_.qualname} keeps the value it computed ({', '.join(memo) or 'stored in a field'}): modules "
                       "move between reads (and a deep copy takes the stored value along), so a later read reports the wire length of an earlier layout",
                       lineno=g_.node.lineno)
    # Point.__and__ is the dot product, norm the euclidean norm
    fd = ctx.func(GEOM, "Point.__and__")
    cd = canon_function(fd, m)
    ctx.site(fd.where, "Point & Point is the dot product")
    want = (to_poly(("a", s_, "x")) * to_poly(("a", ("p", 0), "x")) + to_poly(("a", s_, "y")) * to_poly(("a", ("p", 0), "y"))).to_s()
    if cd != (("ret", want),):
        ctx.report(fd.where, "dot-product", "Point.__and__ is not x1*x2 + y1*y2", lineno=fd.node.lineno)


@rule("C05", "R3.rectangle-lists", "DATAFLOW",
      "Netlist.rectangles is the concatenation of all module rectangle lists in module order; fixed_rectangles keeps "
      "exactly the rectangles whose fixed flag is set", floor=2)
def r3(ctx: Ctx) -> None:
    s_ = ("self",)
    f = ctx.func(NETLIST, "Netlist.fixed_rectangles")
    c = canon_function(f, ctx.model)
    b = ("b", 1, 0)
    ctx.site(f.where, "fixed_rectangles == [r for r in self.rectangles if r.fixed]")
    from .common import collect_of
    rets_ = [st for st in c if st[0] == "ret"]
    col = collect_of(c, rets_[0][1]) if len(rets_) == 1 and rets_[0][1][:1] == ("v",) else None
    if not (col is not None and len(col) == 1 and col[0][0] == ("a", s_, "rectangles") and col[0][2] == col[0][1] and col[0][3] == ("a", col[0][1], "fixed")):
        ctx.report(f.where, "fixed-rectangles " + "; ".join(show(x) for x in c)[:200], "fixed_rectangles does not filter the full rectangle list on the fixed flag",
                   lineno=f.node.lineno)
    fcr = ctx.func(NETLIST, "Netlist._create_rectangles")
    ccr = canon_function(fcr, ctx.model)
    sets = [st for st in ccr if st[0] == "set" and st[1] == ("a", s_, "_rectangles")]
    ctx.site(fcr.where, "rectangles == [r for m in modules for r in m.rectangles]")
    b0, b1 = ("b", 1, 0), ("b", 1, 1)
    want = ("comp", "list", (b1,), ((b0, ("a", s_, "modules"), ("k", "bool", True)), (b1, ("a", b0, "rectangles"), ("k", "bool", True))))
    if len(sets) != 1 or sets[0][2] != want:
        ctx.report(fcr.where, "all-rectangles", "the netlist rectangle list is not the concatenation of all module rectangle lists", lineno=fcr.node.lineno)


@rule("C05", "R4.flag-propagation", "DATAFLOW",
      "every rectangle the netlist reader builds for a module receives that module's fixed and hard flags (all spellings of "
      "the rectangle list, and later re-assignment): fixed_rectangles() and the 'hard rectangle cannot have a region' "
      "rejection depend on them", floor=3)
def r4(ctx: Ctx) -> None:
    # decided on the normal form (locals looked through, keywords bound to positions, helpers cut out of these functions unfolded):
    # the flags a rectangle is built with are the function's own flag parameters / the flags of the module at hand
    from framelint.canon import canon_function as _cf
    n = 0

    def flag_of(x, which):
        """x is <module>.is_fixed / .is_hard (or the field behind it): the module expression, else None"""
        names = {"fixed": ("is_fixed", "_fixed"), "hard": ("is_hard", "_hard")}[which]
        if isinstance(x, tuple) and len(x) == 3 and x[0] == "a" and x[2] in names:
            return x[1]
        return None
    for rel, q, kind in [(YREAD, "parse_yaml_rectangles", "params"), (NETLIST, "Netlist.assign_rectangles", "module")]:
        f = ctx.func(rel, q)
        c = _cf(f, ctx.model, None, expand=True)
        calls = atoms_of(c, lambda x: x[0] == "c" and len(x) == 4 and x[1] == ("g", "parse_yaml_rectangle"))
        ctx.require(len(calls) >= 1, f"{q}: no parse_yaml_rectangle call")
        for c_ in calls:
            n += 1
            args = c_[2]
            if kind == "params":
                ok = len(args) == 3 and not c_[3] and args[1] == ("p", 1) and args[2] == ("p", 2)
            else:
                ok = len(args) == 3 and not c_[3] and flag_of(args[1], "fixed") is not None and flag_of(args[1], "fixed") == flag_of(args[2], "hard")
            ctx.site(f.where, "rectangle parsed with the module's fixed and hard flags", call=show(c_)[:100], ok=ok)
            if not ok:
                ctx.report(f.where, f"flags-dropped {show(c_)[:80]}", f"{q} builds a rectangle without the module's fixed/hard flags (in that order): the rectangle of a "
                           "fixed module is not reported by fixed_rectangles() and a hard rectangle with a region is accepted", lineno=f.node.lineno)
    fm = ctx.func(YREAD, "parse_yaml_module")
    cm = _cf(fm, ctx.model, None, expand=True)
    calls = atoms_of(cm, lambda x: x[0] == "c" and len(x) == 4 and x[1] == ("g", "parse_yaml_rectangles"))
    ctx.site(fm.where, "module reader passes m.is_fixed, m.is_hard to the rectangle-list reader", calls=len(calls))
    for c_ in calls:
        n += 1
        args = c_[2]
        ok = len(args) == 3 and not c_[3] and flag_of(args[1], "fixed") is not None and flag_of(args[1], "fixed") == flag_of(args[2], "hard")
        if not ok:
            ctx.report(fm.where, f"flags-dropped {show(c_)[:80]}", "parse_yaml_module does not hand the module's (is_fixed, is_hard) to the rectangle reader", lineno=fm.node.lineno)
    ctx.require(n >= 3, "fewer rectangle-construction sites than confirmed")


def _str_value(ctx: Ctx, f, e: ast.expr):
    """the string a pattern expression denotes: a literal, a single-assignment local, or a module-level constant"""
    from .common import resolve_local
    e = resolve_local(f.node, e)
    if isinstance(e, ast.Constant) and isinstance(e.value, str):
        return e.value
    if isinstance(e, ast.Name):
        v = ctx.model.global_constant(f.module, e.id)
        if isinstance(v, str):
            return v
    return None


def _re_flags(e) -> int:
    import re
    if e is None:
        return 0
    fl = 0
    for n in ast.walk(e):
        if isinstance(n, ast.Attribute) and isinstance(n.value, ast.Name) and n.value.id == "re" and n.attr.isupper():
            fl |= int(getattr(re, n.attr, 0))
    return fl


@rule("C05", "R5.identifier-language", "LAW(regex)",
      "valid_identifier accepts exactly the ASCII identifiers: strings, matched in full, first character in [A-Za-z_], "
      "the others in [A-Za-z0-9_] (the pattern literal is read with the regex parser, character class by character "
      "class; nothing is matched)", floor=2)
def r5(ctx: Ctx) -> None:
    from framelint.regexlang import head_tail_classes, sample_points
    from .common import UTILS, resolve_local
    f = ctx.func(UTILS, "valid_identifier")
    calls = [c for c in walk_own(f.node) if isinstance(c, ast.Call) and isinstance(c.func, ast.Attribute) and c.func.attr in ("fullmatch", "match", "search")]
    if len(calls) != 1:
        raise AnalysisError("valid_identifier: the one regular-expression test was not found")
    c = calls[0]
    pat = flags_e = None
    if isinstance(c.func.value, ast.Name) and c.func.value.id == "re":
        pat = _str_value(ctx, f, c.args[0]) if c.args else None
        flags_e = c.args[2] if len(c.args) > 2 else next((k.value for k in c.keywords if k.arg == "flags"), None)
    else:
        # a compiled pattern: local or module-level  X = re.compile(P[, flags])
        comp = resolve_local(f.node, c.func.value)
        if isinstance(comp, ast.Name):
            sts = f.module.global_assigns.get(comp.id, [])
            comp = sts[0].value if len(sts) == 1 and isinstance(sts[0], (ast.Assign, ast.AnnAssign)) else None
        if isinstance(comp, ast.Call) and call_name(comp) == "compile" and comp.args:
            pat = _str_value(ctx, f, comp.args[0])
            flags_e = comp.args[1] if len(comp.args) > 1 else next((k.value for k in comp.keywords if k.arg == "flags"), None)
    if pat is None:
        raise AnalysisError("valid_identifier: pattern literal not resolved")
    how = c.func.attr
    ctx.site(f.where, "identifier pattern", pattern=pat, matched_with=how)
    ht = head_tail_classes(pat, _re_flags(flags_e))
    ref = head_tail_classes("[A-Za-z_][A-Za-z0-9_]*")
    anchored_end = how == "fullmatch" or pat.endswith("$") or pat.endswith("\\Z")
    ok = ht is not None and how in ("fullmatch", "match") and anchored_end
    diff = []
    if ok:
        for ch in sample_points():
            if ht[0](ch) != ref[0](ch) or ht[1](ch) != ref[1](ch):
                diff.append(ch)
                if len(diff) >= 5:
                    break
        ok = not diff
    if not ok:
        ctx.report(f.where, f"identifier-language {pat!r}", "valid_identifier does not accept exactly the strings [A-Za-z_][A-Za-z0-9_]*: names outside the documented "
                   "alphabet (or with a valid prefix only) are accepted, or valid ones refused", lineno=f.node.lineno,
                   differs_on=[f"U+{ord(x):04X}" for x in diff])
    # non-strings are refused before the pattern is applied
    g = ctx.cfg(f)
    node = [n for n in g.stmt_nodes() if n.kind == "stmt" and any(x is c for x in ast.walk(n.ast))]
    ctx.site(f.where, "non-strings refused before matching")
    isstr = ("c", ("g", "isinstance"), (("p", 0), ("g", "str")), ())
    if not node or isstr not in g.facts_at(node[0].id):
        ctx.report(f.where, "identifier-non-string", "valid_identifier applies the pattern to a value not known to be a string", lineno=f.node.lineno)



@rule("C05", "R6.geometry-primitives", "SHARED(C18)",
      'the overlap test that refuses overlapping rectangles of a hard module is the exact one: Rectangle.overlap / area_overlap / area satisfy the C18 rules -- evaluated for the helpers the loader calls', floor=6)
def shared_geometry(ctx: Ctx) -> None:
    from . import C18 as _c18
    from .common import support
    support(ctx, [_c18.r1, _c18.r3, _c18.r4, _c18.r6], {"Rectangle.overlap", "Rectangle.area_overlap", "Rectangle.area", "Rectangle.bounding_box"})


@rule("C05", "R7.vector-arithmetic", "LAW",
      "the centroid and wire-length formulas are evaluated with exact vector arithmetic: Point +, -, *, / component-wise "
      "without rounding, dot product and norm by their definitions", floor=6)
def r7(ctx: Ctx) -> None:
    from .points import point_arithmetic
    point_arithmetic(ctx, ops={"__neg__", "__add__", "__sub__", "__mul__", "__truediv__", "__and__", "norm"})
