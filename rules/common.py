"""Shared rule helpers: the involutions used across properties and the
generic CLOSED / MIRROR / LAW checkers."""
from __future__ import annotations

import ast
from typing import Callable, Iterable, Optional

from framelint.core import Ctx
from framelint.srcmodel import FuncInfo, AnalysisError, walk_own, body_without_docstring
from framelint.canon import (Sigma, Canon, CanonOptions, diff_paths, show, S, to_poly, Poly, skey,
                             atoms_of, contains)
from framelint.canon import canon_function as _canon_function_expanded


def canon_function(fi, model=None, opts=None):   # the generic checkers match shapes: look through every local
    return _canon_function_expanded(fi, model, opts, expand=True)


GEOM = "frame/geometry/geometry.py"
DIE = "frame/die/die.py"
PARSE_DIE = "frame/die/yaml_parse_die.py"
ALLOC = "frame/allocation/allocation.py"
NETLIST = "frame/netlist/netlist.py"
MODULE = "frame/netlist/module.py"
NTYPES = "frame/netlist/netlist_types.py"
YREAD = "frame/netlist/yaml_read_netlist.py"
YWRITE = "frame/netlist/yaml_write_netlist.py"
UTILS = "frame/utils/utils.py"
KEYWORDS = "frame/utils/keywords.py"
PB = "tools/rect/pseudobool.py"
SATM = "tools/rect/satmanager.py"
RECT = "tools/rect/rect.py"
RECTIO = "tools/rect/rect_io.py"
LEGAL = "tools/legalfloor/legalfloor.py"
LMODEL = "tools/legalfloor/model.py"
ETREE = "tools/legalfloor/expression_tree.py"
GLB = "tools/glbfloor/optimization.py"
FORCE = "tools/force/fruchterman_reingold.py"
SPEC = "tools/spectral/spectral.py"
SPECALG = "tools/spectral/spectral_algorithm.py"
STROP = "tools/floorset_parser/floor_set_manager/strop.py"
FSUTILS = "tools/floorset_parser/floor_set_manager/utils/utils.py"
FSMAN = "tools/floorset_parser/floor_set_manager/manager.py"
NETGEN = "tools/netgen/netgen.py"

_XY = {"x": "y", "y": "x", "w": "h", "h": "w", "_x": "_y", "_y": "_x", "width": "height", "height": "width"}


def sigma_xy(**extra) -> Sigma:
    """x <-> y, w <-> h and the argument order of the pair constructors."""
    kw = dict(attrs=dict(_XY), swap_ctors={("g", "Point"), ("g", "Shape")}, kwnames={"x": "y", "y": "x", "w": "h", "h": "w"})
    for k, v in extra.items():
        if isinstance(v, dict) and k in kw:
            kw[k] = {**kw[k], **v}
        else:
            kw[k] = v
    return Sigma(**kw)


def is_eps_atom(a: S) -> bool:
    """Tolerance atoms: Rectangle.distance_epsilon()/area_epsilon() calls, names/attrs called epsilon/eps."""
    if not isinstance(a, tuple) or not a:
        return False
    if a[0] == "c" and isinstance(a[1], tuple) and a[1][0] == "a" and a[1][2] in ("distance_epsilon", "area_epsilon"):
        return True
    if a[0] in ("g", "u", "l") and isinstance(a[1], str) and a[1] in ("epsilon", "eps"):
        return True
    if a[0] == "a" and len(a) == 3 and a[2] in ("_epsilon", "epsilon"):
        return True
    return False


def sigma_dual(**extra) -> Sigma:
    """low <-> high: ll <-> ur, min <-> max, every order comparison reversed, tolerances stay on their side."""
    kw = dict(attrs={"ll": "ur", "ur": "ll"}, kwnames={"ll": "ur", "ur": "ll"}, dual=True, eps=is_eps_atom, minmax=True)
    for k, v in extra.items():
        if isinstance(v, dict) and k in kw:
            kw[k] = {**kw[k], **v}
        else:
            kw[k] = v
    return Sigma(**kw)


def sigma_swap() -> Sigma:
    """self <-> first parameter (operand symmetry)."""
    return Sigma(selfswap=(("self",), ("p", 0)))


def value_form(block: tuple) -> tuple:
    """a function that only computes and returns a value (conditionals and returns, no other statement) is its value: one
    ``return <expression>`` whatever the arrangement of its guards and intermediate results"""
    from framelint.peval import value_expr
    from framelint.canon import K_NONE
    if block and all(isinstance(st, tuple) and st and st[0] in ("if", "ret", "assert") for st in block):
        v = value_expr(tuple(block) + (("ret", K_NONE),))
        if v is not None:
            asserts = tuple(st for st in block if st[0] == "assert")
            return asserts + (("ret", v),)
    return block


def check_closed(ctx: Ctx, fi: FuncInfo, sigma: Sigma, sname: str, opts: Optional[CanonOptions] = None,
                 post: Optional[Callable[[S], S]] = None) -> None:
    c = value_form(canon_function(fi, ctx.model, opts))
    c2 = sigma.apply(c)
    if post is not None:
        c2 = post(c2)
        c = post(c) if getattr(post, "both_sides", False) else c
    ctx.site(fi.where, f"canonical form closed under {sname}", statements=len(c))
    if c != c2:
        # the same up to the names of locals and the order of independent statements?
        from framelint.symm import canonical_labelling
        if canonical_labelling(c) == canonical_labelling(c2):
            return
        d = diff_paths(c, c2)
        ctx.report(fi.where, f"closed[{sname}] {d[0] if d else ''}",
                   f"{fi.qualname} is not invariant under the involution {sname}: one side of a symmetric "
                   f"computation differs from its mirror image", lineno=fi.node.lineno, differences=d)


def check_mirror(ctx: Ctx, fa: FuncInfo, fb: FuncInfo, sigma: Sigma, sname: str,
                 opts: Optional[CanonOptions] = None) -> None:
    a = value_form(canon_function(fa, ctx.model, opts))
    b = value_form(canon_function(fb, ctx.model, opts))
    a2 = sigma.apply(a)
    ctx.site(fa.where, f"{sname}({fa.qualname}) == {fb.qualname}", statements=len(a))
    if a2 != b:
        from framelint.symm import canonical_labelling
        if canonical_labelling(a2) == canonical_labelling(b):
            return
        d = diff_paths(a2, b)
        ctx.report(fa.where, f"mirror[{sname}] {fb.qualname}: {d[0] if d else ''}",
                   f"{fa.qualname} and {fb.qualname} are not mirror images under {sname}",
                   lineno=fa.node.lineno, differences=d)


def check_mirror_regions(ctx: Ctx, fi: FuncInfo, region_a: list[ast.stmt], region_b: list[ast.stmt], sigma: Sigma,
                         sname: str, label: str, prelude: Optional[list[ast.stmt]] = None,
                         opts: Optional[CanonOptions] = None) -> None:
    """Two statement regions of the same function must be mirror images."""
    ca = Canon(fi, ctx.model, opts)
    if prelude:
        ca.block(prelude)
    a = ca.block(region_a)
    cb = Canon(fi, ctx.model, opts)
    if prelude:
        cb.block(prelude)
    b = cb.block(region_b)
    a2 = sigma.apply(a)
    ctx.site(fi.where, f"{label}: {sname}(region A) == region B", statements=len(a))
    if a2 != b:
        d = diff_paths(a2, b)
        ctx.report(fi.where, f"mirror-regions[{label}] {d[0] if d else ''}",
                   f"the two {label} blocks of {fi.qualname} are not mirror images under {sname}",
                   lineno=region_a[0].lineno if region_a else fi.node.lineno, differences=d)


def poly_equal(a: S, b: S) -> bool:
    return not (to_poly(a) - to_poly(b)).t


def check_law(ctx: Ctx, fi: FuncInfo, name: str, lhs: S, rhs: S, lineno: int = 0) -> None:
    """Polynomial identity lhs == rhs on canonical forms."""
    ctx.site(fi.where, f"law {name}", lhs=show(lhs), rhs=show(rhs))
    if not poly_equal(lhs, rhs):
        ctx.report(fi.where, f"law[{name}] {show((to_poly(lhs) - to_poly(rhs)).to_s())} != 0",
                   f"{fi.qualname}: the identity '{name}' does not hold symbolically", lineno=lineno or fi.node.lineno,
                   lhs=show(lhs), rhs=show(rhs))


def calls_in(fi: FuncInfo, pred: Callable[[ast.Call], bool]) -> list[ast.Call]:
    return [n for n in walk_own(fi.node) if isinstance(n, ast.Call) and pred(n)]


def call_name(c: ast.Call) -> str:
    f = c.func
    if isinstance(f, ast.Attribute):
        return f.attr
    if isinstance(f, ast.Name):
        return f.id
    return ""


def norm_stmt(st: ast.AST) -> str:
    """Normalised statement text used in finding keys (no line numbers, no messages)."""
    if isinstance(st, ast.Assert):
        return "assert " + ast.unparse(st.test)
    if isinstance(st, (ast.If, ast.While)):
        return type(st).__name__.lower() + " " + ast.unparse(st.test)
    if isinstance(st, (ast.For, ast.AsyncFor)):
        return f"for {ast.unparse(st.target)} in {ast.unparse(st.iter)}"
    try:
        return " ".join(ast.unparse(st).split())
    except Exception:
        return type(st).__name__


def find_stmts(fi: FuncInfo, pred: Callable[[ast.stmt], bool]) -> list[ast.stmt]:
    return [n for n in walk_own(fi.node) if isinstance(n, ast.stmt) and pred(n)]


def top_stmts(fi: FuncInfo) -> list[ast.stmt]:
    return body_without_docstring(fi.node)


def role_callees(ctx: Ctx, fi: FuncInfo, pred: Callable[[FuncInfo], bool]) -> list[FuncInfo]:
    """Callees of fi (resolved) satisfying a role predicate."""
    out = []
    for g in ctx.model.callees(fi, include_properties=False):
        if pred(g):
            out.append(g)
    return sorted(out, key=lambda f: f.where)


def asserts_in(fi: FuncInfo) -> list[ast.Assert]:
    return [n for n in walk_own(fi.node) if isinstance(n, ast.Assert)]


def kw_value(ctx: Ctx, name: str) -> str:
    """Value of a KW_* constant from frame/utils/keywords.py."""
    m = ctx.model.module(KEYWORDS)
    for st in m.global_assigns.get(name, []):
        if isinstance(st, ast.Assign) and isinstance(st.value, ast.Constant):
            return st.value.value
    raise AnalysisError(f"keyword constant {name} not found")


# --------------------------------------------------------------------- CFG-based helpers
def stmt_calls(ctx: Ctx, fi: FuncInfo):
    """[(cfg node, ast.Call, canonical call S)] for every call inside a simple statement / test of fi."""
    g = ctx.cfg(fi)
    cn = g.canon()
    out = []
    for n in g.stmt_nodes():
        st = n.ast
        if n.kind == "test":
            roots = [st.test]
        elif n.kind == "iter":
            roots = [st.iter]
        elif isinstance(st, (ast.With, ast.AsyncWith)):
            roots = [i.context_expr for i in st.items]
        elif isinstance(st, ast.Try):
            roots = []
        else:
            roots = [st]
        for r in roots:
            for c in ast.walk(r):
                if isinstance(c, ast.Call):
                    if any(c is c0 for _, c0, _ in out):
                        continue      # a loop that runs at least once has two header nodes for one statement
                    try:
                        out.append((n, c, cn.expr(c)))
                    except Exception:
                        out.append((n, c, None))
    return out


def facts_text(facts) -> list[str]:
    return sorted(show(f) for f in facts)


def exit_facts(ctx: Ctx, fi: FuncInfo):
    from framelint.cfg import EXIT
    return ctx.cfg(fi).facts_at(EXIT)


def assert_conjuncts(ctx: Ctx, fi: FuncInfo):
    """[(cfg node, ast.Assert, set of canonical conjuncts, facts holding at the assert)]"""
    g = ctx.cfg(fi)
    out = []
    for n in g.stmt_nodes():
        if isinstance(n.ast, ast.Assert):
            conj = set(g.cond_facts(n.ast.test, True))
            out.append((n, n.ast, conj, g.facts_at(n.id)))
    return out


def enclosing_loops(fi: FuncInfo, target: ast.AST) -> list[ast.stmt]:
    """Chain of for/while statements (outermost first) whose body contains ``target``."""
    chain: list[ast.stmt] = []

    def rec(stmts, acc) -> bool:
        for st in stmts:
            if st is target or any(x is target for x in ast.walk(st) if not isinstance(st, (ast.For, ast.While, ast.If, ast.With, ast.Try))):
                chain.extend(acc)
                return True
            if isinstance(st, (ast.For, ast.AsyncFor, ast.While)):
                if rec(st.body, acc + [st]) or rec(st.orelse, acc):
                    return True
                if any(x is target for x in ast.walk(st.iter if isinstance(st, ast.For) else st.test)):
                    chain.extend(acc)
                    return True
            elif isinstance(st, ast.If):
                if any(x is target for x in ast.walk(st.test)):
                    chain.extend(acc)
                    return True
                if rec(st.body, acc) or rec(st.orelse, acc):
                    return True
            elif isinstance(st, (ast.With, ast.AsyncWith)):
                if rec(st.body, acc):
                    return True
            elif isinstance(st, ast.Try):
                for b in [st.body, st.orelse, st.finalbody] + [h.body for h in st.handlers]:
                    if rec(b, acc):
                        return True
        return False
    rec(body_without_docstring(fi.node), [])
    return chain


def attr_stores_in_repo(ctx: Ctx, attr: str):
    """All (FuncInfo, node) where ``<expr>.attr`` is assigned, augmented or deleted anywhere in the repo."""
    out = []
    for f in ctx.model.all_functions():
        for n in walk_own(f.node):
            if isinstance(n, ast.Attribute) and n.attr == attr and isinstance(n.ctx, (ast.Store, ast.Del)):
                out.append((f, n))
    return out


def mutating_calls_on_attr(ctx: Ctx, attr: str):
    """All (FuncInfo, call) where a mutator method is called on ``<expr>.attr``."""
    from framelint.canon import MUTATOR_METHODS
    out = []
    for f in ctx.model.all_functions():
        for n in walk_own(f.node):
            if isinstance(n, ast.Call) and isinstance(n.func, ast.Attribute) and n.func.attr in MUTATOR_METHODS \
                    and isinstance(n.func.value, ast.Attribute) and n.func.value.attr == attr:
                out.append((f, n))
    return out


def region_canon(ctx: Ctx, fi: FuncInfo, stmts: list, prelude: Optional[list] = None, opts: Optional[CanonOptions] = None) -> tuple:
    """canonical form of a statement region of ``fi`` in the same expanded normal form as canon_function(fi):
    locals defined anywhere in the function are looked through and the remaining ones are numbered as in the whole
    function's normal form"""
    from framelint.canon import Normalizer
    whole = Canon(fi, ctx.model, opts)
    norm = Normalizer(whole.function(), keep_identity=False)
    c = Canon(fi, ctx.model, opts)
    if prelude:
        c.block(prelude)
    raw = c.block(stmts)
    out = norm.apply(raw)
    # assignments to eliminated locals are now 'e = e': drop them
    def clean(block):
        res = []
        for st in block:
            if isinstance(st, tuple) and st and st[0] == "set" and len(st) == 3 and st[1] == st[2]:
                continue
            if isinstance(st, tuple) and st and st[0] == "if" and len(st) == 4:
                st = ("if", st[1], clean(st[2]), clean(st[3]))
            elif isinstance(st, tuple) and st and st[0] == "for" and len(st) == 5:
                st = ("for", st[1], st[2], clean(st[3]), clean(st[4]))
            elif isinstance(st, tuple) and st and st[0] == "while" and len(st) == 4:
                st = ("while", st[1], clean(st[2]), clean(st[3]))
            res.append(st)
        return tuple(res)
    return clean(out)


def resolve_local(fn: ast.AST, e: ast.expr, depth: int = 4) -> ast.expr:
    """look through plain locals that have exactly one assignment in the function: the expression a test or a returned
    name stands for (``ok = all(...); if ok:`` is ``if all(...):``)"""
    for _ in range(depth):
        if not isinstance(e, ast.Name):
            break
        defs = [n.value for n in walk_own(fn) if isinstance(n, ast.Assign) and len(n.targets) == 1 and isinstance(n.targets[0], ast.Name)
                and n.targets[0].id == e.id]
        defs += [n.value for n in walk_own(fn) if isinstance(n, ast.AnnAssign) and n.value is not None and isinstance(n.target, ast.Name) and n.target.id == e.id]
        stores = [n for n in walk_own(fn) if isinstance(n, ast.Name) and isinstance(n.ctx, ast.Store) and n.id == e.id]
        if len(defs) != 1 or len(stores) != 1:
            break
        e = defs[0]
    return e


def main_line(stmts: list) -> list:
    """the statements of a body with early-exit conditionals flattened: ``if c: return`` + ``else: rest`` contributes the
    conditional (exit arm only) followed by rest, so that the main line of a function reads the same whether or not
    the part after an early return is wrapped in an else"""
    out = []
    for st in stmts:
        if isinstance(st, ast.Expr) and isinstance(st.value, ast.Constant):
            continue
        if isinstance(st, ast.If) and st.body and st.orelse:
            if isinstance(st.body[-1], (ast.Return, ast.Raise)):
                out.append(st)
                out.extend(main_line(st.orelse))
                continue
            if isinstance(st.orelse[-1], (ast.Return, ast.Raise)):
                out.append(st)
                out.extend(main_line(st.body))
                continue
        out.append(st)
    return out


def posted_unconditionally(body: tuple, st) -> bool:
    """``st`` is a top-level statement of the (canonical) loop body and nothing before it can skip the rest of the
    iteration (no continue / break / return / raise in an earlier statement)"""
    if st not in body:
        return False
    k = list(body).index(st)
    return not any(contains(x, (tag,)) or (isinstance(x, tuple) and x and x[0] in ("ret", "raise")) or
                   bool(atoms_of(x, lambda y: y[0] in ("ret", "raise")))
                   for x in body[:k] for tag in ("continue", "break"))


def support(ctx: Ctx, rule_fns, functions: set) -> int:
    """Evaluate rules of another property for the current one, restricted to the helper functions the current property's
    behaviour is computed with: findings located in other functions are dropped (they are that other property's
    business), sites likewise.  Returns the number of sites kept."""
    rid = ctx.current.rid
    kept = 0
    for fn in rule_fns:
        n_f, n_s = len(ctx.findings), len(ctx.sites.get(rid, []))
        ctx.only_functions = set(functions)      # sections about other functions are not evaluated at all
        try:
            fn(ctx)
        finally:
            ctx.only_functions = None
        new_f = ctx.findings[n_f:]
        del ctx.findings[n_f:]
        ctx.findings.extend(f for f in new_f if f.where.split("::")[-1] in functions)
        sites = ctx.sites.get(rid, [])
        new_s = sites[n_s:]
        del sites[n_s:]
        keep = [s for s in new_s if s.get("where", "").split("::")[-1] in functions]
        sites.extend(keep)
        kept += len(keep)
    return kept


def eq_constants(cond, var):
    """the set of constants K when ``cond`` says 'var is one of K' -- spelt var == k, a disjunction of such, or (older
    form) var in [k1, k2, ...]; None otherwise"""
    if not isinstance(cond, tuple) or not cond:
        return None
    if cond[0] == "or":
        out = set()
        for d in cond[1]:
            r = eq_constants(d, var)
            if r is None:
                return None
            out |= r
        return out
    if cond[0] == "cmp" and cond[1] == "seq" and var in (cond[2], cond[3]):
        other = cond[2] if cond[3] == var else cond[3]
        return {other} if other[0] == "k" else None
    if cond[0] == "eq0":
        from framelint.canon import to_poly
        p = to_poly(cond[1])
        if len(p.t) <= 2 and p.t.get(((var, 1),)) in (1, -1):
            c = p.const_value() * (-1 if p.t.get(((var, 1),)) == 1 else 1)
            rest = [m for m in p.t if m != ((var, 1),) and m != ()]
            if not rest:
                from framelint.canon import k_num
                return {k_num(c)}
    if cond[0] == "cmp" and cond[1] == "in" and cond[2] == var and cond[3][0] in ("list", "tuple", "set"):
        return set(cond[3][1])
    return None


def unversion(block, i: int):
    """a parameter that the function first coerces / defaults (``if isinstance(r, list): r = tuple(r)``, ``if t is None: t = {}``)
    appears in the normal form as the conditional value wherever it is read; rules that speak about 'the argument' read it
    modulo that coercion"""
    p = ("p", i)
    vals = atoms_of(block, lambda x: x[0] == "ite" and len(x) == 4 and p in (x[2], x[3]) and contains(x[1], p))
    if not vals:
        return block
    return Sigma(raw_subst={v: p for v in vals}).apply(block)


def collect_of(block, var):
    """how the local list ``var`` is filled: [(iterable, loop target, element, condition)] for every top-level loop
    ``for t in it: [if c:] var.append(e)`` whose body is just that (the form list comprehensions have in the normal
    form); None when ``var`` is not initialised to [] or is filled in any other way"""
    from framelint.canon import K_TRUE
    inits = [st for st in block if st[0] == "set" and len(st) == 3 and st[1] == var]
    if not inits:
        # the list may live in a nested block (the arm of a conditional that returns it)
        for st in block:
            if st[0] == "if" and len(st) == 4:
                for arm in (st[2], st[3]):
                    if contains(arm, var):
                        return collect_of(arm, var)
            elif st[0] in ("for", "while") and contains(st, var):
                return collect_of(st[3] if st[0] == "for" else st[2], var)
        return None
    if len(inits) != 1 or inits[0][2] != ("list", ()):
        return None
    out = []
    for st in block:
        if st[0] == "for" and len(st) == 5 and contains(st[3], var):
            body = st[3]
            if len(body) != 1:
                return None
            b = body[0]
            cond = K_TRUE
            if b[0] == "if" and len(b) == 4 and not b[3] and len(b[2]) == 1:
                cond, b = b[1], b[2][0]
            if not (b[0] == "expr" and b[1][0] == "c" and b[1][1] == ("a", var, "append") and len(b[1][2]) == 1):
                return None
            out.append((st[2], st[1], b[1][2][0], cond))
        elif st[0] not in ("set", "ret") and contains(st, var):
            return None
    return out


def dict_loops(block, d=None, top_only: bool = False):
    """the loops over the entries of a mapping: [(loop, key, value)] -- ``for k in d`` (value ``d[k]``; this is also the
    normal form of ``for k, v in d.items()`` when the loop leaves d alone), the unconverted ``for k, v in d.items()`` and
    ``for v in d.values()`` (key None; also the normal form of a key loop that uses the key only to read its entry).
    With ``d`` None every mapping qualifies and the entry has a 4th item, the mapping."""
    from framelint.canon import atoms_of
    lps = [st for st in block if isinstance(st, tuple) and st[:1] == ("for",) and len(st) == 5] if top_only else \
        atoms_of(block, lambda x: x[0] == "for" and len(x) == 5)
    out = []
    for lp in lps:
        var, it = lp[1], lp[2]
        if isinstance(it, tuple) and it[:1] == ("c",) and isinstance(it[1], tuple) and it[1][:1] == ("a",) and it[1][2] == "items" and not it[2] \
                and isinstance(var, tuple) and var[:1] == ("tuple",) and len(var[1]) == 2:
            if d is None or it[1][1] == d:
                out.append((lp, var[1][0], var[1][1]) + ((it[1][1],) if d is None else ()))
        elif isinstance(it, tuple) and it[:1] == ("c",) and isinstance(it[1], tuple) and it[1][:1] == ("a",) and it[1][2] == "values" and not it[2] \
                and isinstance(var, tuple) and var[:1] == ("v",):
            # the normal form of a loop whose key is used for nothing but reading its entry: no key
            if d is None or it[1][1] == d:
                out.append((lp, None, var) + ((it[1][1],) if d is None else ()))
        elif isinstance(var, tuple) and var[:1] == ("v",):
            if d is not None and it == d:
                out.append((lp, var, ("s", d, var)))
            elif d is None and contains(lp[3], ("s", it, var)):
                out.append((lp, var, ("s", it, var), it))
    return out


def const_tables(ctx: Ctx, fi: FuncInfo) -> dict:
    """{('g', NAME): display} for the module-level names of fi's module that are bound once, to a dict / tuple / list / set
    display, and that nothing in the repository stores into or calls a mutating method on: constant tables, which a rule
    that evaluates a dispatch may read through"""
    from framelint.canon import Canon, CanonOptions
    mod = fi.module
    binds: dict = {}
    for st in mod.tree.body:
        tg = None
        if isinstance(st, ast.Assign) and len(st.targets) == 1 and isinstance(st.targets[0], ast.Name):
            tg = st.targets[0].id
        elif isinstance(st, ast.AnnAssign) and st.value is not None and isinstance(st.target, ast.Name):
            tg = st.target.id
        if tg is not None:
            binds.setdefault(tg, []).append(st.value)
    names = {n for n, v in binds.items() if len(v) == 1 and isinstance(v[0], (ast.Dict, ast.Tuple, ast.List, ast.Set))}
    if not names:
        return {}
    MUT = {"append", "extend", "insert", "pop", "remove", "clear", "update", "setdefault", "add", "discard", "sort", "reverse", "popitem"}
    for m in ctx.model.modules.values():
        for n in ast.walk(m.tree):
            if isinstance(n, (ast.Subscript, ast.Attribute)) and isinstance(n.ctx, (ast.Store, ast.Del)) and isinstance(n.value, ast.Name) and n.value.id in names:
                names.discard(n.value.id)
            elif isinstance(n, ast.Call) and isinstance(n.func, ast.Attribute) and n.func.attr in MUT and isinstance(n.func.value, ast.Name) and n.func.value.id in names:
                names.discard(n.func.value.id)
            elif isinstance(n, ast.Global):
                names.difference_update(n.names)
            elif isinstance(n, ast.AugAssign) and isinstance(n.target, ast.Name) and n.target.id in names:
                names.discard(n.target.id)
    cn = Canon(fi, ctx.model, CanonOptions())
    out = {}
    for n in sorted(names):
        try:
            out[("g", n)] = cn.expr(binds[n][0])
        except Exception:
            pass
    return out


def self_field(fi: FuncInfo, name: str) -> S:
    """the normal form of reading ``self.<name>`` inside fi's class: through the property that simply hands the field out,
    when the class has one"""
    from framelint.canon import _trivial_getters
    if getattr(fi, "cls", None) is not None and name.startswith("_"):
        g = _trivial_getters(fi.cls).get(name)
        if g is not None and g != fi.name:
            return ("a", ("self",), g)
    return ("a", ("self",), name)


def new_helper_calls(ctx: Ctx, fi: FuncInfo):
    """calls, left in ``fi`` after the look-through, of helpers the reference tree does not have (a piece of ``fi`` cut out into
    a function of its own that is not a single expression / statement sequence): (helper, {helper parameter index: the
    parameter index of ``fi`` whose value it receives}) for every such call, transitively.  A rule that looks for a step of ``fi``
    can look for it in these helpers, with the roles of the parameters carried over."""
    from framelint.srcmodel import _reference_functions
    ref = _reference_functions() or set()
    out, seen = [], {fi.where}

    def params(g):
        a = g.node.args
        return [x.arg for x in a.posonlyargs + a.args]

    def rec(g, roles):            # roles: parameter name of g -> parameter index of fi
        stored = {n.id for n in walk_own(g.node) if isinstance(n, ast.Name) and isinstance(n.ctx, ast.Store)}
        for c in walk_own(g.node):
            if not isinstance(c, ast.Call):
                continue
            try:
                hs = ctx.model.resolve_call(g, c)
            except Exception:
                hs = []
            hs = list(hs)
            if len(hs) != 1 or hs[0].where in ref or hs[0].where in seen:
                continue
            h = hs[0]
            seen.add(h.where)
            hp = params(h)
            off = 1 if hp[:1] == ["self"] and isinstance(c.func, ast.Attribute) else 0
            binding = {}
            for k, a in enumerate(c.args):
                if isinstance(a, ast.Name) and a.id in roles and a.id not in stored and k + off < len(hp):
                    binding[hp[k + off]] = roles[a.id]
            for kw in c.keywords:
                if kw.arg in hp and isinstance(kw.value, ast.Name) and kw.value.id in roles and kw.value.id not in stored:
                    binding[kw.arg] = roles[kw.value.id]
            out.append((h, {hp.index(n) - off: r for n, r in binding.items()}))
            rec(h, binding)
    p0 = params(fi)
    off0 = 1 if p0[:1] == ["self"] else 0
    rec(fi, {n: i - off0 for i, n in enumerate(p0) if i >= off0})
    return out
