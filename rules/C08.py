"""C08 -- rectilinear shape search (tools/rect/rect.py): structure of the generated formula.
The model set of the CNF and optimality w.r.t. the cost bound are not decided here."""
from __future__ import annotations

import ast

from framelint.core import rule, Ctx
from framelint.srcmodel import walk_own, AnalysisError
from framelint.canon import (canon_function, show, S, to_poly, mk_lt, mk_not, mk_and, mk_or, mk_eq, k_num, k_str, contains, skey, atoms_of, Sigma,
                             K_TRUE, K_NONE, single_defs, deref, Poly, diff_paths)
from .common import posted_unconditionally, RECT, RECTIO, SATM, call_name, norm_stmt
from .C01 import _alpha

CAR = ("p", 0)
SM = ("p", 2)
IP = ("a", CAR, "input_problem")


def _roles(c: tuple) -> dict:
    """dict variables of enforce_bb by the string that names their SAT variables: 'x_' 'X_' 'y_' 'Y_' and the per-cell dict"""
    roles = {}
    for st in atoms_of(c, lambda x: x[0] == "set" and len(x) == 3 and x[1][0] == "s" and x[2][0] == "c" and x[2][1] == ("a", SM, "newvar")):
        name = st[2][2][0]
        for key in ("x_", "X_", "y_", "Y_"):
            if contains(name, k_str(key)):
                roles[key] = st[1][1]
        if not any(contains(name, k_str(k)) for k in ("x_", "X_", "y_", "Y_", "north", "south", "east", "west")) and st[1][1][0] == "v":
            roles.setdefault("cell", st[1][1])
    for st in atoms_of(c, lambda x: x[0] == "set" and len(x) == 3 and x[1][0] == "v" and x[2][0] == "c" and x[2][1] == ("a", SM, "newvar")):
        for key in ("north", "south", "east", "west"):
            if contains(st[2][2][0], k_str(key)):
                roles[key] = st[1]
    return roles


def _regions(c):
    """(what is posted for every box, what is posted for a branch only), whichever way 'this box is not the trunk' is tested:
    a conditional holding the attachment, or an early return for the trunk followed by the attachment"""
    he = ("a", SM, "heuleencoding")
    for i, st in enumerate(c):
        if st[0] != "if":
            continue
        if contains(st[2], he) or contains(st[3], he):
            arm, other = (st[2], st[3]) if contains(st[2], he) else (st[3], st[2])
            return tuple(c[:i]) + tuple(other), tuple(arm)
        if st[3] == () and st[2] and st[2][-1][0] == "ret" and contains(tuple(c[i + 1:]), he):
            return tuple(c[:i]) + tuple(st[2][:-1]), tuple(c[i + 1:])
    return tuple(c), ()


class _Idx(Sigma):
    """involution that also permutes the box-tuple positions input_problem[b][k]"""
    def __init__(self, perm: dict, **kw):
        super().__init__(**kw)
        self.perm = perm

    def _ap(self, s):
        if getattr(self, "reflect", False) and isinstance(s, tuple) and len(s) == 2 and s[0] == "lt0":
            # reflection of one axis: only order comparisons between coordinates of that axis are reversed
            p = to_poly(s[1])
            touched = any(a[0] == "s" and a[1][0] == "s" and a[1][1] == IP and a[2][0] == "k" and a[2][2][0] in self.perm for a in p.atoms())
            mapped = Poly()
            for m_, c_ in p.t.items():
                term = Poly.const(c_)
                for a, pw in m_:
                    pa = to_poly(self._ap(a))
                    for _ in range(pw):
                        term = term * pa
                mapped = mapped + term
            return ("lt0", ((-mapped) if touched else mapped).to_s())
        if isinstance(s, tuple) and len(s) == 3 and s[0] == "s" and isinstance(s[1], tuple) and len(s[1]) == 3 and s[1][0] == "s" and s[1][1] == IP \
                and s[2][0] == "k" and s[2][1] == "num":
            k = s[2][2][0]
            return ("s", ("s", IP, super()._ap(s[1][2])), k_num(self.perm.get(k, k)))
        return super()._ap(s)


def _norm_block(block):
    """order-insensitive view: antecedent lists of imply() sorted, statements of a block sorted"""
    def fix(x):
        if isinstance(x, tuple) and x:
            if x[0] == "c" and x[1] == ("a", SM, "imply") and len(x[2]) == 2 and x[2][0][0] == "list":
                ants = tuple(sorted((fix(a) for a in x[2][0][1]), key=skey))
                return ("c", x[1], (("list", ants), fix(x[2][1])), x[3])
            if x[0] == "for" and len(x) == 5:
                return ("for", x[1], fix(x[2]), tuple(sorted((fix(y) for y in x[3]), key=skey)), x[4])
            if x[0] == "if" and len(x) == 4:
                return ("if", fix(x[1]), tuple(sorted((fix(y) for y in x[2]), key=skey)), tuple(sorted((fix(y) for y in x[3]), key=skey)))
            return tuple(fix(y) for y in x)
        return x
    return sorted((fix(st) for st in block), key=skey)


@rule("C08", "R2.box-is-rectangle", "CLOSED",
      "the interval-variable part of enforce_bb (cell => four bounds, bound chains, four bounds => cell) is invariant under "
      "x<->y and, per cell, under low<->high", floor=2)
def r2(ctx: Ctx) -> None:
    f = ctx.func(RECT, "enforce_bb")
    c = canon_function(f, ctx.model)
    roles = _roles(c)
    ctx.require(all(k in roles for k in ("x_", "X_", "y_", "Y_", "cell")), f"enforce_bb: interval dictionaries not identified by role: {sorted(roles)}")
    lx, bx, ly, by = roles["x_"], roles["X_"], roles["y_"], roles["Y_"]
    first = [st for st in _regions(c)[0] if st[0] == "for"]
    ctx.require(len(first) >= 6, "enforce_bb: expected six top-level loops before the trunk attachment")
    # loop variables of the x loop / y loop are exchanged as well (found by the list they iterate)
    xv = [lp[1] for lp in first if lp[2] == ("a", CAR, "xcoords")]
    yv = [lp[1] for lp in first if lp[2] == ("a", CAR, "ycoords")]
    ctx.require(len(xv) == 1 and len(yv) == 1, "enforce_bb: loops over xcoords / ycoords not found")
    swap = {lx: ly, ly: lx, bx: by, by: bx, xv[0]: yv[0], yv[0]: xv[0]}
    sxy = _Idx({0: 1, 1: 0, 2: 3, 3: 2}, attrs={"xcoords": "ycoords", "ycoords": "xcoords", "prev_x": "prev_y", "prev_y": "prev_x", "next_x": "next_y", "next_y": "next_x"},
               strings={"x_": "y_", "y_": "x_", "X_": "Y_", "Y_": "X_"}, raw_subst=swap)
    a = _norm_block(first)
    b = _norm_block(list(sxy.apply(tuple(first))))
    ctx.site(f.where, "interval-variable clauses closed under x <-> y", loops=len(first))
    if a != b:
        d = diff_paths(tuple(b), tuple(a))
        ctx.report(f.where, f"closed[xy] {d[0][:200] if d else ''}", "the x part and the y part of the box constraints are not mirror images", lineno=f.node.lineno, differences=d)
    # the monotonicity chains link every pair of consecutive grid coordinates
    for axis, coords, (lil, big), prev in [("x", "xcoords", (lx, bx), "prev_x"), ("y", "ycoords", (ly, by), "prev_y")]:
        cl = ("a", CAR, coords)
        # every coordinate but the first, as elements ('for x in coords[1:]'; the index spelling has this form too)
        want_iter = ("s", cl, ("slice", k_num(1), K_NONE, K_NONE))
        chains = [lp for lp in first if lp[2] == want_iter]
        ctx.site(f.where, f"{axis} chain covers all consecutive coordinates: {coords}[1:]", found=len(chains))
        ok = False
        for lp in chains:
            cur = lp[1]
            prv = ("s", ("a", CAR, prev), cur)

            def imp(a, b):
                return ("expr", ("c", ("a", SM, "imply"), (("list", (a,)), b), ()))
            if {imp(("s", big, prv), ("s", big, cur)), imp(("s", lil, cur), ("s", lil, prv))} <= set(lp[3]):
                ok = True
        if not ok:
            ctx.report(f.where, f"chain-cover {axis}", f"the {axis} interval variables are not chained over every consecutive pair of grid coordinates "
                       f"(big[prev] => big[cur] and lil[cur] => lil[prev] for i in range(1, len({coords}))): a box can then consist of detached columns/rows", lineno=f.node.lineno)
    # per cell: low <-> high
    per_cell = [lp for lp in first if lp[2] == ("a", CAR, "blocks")]
    ctx.require(len(per_cell) == 2, "enforce_bb: the two per-cell loops were not found")
    sdu = _Idx({0: 2, 2: 0, 1: 3, 3: 1}, attrs={"prev_x": "next_x", "next_x": "prev_x", "prev_y": "next_y", "next_y": "prev_y"},
               raw_subst={lx: bx, bx: lx, ly: by, by: ly})
    a = _norm_block(per_cell)
    b = _norm_block(list(sdu.apply(tuple(per_cell))))
    ctx.site(f.where, "per-cell clauses closed under low <-> high")
    if a != b:
        d = diff_paths(tuple(b), tuple(a))
        ctx.report(f.where, f"closed[low-high] {d[0][:200] if d else ''}", "the low-bound and high-bound clauses of a cell are not dual", lineno=f.node.lineno, differences=d)
    # anchor: a selected cell forces 'lil' at its high coordinate and 'big' at its low coordinate, on its own axis
    cell = roles["cell"]
    lp = [l for l in per_cell if any(st[0] == "set" for st in l[3])]
    ctx.site(f.where, "cell => lilx[x2], bigx[x1], lily[y2], bigy[y1]")
    ok = False
    if len(lp) == 1:
        bv = lp[0][1]

        def imp(d_, k):
            return ("expr", ("c", ("a", SM, "imply"), (("list", (("s", cell, bv),)), ("s", d_, ("s", ("s", IP, bv), k_num(k)))), ()))
        ok = {imp(lx, 2), imp(bx, 0), imp(ly, 3), imp(by, 1)} <= set(lp[0][3])
    if not ok:
        ctx.report(f.where, "cell-bounds", "a selected cell does not imply the four interval variables at its own coordinates (x2, x1, y2, y1)", lineno=f.node.lineno)
    ctx.site(f.where, "every box is non-empty")
    if not any(st[0] == "expr" and st[1][0] == "c" and st[1][1] == ("a", SM, "pseudoboolencoding") and st[1][2][0][0] == "not" and
               to_poly(st[1][2][0][1][1]).const_value() == -1 and len(to_poly(st[1][2][0][1][1]).t) == 2 for st in c):
        ctx.report(f.where, "box-non-empty", "enforce_bb does not post 'sum of the box's cells >= 1'", lineno=f.node.lineno)


@rule("C08", "R3.trunk-attachment", "CLOSED/KIND",
      "the four attachment directions are images of each other under x<->y (west<->north, east<->south) and under the "
      "reflection of one axis (west<->east, north<->south); the die-border exclusions compare a coordinate with a "
      "coordinate of the grid, never with a literal or an int()-truncated size, and are four independent tests (a corner "
      "cell lies on two borders)", floor=3)
def r3(ctx: Ctx) -> None:
    f = ctx.func(RECT, "enforce_bb")
    c = canon_function(f, ctx.model)
    roles = _roles(c)
    ctx.require(all(k in roles for k in ("north", "south", "east", "west")), "enforce_bb: direction selectors not identified")
    N, S_, E, W = roles["north"], roles["south"], roles["east"], roles["west"]
    body = _regions(c)[1]
    ctx.require(bool(body), "enforce_bb: trunk attachment block not found")
    loops = [st for st in body if st[0] == "for" and st[2] == ("a", CAR, "blocks")]
    ctx.require(len(loops) == 1, "enforce_bb: loop over the cells of the attachment not found")
    lp = loops[0]
    ctx.site(f.where, "exactly one direction is selected (at most one by the chain encoding, at least one by the sum)")
    amo = any(st[0] == "expr" and st[1][0] == "c" and st[1][1] == ("a", SM, "heuleencoding") and set(st[1][2][0][1]) == {N, S_, E, W} for st in body)
    alo = any(st[0] == "expr" and st[1][0] == "c" and st[1][1] == ("a", SM, "pseudoboolencoding") and st[1][2][0][0] == "not" and
              to_poly(st[1][2][0][1][1]).t == (to_poly(N) + to_poly(S_) + to_poly(E) + to_poly(W) - Poly.const(1)).t for st in body)
    if not (amo and alo):
        ctx.report(f.where, f"direction-selector amo={amo} alo={alo}", "the direction selector is not 'exactly one of north, south, east, west'", lineno=f.node.lineno)
    inner = [st for st in lp[3] if st[0] == "for"]
    ctx.require(len(inner) == 1, "enforce_bb: inner loop over neighbour cells not found")
    adj = inner[0]
    sxy = _Idx({0: 1, 1: 0, 2: 3, 3: 2}, raw_subst={W: N, N: W, E: S_, S_: E}, strings={"Width": "Height", "Height": "Width"},
               attrs={"xcoords": "ycoords", "ycoords": "xcoords"})
    sx = _Idx({0: 2, 2: 0}, raw_subst={W: E, E: W})     # reflection of the x axis: low <-> high and x order comparisons reversed
    sx.reflect = True
    sy = _Idx({1: 3, 3: 1}, raw_subst={N: S_, S_: N})
    sy.reflect = True
    for name, sg in [("x<->y", sxy), ("west<->east", sx), ("north<->south", sy)]:
        a = _norm_block([adj])
        b = _norm_block(list(sg.apply((adj,))))
        ctx.site(f.where, f"adjacency clauses closed under {name}")
        if a != b:
            d = diff_paths(tuple(b), tuple(a))
            ctx.report(f.where, f"closed[adjacency {name}] {d[0][:200] if d else ''}", f"the adjacency clauses of the four directions are not images of each other under {name}",
                       lineno=f.node.lineno, differences=d)
    # anchor: west == my low x equals the neighbour's high x, y ranges overlap strictly; missing neighbour must be in the trunk
    b1, b2 = lp[1], adj[1]
    cellv = _roles(c)["cell"]

    def bb(b, k):
        return ("s", ("s", IP, b), k_num(k))
    west_cond = mk_and([mk_eq(bb(b1, 0), bb(b2, 2)), mk_lt(bb(b2, 1), bb(b1, 3)), mk_lt(bb(b1, 1), bb(b2, 3))])
    ctx.site(f.where, "west: low x == neighbour's high x and the y ranges overlap => neighbour is in the box or in the trunk")
    ok = False
    for st in adj[3]:
        if st[0] == "if" and st[1] == west_cond and len(st[2]) == 1:
            call = st[2][0][1]
            if call[0] == "c" and call[1] == ("a", SM, "imply") and set(call[2][0][1]) == {("s", cellv, b1), W, (-to_poly(("s", cellv, b2))).to_s()} and \
                    call[2][1][0] == "c" and call[2][1][1] == ("a", SM, "newvar") and contains(call[2][1], ("p", 4)) and contains(call[2][1], b2):
                ok = True
    if not ok:
        ctx.report(f.where, "west-definition", "the west attachment is not '(cell in box) and west and (left neighbour not in box) => left neighbour in the trunk'",
                   lineno=f.node.lineno)
    # border exclusions
    borders = [st for st in lp[3] if st[0] == "if" and st[1][0] == "eq0"]
    nested = [st for top in lp[3] if top[0] == "if" for st in atoms_of(top, lambda x: x[0] == "if" and len(x) == 4 and x[1][0] == "eq0") if st is not top and st not in borders]
    if len(borders) != 4 and len(borders) + len(nested) == 4:
        ctx.site(f.where, "the four die-border exclusions are independent tests", independent=len(borders))
        ctx.report(f.where, f"border-exclusions-chained {len(borders)} independent", "the four die-border exclusions are not tested independently (elif chain): a corner cell lies on "
                   "two borders and gets only one exclusion, so a branch there needs no abutting trunk cell in the other direction", lineno=f.node.lineno)
        return
    ctx.require(len(borders) == 4, f"enforce_bb: expected four die-border exclusions, found {len(borders)}")
    for name, sg in [("x<->y", sxy)]:
        a = _norm_block(borders)
        b = _norm_block(list(sg.apply(tuple(borders))))
        ctx.site(f.where, f"border exclusions closed under {name}")
        if a != b:
            d = diff_paths(tuple(b), tuple(a))
            ctx.report(f.where, f"closed[borders {name}] {d[0][:160] if d else ''}", f"the four border exclusions are not images of each other under {name}", lineno=f.node.lineno)
    for st in borders:
        p = to_poly(st[1][1])
        coords = [a for a in p.atoms() if a[0] == "s" and a[1][0] == "s" and a[1][1] == IP]
        others = [a for a in p.atoms() if a not in coords]
        bad_literal = len(coords) == 1 and not others
        bad_int = any(a[0] == "c" and a[1] == ("g", "int") for a in others)
        grid = all((a[0] == "s" and a[1][0] == "a" and a[1][2] in ("xcoords", "ycoords")) or (a[0] == "c" and a[1] in (("g", "min"), ("g", "max"))) for a in others) and bool(others)
        ctx.site(f.where, "border exclusion compares with a grid coordinate", test=show(st[1])[:100], ok=grid)
        if bad_literal or bad_int or not grid:
            ctx.report(f.where, f"border-literal {show(st[1])[:100]}",
                       "a die-border exclusion compares a cell coordinate with the literal 0 / an int()-truncated size: with a grid whose origin is not 0 or whose "
                       "size is fractional the exclusion never fires and a branch that does not abut the trunk is admitted", lineno=f.node.lineno)


@rule("C08", "R1.coverage", "LOOP-COVER",
      "solve(): the shape constraints are posted for every box index with box 0 as trunk; every cell -- unconditionally, no "
      "skipped iteration -- is in at most one box; "
      "a cell is selected iff it is in some box", floor=3)
def r1(ctx: Ctx) -> None:
    f = ctx.func(RECT, "solve")
    c = canon_function(f, ctx.model)
    nboxes = ("p", 4)
    loops = atoms_of(c, lambda x: x[0] == "for" and len(x) == 5)
    ctx.site(f.where, "enforce_bb for every box, trunk = box 0")
    ok = False
    for lp in loops:
        if lp[2] == ("c", ("g", "range"), (nboxes,), ()):
            for st in lp[3]:
                if st[0] == "expr" and st[1][0] == "c" and st[1][1] == ("g", "enforce_bb") and len(st[1][2]) == 5:
                    btag, cbtag = st[1][2][3], st[1][2][4]
                    if contains(btag, lp[1]) and not contains(cbtag, lp[1]) and contains(cbtag, ("c", ("g", "str"), (k_num(0),), ())):
                        ok = True
    if not ok:
        ctx.report(f.where, "enforce-all-boxes", "enforce_bb is not called for every box index with the tag of box 0 as trunk", lineno=f.node.lineno)
    sm_vars = [st[1] for st in c if st[0] == "set" and len(st) == 3 and st[2][0] == "c" and contains(st[2][1], "SATManager")]
    ctx.require(len(sm_vars) == 1, "solve: SAT manager not found")
    sm = sm_vars[0]
    ctx.site(f.where, "per cell: at most one box")
    ok = False
    for lp in loops:
        if lp[2] == ("a", CAR, "blocks") or lp[2] == ("a", ("p", 0), "blocks"):
            body = deref(lp[3], single_defs(lp[3]))
            for st in body:
                if st[0] == "expr" and st[1][0] == "c" and st[1][1] in (("a", sm, "heuleencoding"), ("a", sm, "quadraticencoding")):
                    arg = st[1][2][0]
                    if arg[0] == "comp" and arg[3][0][1] == ("c", ("g", "range"), (nboxes,), ()) and arg[3][0][2] == K_TRUE and contains(arg[2][0], lp[1]) and contains(arg[2][0], arg[3][0][0]) \
                            and posted_unconditionally(body, st):
                        ok = True
    if not ok:
        ctx.report(f.where, "cell-exclusive", "no at-most-one constraint over all boxes is posted for every cell", lineno=f.node.lineno)
    ctx.site(f.where, "cell selected <=> in some box (both directions)")
    fwd = bwd = False
    for lp in loops:
        if lp[2] in (("a", CAR, "blocks"), ("a", ("p", 0), "blocks")):
            inner = [st for st in lp[3] if st[0] == "for" and st[2] == ("c", ("g", "range"), (nboxes,), ())]
            for il in inner:
                for st in il[3]:
                    if st[0] == "expr" and st[1][0] == "c" and st[1][1] == ("a", sm, "imply") and st[1][2][0][0] == "list" and len(st[1][2][0][1]) == 1 \
                            and contains(st[1][2][0][1][0], il[1]) and not contains(st[1][2][1], il[1]) and posted_unconditionally(il[3], st) \
                            and posted_unconditionally(lp[3], il):
                        fwd = True
            for st in lp[3]:
                if st[0] == "expr" and st[1][0] == "c" and st[1][1] == ("a", sm, "imply") and st[1][2][0][0] == "v" and st[1][2][1][0] == "poly":
                    lst = st[1][2][0]
                    apps = [x for il in inner for x in il[3] if x[0] == "expr" and x[1][0] == "c" and x[1][1] == ("a", lst, "append") and x[1][2][0][0] == "poly"]
                    if apps and posted_unconditionally(lp[3], st) and all(posted_unconditionally(il[3], x) for il in inner for x in il[3] if x in apps):
                        bwd = True
    if not (fwd and bwd):
        ctx.report(f.where, f"cell-iff-box fwd={fwd} bwd={bwd}", "the equivalence 'cell selected <=> cell in some box' is not posted in both directions for every cell",
                   lineno=f.node.lineno)


@rule("C08", "R4.box-tuples", "TUPLE/BOUND",
      "grid cells are (x - w/2, y - h/2, x + w/2, y + h/2, ratio); the bounding box of the selected cells takes min over the "
      "low positions and max over the high positions", floor=2)
def r4(ctx: Ctx) -> None:
    f = ctx.func(RECTIO, "select_box")
    c = canon_function(f, ctx.model)
    apps = atoms_of(c, lambda x: x[0] == "c" and x[1][0] == "a" and x[1][2] == "append" and x[2] and x[2][0][0] == "tuple" and len(x[2][0][1]) == 5)
    ctx.site(f.where, "cell tuple == (xc - w/2, yc - h/2, xc + w/2, yc + h/2, ratio)")
    ok = False
    half = __import__("fractions").Fraction(1, 2)
    for a in apps:
        x1, y1, x2, y2, p = a[2][0][1]
        px1, px2, py1, py2 = to_poly(x1), to_poly(x2), to_poly(y1), to_poly(y2)
        cx = (px1 + px2).scale(half)
        wx = px2 - px1
        cy = (py1 + py2).scale(half)
        wy = py2 - py1
        # centre and size must be single, distinct atoms: xc, w on x; yc, h on y
        if len(cx.t) == 1 and len(wx.t) == 1 and len(cy.t) == 1 and len(wy.t) == 1 and cx.atoms() != cy.atoms() and wx.atoms() != wy.atoms() \
                and all(v == 1 for v in list(cx.t.values()) + list(wx.t.values()) + list(cy.t.values()) + list(wy.t.values())):
            ok = True
    if not ok:
        ctx.report(f.where, "cell-tuple", "select_box does not build (xc - w/2, yc - h/2, xc + w/2, yc + h/2, ratio)", lineno=f.node.lineno)
    # ... for EVERY cell of the allocation: the formula is built on a complete grid (rows x columns), a cell nothing is allocated in
    # has ratio 0, it is not left out
    from .common import posted_unconditionally
    every = False
    for lp in atoms_of(c, lambda x: x[0] == "for" and len(x) == 5):
        for st in lp[3]:
            if st[0] == "expr" and st[1] in apps and posted_unconditionally(lp[3], st):
                every = True
    ctx.site(f.where, "a tuple is added for every cell of the allocation (cells without the module have ratio 0)", unconditional=every)
    if apps and not every:
        ctx.report(f.where, "cell-left-out", "select_box adds the cell tuple only under a condition: the grid handed to the encoding has holes (boxes spanning a hole are "
                   "admitted although they are not full rectangles of cells, and the hole's area is not charged to the cost)", lineno=f.node.lineno)
    g = ctx.func(RECT, "solve")
    cg = canon_function(g, ctx.model)
    # the bounding-box update: four guarded assignments c? = n?  with  cx0 > nx0, cy0 > ny0, cx1 < nx1, cy1 < ny1
    ups = atoms_of(cg, lambda x: x[0] == "if" and x[1][0] == "lt0" and len(x[2]) == 1 and x[2][0][0] == "set" and x[3] == ())
    ctx.site(g.where, "bounding box: low positions shrink (min), high positions grow (max), position by position", updates=len(ups))
    projs = {}
    for u in ups:
        p = to_poly(u[1][1])
        tgt, val = u[2][0][1], u[2][0][2]
        if p.t == (to_poly(val) - to_poly(tgt)).t:
            kind = "min"       # val < tgt  -> tgt = val
        elif p.t == (to_poly(tgt) - to_poly(val)).t:
            kind = "max"
        else:
            continue
        # position k of the cell / of the running box: an unpacked component (proj) or, in the normal form of an unpacked plain
        # sequence, the item [k]
        def pos(e):
            if e[0] == "proj":
                return e[2]
            if e[0] == "s" and e[2][:2] == ("k", "num") and e[2][2][1] == 1:
                return e[2][2][0]
            return None
        if pos(val) is not None:
            projs[pos(val)] = (kind, pos(tgt))
    want = {0: "min", 1: "min", 2: "max", 3: "max"}
    if {k: v[0] for k, v in projs.items()} != want or any(v[1] is not None and v[1] != k for k, v in projs.items()):
        ctx.report(g.where, f"bbox-update {projs}", "the bounding box of a box's cells is not (min x1, min y1, max x2, max y2) position by position", lineno=g.node.lineno)


# The search returns a shape "iff one exists" only if the cost bound and the at-least-one constraints are encoded
# exactly: the structural rules of the encoding layer (C07) are therefore part of this property as well.
from . import C07 as _c07


@rule("C08", "R5.encoding-layer", "SHARED(C07)",
      "the pseudo-Boolean / SAT layer the search posts its bound through is encoded exactly: encode-or-refuse, diagram "
      "translation, diagram construction (leaf tests, if/else propagation) -- the C07 rules R1, R2, R8 evaluated for C08", floor=10)
def r5(ctx: Ctx) -> None:
    _c07.r1(ctx)
    _c07.r2(ctx)
    _c07.r8(ctx)


@rule("C08", "R7.grid-tables", "LOOP-COVER/MIRROR",
      "definecoords builds the grid from ALL cells of the input: carrier.blocks is every cell index, the coordinate sets take the "
      "four borders of every cell, xcoords / ycoords are those sets sorted, and next / prev link every pair of consecutive "
      "coordinates (x and y alike) -- the formula talks about the whole grid, not a window of it", floor=4)
def r7_grid_tables(ctx: Ctx) -> None:
    f = ctx.func(RECT, "definecoords")
    c = canon_function(f, ctx.model)
    car = ("p", 0)
    ip = ("a", car, "input_problem")
    stores = {st[1][2]: st[2] for st in c if st[0] == "set" and len(st) == 3 and st[1][0] == "a" and st[1][1] == car}
    ctx.site(f.where, "blocks == every index of the input problem")
    n_ip = ("c", ("g", "len"), (ip,), ())
    all_idx = [("c", ("g", "list"), (("c", ("g", "range"), (n_ip,), ()),), ()), ("c", ("g", "range"), (n_ip,), ())]
    if stores.get("blocks") not in all_idx:
        ctx.report(f.where, "blocks-not-all " + show(stores.get("blocks", ("k", "none")))[:120],
                   "carrier.blocks is not the list of all cell indices: cells left out of the problem can never be selected, so shapes that use them have no model",
                   lineno=f.node.lineno)
    # the two coordinate sets: filled by one loop over all cells with the borders (0, 2) / (1, 3)
    loops = [st for st in c if st[0] == "for" and st[2] == ip]
    ctx.site(f.where, "coordinate sets take borders 0/2 (x) and 1/3 (y) of every cell", loops=len(loops))
    sets_ = {}
    for lp in loops:
        for st in lp[3]:
            if st[0] == "expr" and st[1][0] == "c" and st[1][1][0] == "a" and st[1][1][2] == "add" and len(st[1][2]) == 1 and st[1][2][0][:2] == ("s", lp[1]) \
                    and st[1][2][0][2][:2] == ("k", "num"):
                sets_.setdefault(st[1][1][1], set()).add(st[1][2][0][2][2][0])
            else:
                sets_.setdefault(("other",), set()).add(0)
    by_axis = {frozenset(v): k for k, v in sets_.items()}
    xs, ys = by_axis.get(frozenset({0, 2})), by_axis.get(frozenset({1, 3}))
    if len(loops) != 1 or xs is None or ys is None or len(sets_) != 2:
        ctx.report(f.where, "coordinate-sets", "the coordinate sets are not filled with the four borders of every cell of the input problem", lineno=f.node.lineno)
        return
    for axis, sv, key in [("x", xs, "xcoords"), ("y", ys, "ycoords")]:
        srt = ("c", ("g", "sorted"), (sv,), ())
        ctx.site(f.where, f"{key} == sorted set of {axis} borders; next_{axis} / prev_{axis} link consecutive coordinates")
        if stores.get(key) != srt:
            ctx.report(f.where, f"coords-not-sorted-set {key}", f"carrier.{key} is not the sorted set of all {axis} borders", lineno=f.node.lineno)
            continue
        nxt, prv = stores.get(f"next_{axis}"), stores.get(f"prev_{axis}")
        ok = False
        for lp in c:
            if lp[0] == "for" and lp[2] == ("c", ("g", "range"), (k_num(1), ("c", ("g", "len"), (srt,), ())), ()):
                i = lp[1]
                cur, before = ("s", srt, i), ("s", srt, (to_poly(i) - Poly.const(1)).to_s())
                if {("set", ("s", nxt, before), cur), ("set", ("s", prv, cur), before)} <= set(lp[3]) and len(lp[3]) == 2:
                    ok = True
        # the same links written as mappings built from the list and the list shifted by one
        tail = ("s", srt, ("slice", k_num(1), K_NONE, K_NONE))

        def zipped(a_, b_):
            return ("c", ("g", "dict"), (("c", ("g", "zip"), (a_, b_), ()),), ())
        if not ok and nxt == zipped(srt, tail) and prv == zipped(tail, srt):
            ok = True
        if not ok:
            ctx.report(f.where, f"coordinate-links {axis}", f"next_{axis} / prev_{axis} do not link every pair of consecutive {axis} coordinates", lineno=f.node.lineno)


@rule("C08", "R8.cost-terms-pure", "PURE",
      "the integer areas that enter the cost bound are functions of the cell they are asked for: area() stores nothing (no attribute / "
      "item store, no mutating call, no access to the carrier's attribute dictionary) -- a cache on the shared carrier would answer "
      "for the previous module's cells when the carrier is re-used", floor=1)
def r8_area_pure(ctx: Ctx) -> None:
    f = ctx.func(RECT, "area")
    MUT = {"setdefault", "setattr", "update", "append", "extend", "insert", "pop", "popitem", "clear", "remove", "add", "vars", "globals", "__setitem__", "__setattr__"}
    stores = [n for n in walk_own(f.node) if isinstance(n, (ast.Attribute, ast.Subscript)) and isinstance(n.ctx, (ast.Store, ast.Del))]
    calls = [n for n in walk_own(f.node) if isinstance(n, ast.Call) and call_name(n) in MUT]
    dicts = [n for n in walk_own(f.node) if isinstance(n, ast.Attribute) and n.attr == "__dict__"]
    deco = list(f.node.decorator_list)
    ctx.site(f.where, "area() keeps no state", stores=len(stores), mutating_calls=len(calls), decorators=len(deco))
    for n in stores + calls + dicts + deco:
        ctx.report(f.where, f"area-keeps-state {ast.unparse(n)[:60]}", "area() stores something (a cache keyed by the cell index on the shared carrier): for the next module the "
                   "cost bound is built from the previous module's areas", lineno=getattr(n, "lineno", f.node.lineno))
