"""C04 -- netlist write -> read round trip preserves the design."""
from __future__ import annotations

import ast
from itertools import product

from framelint.core import rule, Ctx
from framelint.srcmodel import walk_own, AnalysisError
from framelint.canon import (canon_function, show, S, to_poly, mk_lt, mk_and, mk_or, mk_not, mk_eq, k_num, k_str, contains,
                             skey, atoms_of, Sigma, K_TRUE, K_FALSE, K_NONE)
from framelint.peval import peval_block, fold, fold_block
from framelint.schema import dict_stores, attr_reads
from .common import (GEOM, NETLIST, MODULE, NTYPES, YREAD, YWRITE, UTILS, exit_facts, call_name, norm_stmt, kw_value)

FLAG_KEYS = ["KW_HARD", "KW_FIXED", "KW_TERMINAL", "KW_FLIP"]
ALL_KEYS = ["KW_AREA", "KW_TERMINAL", "KW_FIXED", "KW_HARD", "KW_FLIP", "KW_CENTER", "KW_ASPECT_RATIO", "KW_RECTANGLES"]
from framelint.canon import canon_function as _canon_function_expanded

def canon_function(fi, model=None, opts=None):   # rules of this file match shapes: look through every local
    return _canon_function_expanded(fi, model, opts, expand=True)



def reader_keys(ctx: Ctx) -> set[str]:
    """module keys the reader accepts (from the dispatch in parse_yaml_module)"""
    f = ctx.func(YREAD, "parse_yaml_module")
    c = canon_function(f, ctx.model)
    keys: set[str] = set()
    from .common import eq_constants, dict_loops
    loops = dict_loops(c, ("p", 1))
    if len(loops) != 1:
        raise AnalysisError("parse_yaml_module: key dispatch loop not found")
    kv = loops[0][1]
    for st in atoms_of(loops[0][0][3], lambda x: x[0] == "if" and len(x) == 4):
        ks = eq_constants(st[1], kv)
        if ks is None:
            from framelint.canon import mk_not as _mk_not
            ks = eq_constants(_mk_not(st[1]), kv)      # a refusing 'key is none of ...' arm names the same keys
        for k in ks or ():
            if k[0] == "k" and k[1] == "str":
                keys.add(k[2])
    # the refusal of any other key: 'else: assert False' is, in the normal form, the assertion 'key is one of ...'
    for st in atoms_of(loops[0][0][3], lambda x: x[0] == "assert" and len(x) == 2):
        for k in eq_constants(st[1], kv) or ():
            if k[0] == "k" and k[1] == "str":
                keys.add(k[2])
    return keys


def writer_stores(ctx: Ctx):
    f = ctx.func(YWRITE, "dump_yaml_module")
    c = canon_function(f, ctx.model)
    rets = [st for st in c if st[0] == "ret"]
    if len(rets) != 1 or rets[0][1][0] != "v":
        raise AnalysisError("dump_yaml_module: does not return a locally built dict")
    info = rets[0][1]
    return f, c, info, dict_stores(c, info)


@rule("C04", "R1.key-sets", "SCHEMA",
      "every module key the reader accepts can be emitted by the writer, and the writer emits no other key", floor=1)
def r1(ctx: Ctx) -> None:
    rk = reader_keys(ctx)
    f, c, info, stores = writer_stores(ctx)
    wk = {k[2] for k, v, conds in stores if k[0] == "k" and k[1] == "str"}
    ctx.site(f.where, "writer key set == reader key set", reader=sorted(rk), writer=sorted(wk))
    ctx.require(len(rk) >= 8, f"reader key table smaller than confirmed: {sorted(rk)}")
    for k in sorted(rk - wk):
        ctx.report(f.where, f"key-never-written {k}", f"the reader accepts the module attribute '{k}' but the writer never emits it: "
                   "the attribute is lost on write -> read", lineno=f.node.lineno)
    for k in sorted(wk - rk):
        ctx.report(f.where, f"key-not-readable {k}", f"the writer emits '{k}' which the reader refuses", lineno=f.node.lineno)
    # Nets / Modules top level
    fw = ctx.func(NETLIST, "Netlist.write_yaml")
    cw = canon_function(fw, ctx.model)
    top = atoms_of(cw, lambda x: x[0] == "dict")
    keys = {k[2] for d in top for k, v in d[1] if k[0] == "k" and k[1] == "str"}
    ctx.site(fw.where, "top-level keys are Modules and Nets", keys=sorted(keys))
    if keys != {kw_value(ctx, "KW_MODULES"), kw_value(ctx, "KW_NETS")}:
        ctx.report(fw.where, "top-keys " + " ".join(sorted(keys)), "Netlist.write_yaml does not emit exactly the Modules and Nets sections", lineno=fw.node.lineno)


@rule("C04", "R2.value-shapes", "SCHEMA",
      "where the in-memory field is richer than a scalar (per-region areas) the writer emits the rich shape whenever the "
      "scalar would be lossy; centre / aspect ratio are written as the two-element lists the reader expects", floor=3)
def r2(ctx: Ctx) -> None:
    f, c, info, stores = writer_stores(ctx)
    mod = ("p", 0)
    area_key = k_str(kw_value(ctx, "KW_AREA"))
    ground = k_str(kw_value(ctx, "KW_GROUND"))
    regs = ("a", mod, "area_regions")
    single_ground = mk_and([("cmp", "in", ground, regs), mk_eq(("c", ("g", "len"), (regs,), ()), k_num(1))])
    n = 0
    for k, v, conds in stores:
        if k != area_key:
            continue
        n += 1
        lossless_scalar = single_ground in conds
        rich = v == regs or (v[0] == "c" and v[1] in (("g", "dict"),) and v[2] == (regs,)) or \
            (v[0] == "comp" and v[1] == "dict" and contains(v, regs))
        ctx.site(f.where, "area value keeps the per-region areas", value=show(v), under_single_ground_guard=lossless_scalar)
        if not lossless_scalar and not rich:
            ctx.report(f.where, f"area-collapsed {show(v)}",
                       "on the branch where the module has areas in several (or non-ground) regions the writer emits a single number: "
                       "{DSP: 2, LUT: 3} is written as 5 and read back as ground area 5", lineno=f.node.lineno)
        if lossless_scalar and not (v == ("c", ("a", mod, "area"), (ground,), ()) or v == ("s", regs, ground) or v == ("c", ("a", mod, "area"), (), ()) or rich):
            ctx.report(f.where, f"area-scalar {show(v)}", "the scalar area written for a ground-only module is not its ground area", lineno=f.node.lineno)
    ctx.require(n >= 1, "dump_yaml_module: no area store found")
    for key, attr, comps in [("KW_CENTER", "center", ("x", "y")), ("KW_ASPECT_RATIO", "aspect_ratio", ("min_wh", "max_wh"))]:
        kk = k_str(kw_value(ctx, key))
        vals = {v for k, v, conds in stores if k == kk}
        want = ("list", (("a", ("a", mod, attr), comps[0]), ("a", ("a", mod, attr), comps[1])))
        ctx.site(f.where, f"{attr} written as [{comps[0]}, {comps[1]}]", values=[show(v) for v in vals])
        if vals != {want}:
            ctx.report(f.where, f"shape-{attr} " + " ".join(sorted(show(v) for v in vals)), f"the writer does not emit {attr} as the pair [{comps[0]}, {comps[1]}]",
                       lineno=f.node.lineno)
        guards = [conds for k, v, conds in stores if k == kk]
        if not all(("cmp", "isnot", ("a", mod, attr), K_NONE) in g for g in guards):
            ctx.report(f.where, f"unguarded-{attr}", f"{attr} is written without testing that it is defined", lineno=f.node.lineno)


@rule("C04", "R3.attribute-read", "SCHEMA",
      "the writer reads every piece of module state that the reader / constructor sets from the document, every rectangle "
      "field and both fields of every net", floor=3)
def r3(ctx: Ctx) -> None:
    # fields set from the document by Module.__init__ (under the key dispatch) + rectangles
    fc = ctx.func(MODULE, "Module.__init__")
    cc = canon_function(fc, ctx.model)
    loops = [lp for lp in atoms_of(cc, lambda x: x[0] == "for" and len(x) == 5) if contains(lp[2], "items")]
    ctx.require(len(loops) == 1, "Module.__init__: keyword loop not found")
    doc_fields = {st[1][2] for st in atoms_of(loops[0][3], lambda x: x[0] == "set" and len(x) == 3 and x[1][0] == "a" and x[1][1] == ("self",))}
    doc_fields |= {"_rectangles", "_name"}
    cls = ctx.model.cls(MODULE, "Module")
    prop_field = {}
    for name, fi in cls.methods.items():
        if fi.kind == "property":
            from framelint.srcmodel import getter_field
            rets = [n for n in walk_own(fi.node) if isinstance(n, ast.Return)]
            if getter_field(fi.node) is not None:
                prop_field[name] = getter_field(fi.node)
            elif len(rets) == 1 and isinstance(rets[0].value, ast.Attribute) and isinstance(rets[0].value.value, ast.Name) and rets[0].value.value.id == "self":
                prop_field[name] = rets[0].value.attr
            if name == "is_soft":
                prop_field[name] = "_hard"
    prop_field["area"] = "_area_regions"
    fw = ctx.func(YWRITE, "dump_yaml_module")
    fws = ctx.func(YWRITE, "dump_yaml_modules")
    reads = attr_reads(fw, fw.params()[0])
    for n in walk_own(fws.node):
        if isinstance(n, ast.Attribute) and isinstance(n.ctx, ast.Load):
            reads.add(n.attr)
    read_fields = {prop_field.get(a, a) for a in reads}
    ctx.site(fw.where, "writer reads every document-derived field of Module", document_fields=sorted(doc_fields), fields_read=sorted(read_fields))
    ctx.require(len(doc_fields) >= 9, f"Module document fields fewer than confirmed: {sorted(doc_fields)}")
    for fld in sorted(doc_fields - read_fields):
        ctx.report(fw.where, f"field-never-read {fld}", f"the writer never reads Module.{fld}, which the reader sets from the document: it cannot survive the round trip",
                   lineno=fw.node.lineno)
    fr = ctx.func(YWRITE, "dump_yaml_rectangles")
    rr = set()
    for n in walk_own(fr.node):
        if isinstance(n, ast.Attribute) and isinstance(n.ctx, ast.Load):
            rr.add(n.attr)
    ctx.site(fr.where, "rectangle writer reads centre, shape and region", reads=sorted(rr))
    for a in ["center", "shape", "x", "y", "w", "h", "region"]:
        if a not in rr:
            ctx.report(fr.where, f"rect-field-never-read {a}", f"the rectangle writer never reads .{a}", lineno=fr.node.lineno)
    fe = ctx.func(YWRITE, "dump_yaml_edges")
    er = set()
    for n in walk_own(fe.node):
        if isinstance(n, ast.Attribute) and isinstance(n.ctx, ast.Load):
            er.add(n.attr)
    ctx.site(fe.where, "net writer reads members (by name) and weight", reads=sorted(er))
    for a in ["modules", "weight", "name"]:
        if a not in er:
            ctx.report(fe.where, f"net-field-never-read {a}", f"the net writer never reads .{a}", lineno=fe.node.lineno)


def _emitted_flags(ctx: Ctx, val: dict) -> set[str]:
    """partial evaluation of the writer under a valuation of the kind properties -> flag keys emitted with value True"""
    f, c, info, _ = writer_stores(ctx)
    mod = ("p", 0)
    env = {("a", mod, "is_hard"): K_TRUE if val["hard"] else K_FALSE,
           ("a", mod, "is_fixed"): K_TRUE if val["fixed"] else K_FALSE,
           ("a", mod, "is_terminal"): K_TRUE if val["terminal"] else K_FALSE,
           ("a", mod, "flip"): K_TRUE if val["flip"] else K_FALSE,
           ("a", mod, "is_soft"): K_FALSE if val["hard"] else K_TRUE}
    res = peval_block(c, env)
    flags: dict[str, bool] = {}
    names = {kw_value(ctx, k): k for k in FLAG_KEYS}

    def walk(stmts):
        for st in stmts:
            if st[0] == "set" and len(st) == 3 and st[1][0] == "s" and st[1][1] == info and st[1][2][0] == "k" and st[1][2][2] in names:
                flags[st[1][2][2]] = st[2] == K_TRUE
            elif st[0] == "expr" and st[1][0] == "c" and st[1][1] == ("a", info, "pop") and st[1][2] and st[1][2][0][0] == "k":
                flags.pop(st[1][2][0][2], None)
            elif st[0] == "if":
                # conditions not about the kind (centre defined, rectangles present): flags do not depend on them
                walk(st[2])
                walk(st[3])
    walk(res)
    return {k for k, v in flags.items() if v}


def _decode_flags(ctx: Ctx, flags: set[str]) -> dict:
    """partial evaluation of Module.__init__ on the keyword set ``flags`` (all True) -> kind valuation, or 'refused'"""
    fc = ctx.func(MODULE, "Module.__init__")
    cc = canon_function(fc, ctx.model)
    loops = [lp for lp in cc if lp[0] == "for" and contains(lp[2], "items")]
    kv, vv = loops[0][1][1]
    fields = {"_hard": False, "_fixed": False, "_terminal": False, "_flip": False}
    kwargs = ("pkw",)
    for fl in sorted(flags):
        env = {kv: k_str(fl), vv: K_TRUE}
        for other in [kw_value(ctx, k) for k in ALL_KEYS]:
            present = K_TRUE if other in flags else K_FALSE
            env[("cmp", "in", k_str(other), kwargs)] = present
            env[("cmp", "notin", k_str(other), kwargs)] = mk_not(present)
        res = peval_block(loops[0][3], env)
        for st in res:
            if st[0] == "raise" or (st[0] == "assert" and st[1] == K_FALSE):
                return {"refused": fl}
            if st[0] == "set" and len(st) == 3 and st[1][0] == "a" and st[1][1] == ("self",) and st[1][2] in fields:
                if st[2] in (K_TRUE, K_FALSE):
                    fields[st[1][2]] = st[2] == K_TRUE
    return {"hard": fields["_hard"], "fixed": fields["_fixed"], "terminal": fields["_terminal"], "flip": fields["_flip"]}


@rule("C04", "R4.kind-round-trip", "CCP-TABLE",
      "for every consistent kind (soft, hard, hard+flip, fixed, terminal, fixed terminal) the flags the writer emits "
      "(partial evaluation of dump_yaml_module) are decoded by the constructor (partial evaluation of Module.__init__) "
      "to the same kind", floor=6)
def r4(ctx: Ctx) -> None:
    fw = ctx.func(YWRITE, "dump_yaml_module")
    kinds = [
        ("soft", dict(hard=False, fixed=False, terminal=False, flip=False)),
        ("hard", dict(hard=True, fixed=False, terminal=False, flip=False)),
        ("hard flippable", dict(hard=True, fixed=False, terminal=False, flip=True)),
        ("fixed", dict(hard=True, fixed=True, terminal=False, flip=False)),
        ("terminal", dict(hard=True, fixed=False, terminal=True, flip=False)),
        ("fixed terminal", dict(hard=True, fixed=True, terminal=True, flip=False)),
    ]
    for name, val in kinds:
        flags = _emitted_flags(ctx, val)
        back = _decode_flags(ctx, flags)
        ctx.site(fw.where, f"kind '{name}' survives write -> read", emitted=sorted(flags), decoded=back)
        if back != val:
            diff = sorted(k for k in val if back.get(k) != val[k]) if "refused" not in back else ["refused:" + back["refused"]]
            ctx.report(fw.where, f"kind-lost {name}: {','.join(diff)}",
                       f"a {name} module is written with flags {sorted(flags)} and read back as {back}", lineno=fw.node.lineno)


def yaml_emitter_keeps_order(ctx: Ctx) -> None:
    """the one YAML sink (utils.write_yaml) emits mappings in insertion order: the emitter object is ruamel's default
    (round-trip) flavour; the 'safe' / 'unsafe' / 'base' flavours sort the keys of every mapping, which reorders the
    modules (and the keys of per-region area maps) of every document written"""
    f = ctx.func(UTILS, "write_yaml")
    ctors = [n for n in walk_own(f.node) if isinstance(n, ast.Call) and call_name(n) == "YAML"]
    # the emitter and the text buffer belong to one call: objects kept at module level are shared by all documents ever written
    # in the process (a text buffer that is rewound but not emptied appends the tail of a longer, earlier document)
    local_names = {t.id for n in walk_own(f.node) if isinstance(n, (ast.Assign, ast.AnnAssign, ast.With))
                   for t in ([x for tg in n.targets for x in ast.walk(tg)] if isinstance(n, ast.Assign) else
                             ([n.target] if isinstance(n, ast.AnnAssign) else [i.optional_vars for i in n.items if i.optional_vars is not None]))
                   if isinstance(t, ast.Name)} | set(f.params())
    shared = sorted({n.func.value.id for n in walk_own(f.node) if isinstance(n, ast.Call) and isinstance(n.func, ast.Attribute) and isinstance(n.func.value, ast.Name)
                     and n.func.attr in ("dump", "getvalue", "seek", "write", "truncate") and n.func.value.id not in local_names})
    ctx.site(f.where, "emitter and text buffer are created by the call that uses them", shared=shared)
    for nm in shared:
        ctx.report(f.where, f"writer-shared-object {nm}", f"write_yaml works on the module-level object '{nm}' that all calls share: what a call returns depends on the "
                   "documents written earlier in the process", lineno=f.node.lineno)
    if not ctors and not shared:
        raise AnalysisError("write_yaml: construction of the YAML emitter not found")
    for n in ctors:
        typ = n.args[0] if n.args else next((k.value for k in n.keywords if k.arg == "typ"), None)
        ok = typ is None or (isinstance(typ, ast.Constant) and typ.value in (None, "rt"))
        ctx.site(f.where, "YAML emitter keeps mapping insertion order (round-trip flavour)", constructor=ast.unparse(n), keeps_order=ok)
        if not ok:
            ctx.report(f.where, f"yaml-emitter-sorts {ast.unparse(n)}", "write_yaml builds a key-sorting YAML emitter: the modules of a written netlist come back in "
                       "alphabetical order instead of the order of the design", lineno=n.lineno)
    sorters = [n for n in walk_own(f.node) if isinstance(n, ast.Call) and call_name(n) in ("sorted", "sort")]
    sorters += [n for n in walk_own(f.node) if isinstance(n, ast.Assign) and any(isinstance(t, ast.Attribute) and "sort" in t.attr for t in n.targets)
                and not (isinstance(n.value, ast.Constant) and n.value.value is False)]
    for n in sorters:
        ctx.report(f.where, f"yaml-emitter-sorts {ast.unparse(n)[:60]}", "write_yaml sorts what it writes", lineno=n.lineno)
    dumps = [n for n in walk_own(f.node) if isinstance(n, ast.Call) and call_name(n) == "dump"]
    ctx.site(f.where, "the data handed in is what is dumped", dumps=len(dumps))
    for n in dumps:
        if not (n.args and isinstance(n.args[0], ast.Name) and n.args[0].id == f.params()[0]):
            ctx.report(f.where, f"yaml-dump-arg {ast.unparse(n)[:60]}", "write_yaml does not dump the data it was given", lineno=n.lineno)
    if not dumps:
        raise AnalysisError("write_yaml: dump call not found")


@rule("C04", "R5.order", "ORDER",
      "modules and nets are written by iterating the lists in order and read by iterating the document in order: no "
      "sorting and no set on either side, and the YAML emitter is the insertion-order-preserving (round-trip) flavour", floor=4)
def r5(ctx: Ctx) -> None:
    for rel, q in [(YWRITE, "dump_yaml_modules"), (YWRITE, "dump_yaml_edges"), (YREAD, "parse_yaml_modules"), (YREAD, "parse_yaml_edges"),
                   (YREAD, "parse_yaml_netlist"), (YWRITE, "dump_yaml_rectangles"), (YREAD, "parse_yaml_rectangles")]:
        f = ctx.func(rel, q)
        bad = [n for n in walk_own(f.node) if isinstance(n, ast.Call) and call_name(n) in ("sorted", "set", "frozenset", "reversed", "sort", "shuffle")]
        bad += [n for n in walk_own(f.node) if isinstance(n, (ast.Set, ast.SetComp))]
        ctx.site(f.where, "order-preserving iteration", reordering_constructs=len(bad))
        for n in bad:
            ctx.report(f.where, f"reorders {ast.unparse(n)[:60]}", f"{q} reorders or de-duplicates the items it transfers", lineno=n.lineno)
    yaml_emitter_keeps_order(ctx)
    f = ctx.func(YWRITE, "dump_yaml_modules")
    c = canon_function(f, ctx.model)
    b = ("b", 1, 0)
    want = ("ret", ("comp", "dict", (("a", b, "name"), ("c", ("g", "dump_yaml_module"), (b,), ())), ((b, ("p", 0), K_TRUE),)))
    ctx.site(f.where, "one entry per module, keyed by its name, in list order")
    if c != (want,):
        ctx.report(f.where, "modules-map " + "; ".join(show(x) for x in c)[:200], "dump_yaml_modules is not {m.name: dump(m) for every m in order}", lineno=f.node.lineno)


@rule("C04", "R6.defaults", "SCHEMA",
      "omission constants agree: a weight is omitted iff it equals the reader's default (1); a region is omitted iff it "
      "is the ground region, which is the rectangle constructor's default", floor=3)
def r6(ctx: Ctx) -> None:
    fe = ctx.func(YWRITE, "dump_yaml_edges")
    ce = canon_function(fe, ctx.model)
    conds = atoms_of(ce, lambda x: x[0] == "if" and contains(x[1], "weight"))
    ctx.site(fe.where, "weight appended iff != 1")
    ok = False
    for cnd in conds:
        e = [a for a in atoms_of(cnd[1], lambda x: x[0] == "a" and x[2] == "weight")]
        if e and cnd[1] == mk_not(mk_eq(e[0], k_num(1))) and len(cnd[2]) == 1 and contains(cnd[2], "append") and contains(cnd[2], e[0]) and cnd[3] == ():
            ok = True
    if not ok:
        ctx.report(fe.where, "weight-omission", "the net writer does not append the weight exactly when it differs from 1", lineno=fe.node.lineno)
    fr = ctx.func(YREAD, "parse_yaml_edges")
    cr = canon_function(fr, ctx.model)
    ctors = atoms_of(cr, lambda x: x[0] == "c" and x[1] == ("g", "NamedHyperEdge"))
    ctx.site(fr.where, "reader default weight is 1")
    ok = False
    for ct in ctors:
        w = ct[2][1] if len(ct[2]) > 1 else dict(ct[3]).get("weight")
        if w is not None and w[0] == "ite" and k_num(1) in (w[2], w[3]):
            ok = True
    env = {st[1]: st[2] for st in atoms_of(cr, lambda x: x[0] == "set" and len(x) == 3)}
    if not ok:
        for ct in ctors:
            w = ct[2][1] if len(ct[2]) > 1 else None
            w = env.get(w, w)
            if w is not None and w[0] == "ite" and k_num(1) in (w[2], w[3]):
                ok = True
    if not ok:
        ctx.report(fr.where, "weight-default", "the reader's default weight is not 1", lineno=fr.node.lineno)
    fw = ctx.func(YWRITE, "dump_yaml_rectangles")
    cw = canon_function(fw, ctx.model)
    ground = k_str(kw_value(ctx, "KW_GROUND"))
    conds = atoms_of(cw, lambda x: x[0] == "if" and contains(x[1], "region"))
    ctx.site(fw.where, "region appended iff != ground; constructor default region is ground")
    ok = any(cnd[1][0] == "cmp" and cnd[1][1] == "sne" and ground in (cnd[1][2], cnd[1][3]) and contains(cnd[2], "append") and cnd[3] == () for cnd in conds)
    fc = ctx.func(GEOM, "Rectangle.__init__")
    cc = canon_function(fc, ctx.model)
    default_ok = ("set", ("a", ("self",), "_region"), ground) in cc
    if not ok or not default_ok:
        ctx.report(fw.where, "region-omission", "the region is not omitted exactly when it is the ground region (the constructor's default)", lineno=fw.node.lineno)


@rule("C04", "R7.writer-pure", "PURE",
      "writing a netlist does not modify it (allow-list: the idempotent total-area memo)", floor=3)
def r7(ctx: Ctx) -> None:
    eff = ctx.effects()
    allow = {"_total_area": "idempotent memo of sum(area_regions) filled by Module.area()", "_area_rectangles": "idempotent memo of the rectangle area sum"}
    for rel, q in [(NETLIST, "Netlist.write_yaml"), (YWRITE, "dump_yaml_modules"), (YWRITE, "dump_yaml_module"), (YWRITE, "dump_yaml_edges"),
                   (YWRITE, "dump_yaml_rectangles")]:
        f = ctx.func(rel, q)
        fields = eff.fields.get(f, {})
        bad = {(p, fl) for p, fs in fields.items() for fl in fs if fl not in allow}
        ctx.site(f.where, "no effect on its arguments beyond allow-listed memos", written={p: sorted(fs) for p, fs in fields.items()})
        for p, fl in sorted(bad):
            hows = sorted({m.how for m in eff.mutations(f, p) if fl in m.fields})
            ctx.report(f.where, f"writer-mutates {p}.{fl}", f"{q} modifies its argument '{p}' (field {fl}): writing twice gives different documents / a changed design",
                       lineno=f.node.lineno, how=hows[:3])


def _only_loop(block, what: str):
    loops = [st for st in block if st[0] == "for" and len(st) == 5]
    if len(loops) != 1:
        raise AnalysisError(f"{what}: expected one top-level loop, found {len(loops)}")
    return loops[0]


def _unconditional_appends(body, target) -> list:
    """append(...) statements on ``target`` at the top level of a loop body (asserts may precede, no conditional around)"""
    return [st[1][2][0] for st in body if st[0] == "expr" and st[1][0] == "c" and st[1][1] == ("a", target, "append") and len(st[1][2]) == 1]


@rule("C04", "R8.container-codec", "LAW/SIBLING",
      "the net codec is an exact inverse pair: the writer emits [member names in order] + [weight] iff weight != 1, for "
      "every net; the reader takes the last entry as the weight iff it is a number (else 1) and all other entries, in "
      "order, as the members, for every entry; modules, rectangle lists and the two top-level sections are decoded "
      "entry by entry with their own parser and their own name", floor=7)
def r8(ctx: Ctx) -> None:
    from framelint.canon import single_defs, deref, K_NONE, mk_ite
    m = ctx.model
    # ---- writer of nets
    fw = ctx.func(YWRITE, "dump_yaml_edges")
    cw = canon_function(fw, m)
    lw = _only_loop(cw, "dump_yaml_edges")
    e = lw[1]
    out = [st[1] for st in cw if st[0] == "set" and st[2] == ("list", ())]
    ctx.site(fw.where, "every net is encoded: names in order, weight appended iff != 1, and the record is appended to the output")
    ok = False
    if len(out) == 1 and lw[2] == ("p", 0) and cw[-1] == ("ret", out[0]):
        body = lw[3]
        # the record of one net: a fresh list filled with the member names in order (a comprehension has this loop form)
        recs = []
        for st in body:
            if st[0] == "set" and len(st) == 3 and st[2] == ("list", ()):
                fill = [lp for lp in body if lp[0] == "for" and len(lp) == 5 and lp[2] == ("a", e, "modules") and
                        lp[3] == (("expr", ("c", ("a", st[1], "append"), (("a", lp[1], "name"),), ())),)]
                if len(fill) == 1:
                    recs.append((st[1], fill[0]))
        if len(recs) == 1:
            rec, fill = recs[0]
            wcond = [st for st in body if st[0] == "if" and st[1] == mk_not(mk_eq(("a", e, "weight"), k_num(1))) and
                     st[2] == (("expr", ("c", ("a", rec, "append"), (("a", e, "weight"),), ())),) and st[3] == ()]
            apps = _unconditional_appends(body, out[0])
            order = [list(body).index(x) for x in ([fill] + wcond)] if wcond else []
            ok = len(wcond) == 1 and apps == [rec] and len(body) == 4 and order == sorted(order) and \
                order[-1] < [i for i, st in enumerate(body) if st[0] == "expr"][-1]
    if not ok:
        ctx.report(fw.where, "net-encode", "dump_yaml_edges does not emit, for every net, the member names in order followed by the weight when it differs from 1",
                   lineno=fw.node.lineno)
    # ---- reader of nets
    fr = ctx.func(YREAD, "parse_yaml_edges")
    cr = canon_function(fr, m)
    lr = _only_loop(cr, "parse_yaml_edges")
    v = lr[1]
    outr = [st[1] for st in cr if st[0] == "set" and st[2] == ("list", ())]
    last = ("s", v, k_num(-1))
    isnum = ("c", ("g", "is_number"), (last,), ())
    ctx.site(fr.where, "every entry is decoded: weight = last entry iff it is a number else 1; members = all other entries in order")
    ok = False
    if len(outr) == 1 and lr[2] == ("p", 0) and cr[-1] == ("ret", outr[0]):
        apps = _unconditional_appends(lr[3], outr[0])
        if len(apps) == 1 and apps[0][0] == "c" and apps[0][1] == ("g", "NamedHyperEdge") and len(apps[0][2]) == 2:
            mods, w = apps[0][2]
            whole = (("s", v, ("slice", K_NONE, K_NONE, K_NONE)), v, ("c", ("g", "list"), (v,), ()))
            want_m = [mk_ite(isnum, ("s", v, ("slice", K_NONE, k_num(-1), K_NONE)), x) for x in whole]
            want_w = [mk_ite(isnum, ("c", ("g", "float"), (last,), ()), k_num(1)), mk_ite(isnum, last, k_num(1))]
            ok = mods in want_m and w in want_w and not any(st[0] in ("if", "continue", "break") and contains(st, outr[0]) for st in lr[3])
    if not ok:
        ctx.report(fr.where, "net-decode", "parse_yaml_edges does not decode every entry as (all entries but a trailing number, that number or 1)",
                   lineno=fr.node.lineno)
    # ---- modules: every (name, description) pair parsed with its own name, appended in order
    fm = ctx.func(YREAD, "parse_yaml_modules")
    cm = canon_function(fm, m)
    lm = _only_loop(cm, "parse_yaml_modules")
    outm = [st[1] for st in cm if st[0] == "set" and st[2] == ("list", ())]
    ctx.site(fm.where, "every module entry is parsed with its own name and appended in document order")
    ok = False
    from .common import dict_loops
    dl = [x for x in dict_loops(cm, ("p", 0), top_only=True) if x[0] == lm]
    if len(outm) == 1 and dl and cm[-1] == ("ret", outm[0]):
        _, name, info = dl[0]
        ok = _unconditional_appends(lm[3], outm[0]) == [("c", ("g", "parse_yaml_module"), (name, info), ())]
    if not ok:
        ctx.report(fm.where, "modules-decode", "parse_yaml_modules does not parse every (name, description) pair with parse_yaml_module(name, description) in order",
                   lineno=fm.node.lineno)
    fwm = ctx.func(YWRITE, "dump_yaml_modules")
    cwm = canon_function(fwm, m)
    b0 = ("b", 1, 0)
    ctx.site(fwm.where, "every module is written under its own name")
    if cwm != (("ret", ("comp", "dict", (("a", b0, "name"), ("c", ("g", "dump_yaml_module"), (b0,), ())), ((b0, ("p", 0), K_TRUE),))),):
        ctx.report(fwm.where, "modules-encode", "dump_yaml_modules is not {m.name: dump_yaml_module(m) for every module}", lineno=fwm.node.lineno)
    # ---- rectangles: a single flat rectangle is one rectangle; every entry parsed with the module's flags
    frr = ctx.func(YREAD, "parse_yaml_rectangles")
    crr = canon_function(frr, m)
    calls = atoms_of(crr, lambda x: x[0] == "c" and x[1] == ("g", "parse_yaml_rectangle"))
    ctx.site(frr.where, "every rectangle entry is parsed with the module's fixed / hard flags; a flat list is one rectangle", parse_calls=len(calls))
    flat_test = atoms_of(crr, lambda x: x[0] == "c" and x[1] == ("g", "is_number") and len(x[2]) == 1 and x[2][0][0] == "s" and x[2][0][2] == k_num(0))
    ok = bool(calls) and bool(flat_test) and all(len(c_[2]) == 3 and c_[2][1] == ("p", 1) and c_[2][2] == ("p", 2) and not c_[3] for c_ in calls)
    if not ok:
        ctx.report(frr.where, "rectangles-decode", "parse_yaml_rectangles does not parse every entry (or the single flat rectangle) with the module's flags", lineno=frr.node.lineno)
    # ---- sections
    fn = ctx.func(YREAD, "parse_yaml_netlist")
    cn = canon_function(fn, m)
    ln = _only_loop(cn, "parse_yaml_netlist")
    ctx.site(fn.where, "section 'Modules' -> parse_yaml_modules, section 'Nets' -> parse_yaml_edges, returned as (modules, nets)")
    ok = False
    dl = [x for x in dict_loops(cn, None, top_only=True) if x[0] == ln]
    if not dl and ln[1][0] == "v":          # a key loop whose body reads the entries at constant keys only
        dl = [(ln, ln[1], ("s", ln[2], ln[1]), ln[2])]
    if dl and cn[-1][0] == "ret" and cn[-1][1][0] == "tuple" and len(cn[-1][1][1]) == 2:
        key, val = dl[0][1], dl[0][2]
        mv, ev = cn[-1][1][1]
        kM, kN = k_str(kw_value(ctx, "KW_MODULES")), k_str(kw_value(ctx, "KW_NETS"))
        sets = {}
        for st in atoms_of(ln[3], lambda x: x[0] == "if" and x[1][0] == "cmp" and x[1][1] == "seq" and key in (x[1][2], x[1][3])):
            kk = st[1][2] if st[1][3] == key else st[1][3]
            for s_ in st[2]:
                if s_[0] == "set":
                    sets[kk] = (s_[1], s_[2])
        # in the case for one key the key *is* that constant (normal form): the entry read is tree['Modules'] / tree['Nets']
        def entry(k_):
            return (val, Sigma(raw_subst={key: k_}).apply(val))
        ok = sets.get(kM) in [(mv, ("c", ("g", "parse_yaml_modules"), (v_,), ())) for v_ in entry(kM)] \
            and sets.get(kN) in [(ev, ("c", ("g", "parse_yaml_edges"), (v_,), ())) for v_ in entry(kN)]
    if not ok:
        ctx.report(fn.where, "sections-decode", "parse_yaml_netlist does not decode 'Modules' with parse_yaml_modules and 'Nets' with parse_yaml_edges into (modules, nets)",
                   lineno=fn.node.lineno)
    fnw = ctx.func(NETLIST, "Netlist.write_yaml")
    cnw = canon_function(fnw, m)
    ctx.site(fnw.where, "the document is {'Modules': dump_yaml_modules(self.modules), 'Nets': dump_yaml_edges(self.edges)}")
    docs = atoms_of(cnw, lambda x: x[0] == "dict" and len(x[1]) == 2)
    s_ = ("self",)
    want = {(k_str(kw_value(ctx, "KW_MODULES")), ("c", ("g", "dump_yaml_modules"), (("a", s_, "modules"),), ())),
            (k_str(kw_value(ctx, "KW_NETS")), ("c", ("g", "dump_yaml_edges"), (("a", s_, "edges"),), ()))}
    if not any(set(d[1]) == want for d in docs):
        ctx.report(fnw.where, "sections-encode", "Netlist.write_yaml does not write the modules and the nets of this netlist under 'Modules' and 'Nets'", lineno=fnw.node.lineno)



@rule("C04", "R9.read-normalisation-stable", "GUARD",
      "reading re-runs the trunk recognition, which may move a rectangle to the front of a module's list: it must leave a "
      "list it has already normalised unchanged, so a later candidate replaces the current trunk only when strictly "
      "larger (ties keep the earlier one) -- otherwise every write/read cycle swaps two equal rectangles and the "
      "document alternates", floor=1)
def r9(ctx: Ctx) -> None:
    fi = ctx.func(GEOM, "create_stog")
    g = ctx.cfg(fi)
    cn = g.canon()
    # the assignment that records a candidate as the trunk (under the all(...) test), and the loop it is in
    from .common import resolve_local
    recs = []
    for n in walk_own(fi.node):
        if isinstance(n, ast.If) and any(isinstance(c_, ast.Call) and call_name(c_) == "all" for c_ in ast.walk(resolve_local(fi.node, n.test))):
            for st in n.body:
                if isinstance(st, ast.Assign) and isinstance(st.targets[0], ast.Name):
                    recs.append(st)
    if len(recs) != 1:
        raise AnalysisError("create_stog: the statement recording the accepted trunk was not found")
    rec = recs[0]
    best = cn.expr(ast.Name(id=rec.targets[0].id, ctx=ast.Load()))
    loops = [lp for lp in walk_own(fi.node) if isinstance(lp, ast.For) and any(x is rec for x in ast.walk(lp))]
    if not loops or not (isinstance(loops[-1].target, ast.Tuple) and len(loops[-1].target.elts) == 2):
        raise AnalysisError("create_stog: candidate loop (for i, trunk in enumerate(...)) not found")
    cand = cn.expr_store(loops[-1].target.elts[1])
    coll = ("p", 0)
    facts = g.facts_at(g.node_for(rec))
    area_b = ("a", ("s", coll, best), "area")
    area_c = ("a", cand, "area")
    strictly_larger = mk_lt(area_b, area_c)
    # 'no trunk recorded yet': a test on the record alone that holds for its initial value (-1, None, ...) and for no index
    inits = [st.value for st in walk_own(fi.node) if isinstance(st, (ast.Assign, ast.AnnAssign)) and st is not rec and st.value is not None
             and isinstance(st.targets[0] if isinstance(st, ast.Assign) else st.target, ast.Name)
             and (st.targets[0] if isinstance(st, ast.Assign) else st.target).id == rec.targets[0].id]
    from framelint.peval import fold as _fold

    def none_yet(d) -> bool:
        if len(inits) != 1 or not contains(d, best):
            return False
        init = cn.expr(inits[0])
        if _fold(Sigma(raw_subst={best: init}).apply(d)) != K_TRUE:
            return False
        if d in (("cmp", "is", best, K_NONE), ("cmp", "is", K_NONE, best)):
            return True
        # a comparison of the record with a constant that is false at index 0 and stays false as the index grows
        lit, neg = (d[1], True) if d[0] == "not" else (d, False)
        if lit[0] != "lt0":
            return False
        p_ = to_poly(lit[1])
        coef = p_.t.get(((best, 1),))
        if coef is None or set(p_.t) - {((best, 1),), ()}:
            return False
        decreasing = (coef > 0) != neg
        return decreasing and _fold(Sigma(raw_subst={best: k_num(0)}).apply(d)) == K_FALSE

    def disjuncts(f):
        return list(f[1]) if f[0] == "or" else [f]
    ok = strictly_larger in facts or any(all(none_yet(d) or d == strictly_larger for d in disjuncts(f)) for f in facts if contains(f, best))
    ctx.site(fi.where, "a candidate replaces the recorded trunk only if no trunk was recorded or it is strictly larger", facts=len(facts), ok=ok)
    if not ok:
        ctx.report(fi.where, "trunk-tie-replaced", "a later rectangle of equal area can replace the recorded trunk: after the swap to the front the same list gives the "
                   "other order on the next read, so writing a reloaded netlist does not reproduce the document", lineno=rec.lineno,
                   facts=sorted(show(x) for x in facts)[:12])


@rule("C04", "R10.key-order-independent", "ORDER",
      "the constructor accepts the keys of a module in any order (the format says the order is irrelevant, and the writer has its "
      "own): inside the loop over the keyword arguments a check may look at the current key and value and at WHICH keys are "
      "present, but not at state that another key's arm sets -- checks that relate two attributes are made after the loop", floor=1)
def r10_key_order(ctx: Ctx) -> None:
    fc = ctx.func(MODULE, "Module.__init__")
    loops = [n for n in walk_own(fc.node) if isinstance(n, ast.For) and isinstance(n.iter, ast.Call) and isinstance(n.iter.func, ast.Attribute)
             and n.iter.func.attr == "items" and isinstance(n.iter.func.value, ast.Name) and fc.node.args.kwarg is not None
             and n.iter.func.value.id == fc.node.args.kwarg.arg]
    ctx.require(len(loops) == 1, "Module.__init__: keyword loop not found")
    written = {t.attr for n in ast.walk(loops[0]) if isinstance(n, (ast.Assign, ast.AnnAssign, ast.AugAssign))
               for t in (n.targets if isinstance(n, ast.Assign) else [n.target]) if isinstance(t, ast.Attribute) and isinstance(t.value, ast.Name) and t.value.id == "self"}
    cls = ctx.model.cls(MODULE, "Module")
    # properties that hand out one of those fields count as reading the field
    reads_of = {}
    for name, fi in cls.methods.items():
        if fi.kind == "property":
            for x in walk_own(fi.node):
                if isinstance(x, ast.Attribute) and isinstance(x.value, ast.Name) and x.value.id == "self" and x.attr in written:
                    reads_of.setdefault(name, set()).add(x.attr)
    n_tests = 0
    for n in ast.walk(loops[0]):
        tests = [n.test] if isinstance(n, (ast.Assert, ast.If)) else []
        for t in tests:
            n_tests += 1
            state = sorted({x.attr for x in ast.walk(t) if isinstance(x, ast.Attribute) and isinstance(x.value, ast.Name) and x.value.id == "self"
                            and (x.attr in written or x.attr in reads_of)})
            if state:
                ctx.report(fc.where, f"order-dependent-check {' '.join(state)}", "a check inside the keyword loop of Module.__init__ reads state that another key sets "
                           f"({', '.join(state)}): whether a document is accepted then depends on the order of its keys, and the writer's order (fixed, terminal, "
                           "center) need not be the one the check expects", lineno=t.lineno)
    ctx.site(fc.where, "tests inside the keyword loop read the current key / value / the set of keys only", tests=n_tests, fields_set_in_loop=sorted(written))
