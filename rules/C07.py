"""C07 -- SAT layer: every posted constraint is encoded exactly (tools/rect/satmanager.py, pseudobool.py)."""
from __future__ import annotations

import ast

from framelint.core import rule, Ctx
from framelint.srcmodel import walk_own, AnalysisError
from framelint.canon import (canon_function, show, S, to_poly, mk_lt, mk_and, mk_or, mk_not, mk_eq, k_num, k_str, contains,
                             skey, atoms_of, Sigma, K_TRUE, K_FALSE, K_NONE, single_defs, deref, Poly)
from framelint.peval import peval_block, paths, traces
from framelint.cfg import ENTRY, EXIT, RAISE
from .common import PB, SATM, call_name, norm_stmt, stmt_calls
from .C16 import ineq_table

S_ = ("self",)
from framelint.canon import canon_function as _canon_function_expanded

def canon_function(fi, model=None, opts=None, expand=True):
    return _canon_function_expanded(fi, model, opts, expand=expand)



@rule("C07", "R1.encode-or-refuse", "MUST-PASS/STRICT-AWARE",
      "pseudoboolencoding adds a clause, or encodes the diagram and asserts its root, or raises, on every path; the only "
      "silent path is the tautology shortcut, and that shortcut is sound for both operators that reach it ('>=' and "
      "'>'): a bound <= 0 is a tautology only for '>='", floor=3)
def r1(ctx: Ctx) -> None:
    f = ctx.func(SATM, "SATManager.pseudoboolencoding")
    g = ctx.cfg(f)

    def adds(n) -> bool:
        return n.kind == "stmt" and any(isinstance(c, ast.Call) and call_name(c) == "add_clause" for c in ast.walk(n.ast))
    # allowed silent edge: false edge of the test '<ineq>.clause is not None' reached after isclause() is true
    cn = g.canon()
    has_clause = ("cmp", "isnot", ("a", ("p", 0), "clause"), K_NONE)
    silent_edge = {}      # test node -> the polarity of the edge on which there is nothing to post
    for n in g.stmt_nodes():
        if n.kind == "test":
            ce = cn.expr(n.ast.test)
            if ce == has_clause:
                silent_edge[n.id] = False
            elif ce == mk_not(has_clause):
                silent_edge[n.id] = True
    silent_tests = list(silent_edge)
    seen, todo, leak = set(), [ENTRY], False
    while todo:
        x = todo.pop()
        if x in seen:
            continue
        seen.add(x)
        if x == EXIT:
            leak = True
            continue
        for e in g.succ.get(x, []):
            if adds(g.nodes[e.dst]):
                continue
            if e.cond is not None and x in silent_edge and e.cond[1] is silent_edge[x]:
                continue      # the tautology: nothing to post
            todo.append(e.dst)
    ctx.site(f.where, "every non-tautology path posts a clause (or raises)", silent_tests=len(silent_tests))
    if leak:
        ctx.report(f.where, "silent-path", "a path through pseudoboolencoding returns without posting anything although the inequality is not the "
                   "recognised tautology", lineno=f.node.lineno)
    c = canon_function(f, ctx.model)
    c = deref(c, single_defs(c))
    ineq = ("p", 0)
    ctx.site(f.where, "non-clause inequalities: diagram encoded and its root asserted")
    rob = ("c", ("a", ineq, "getrobdd"), (("p", 1),), ())
    isc = ("c", ("a", ineq, "isclause"), (), ())
    # whatever the arrangement of branches: on every path where the inequality is not a clause, exactly two things are done
    trs = [t for t in traces(canon_function(f, ctx.model), fall=K_NONE) if mk_not(isc) in t[0]]
    want_eff = (("expr", ("c", ("a", S_, "_codifyrobdd"), (rob,), ())),
                ("expr", ("c", ("a", S_, "add_clause"), (("list", (("c", ("a", S_, "newvar"), (rob, k_str("robdd_")), ()),)),), ())))
    ok = bool(trs) and all(t[1] == want_eff and t[2] == K_NONE for t in trs)
    if not ok:
        ctx.report(f.where, "root-not-asserted", "pseudoboolencoding does not codify the diagram of the inequality and assert exactly its root variable", lineno=f.node.lineno)

    # the tautology shortcut in isclause
    fi = ctx.func(PB, "Ineq.isclause")
    ci = canon_function(fi, ctx.model)
    ps = paths(ci)
    op = ("a", S_, "op")
    rhs = ("a", S_, "rhs")
    silent = [(l, o) for l, o in ps if o == K_TRUE and not _sets_clause_before(ci, l)]
    ctx.site(fi.where, "'return True' without a clause (silent acceptance) only for a sound tautology", silent_paths=len(silent))
    ctx.require(len(silent) >= 1, "isclause: tautology shortcut not found")
    for lits, o in silent:
        lits = set(lits)
        strict_ok = mk_lt(rhs, k_num(0)) in lits          # rhs < 0: tautology for '>' and '>='
        ge_ok = mk_not(mk_lt(k_num(0), rhs)) in lits and ("cmp", "seq", *sorted([op, k_str(">=")], key=skey)) in lits
        # a disjunctive guard 'rhs < 0 or (rhs <= 0 and op == ">=")' appears as one literal
        disj_ok = any(l[0] == "or" and set(l[1]) == {mk_lt(rhs, k_num(0)), mk_and([mk_not(mk_lt(k_num(0), rhs)), ("cmp", "seq", *sorted([op, k_str(">=")], key=skey))])}
                      for l in lits)
        only_ge = ("cmp", "seq", *sorted([op, k_str(">=")], key=skey)) in lits and mk_not(mk_lt(k_num(0), rhs)) in lits
        if not (strict_ok or ge_ok or disj_ok or only_ge):
            ctx.report(fi.where, "tautology-not-strict-aware " + " & ".join(sorted(show(l) for l in lits)),
                       "isclause() accepts the inequality as a tautology (nothing is posted) whenever the bound is <= 0, also for the strict "
                       "operator: 'a > 0' is dropped although it is not a tautology", lineno=fi.node.lineno)
    # operators other than >= / > are not clauses (and getrobdd refuses everything but >=)
    ctx.site(fi.where, "only '>=' and '>' can be clauses")
    first = [(l, o) for l, o in ps if o == K_FALSE and len(l) == 1]
    want = mk_and([("cmp", "sne", *sorted([op, k_str(">")], key=skey)), ("cmp", "sne", *sorted([op, k_str(">=")], key=skey))])
    if not any(l[0] == want for l, o in first):
        ctx.report(fi.where, "clause-operators", "isclause() does not first refuse every operator other than '>=' and '>'", lineno=fi.node.lineno)
    fg = ctx.func(PB, "Ineq.getrobdd")
    gg = ctx.cfg(fg)
    ctx.site(fg.where, "getrobdd builds diagrams for '>=' only and raises otherwise")
    rets = [n for n in gg.stmt_nodes() if isinstance(n.ast, ast.Return)]
    want_fact = ("cmp", "seq", *sorted([op, k_str(">=")], key=skey))
    bad = [n for n in rets if want_fact not in gg.facts_at(n.id)]
    raises = [n for n in gg.stmt_nodes() if isinstance(n.ast, ast.Raise)]
    if bad or not raises or not rets:
        ctx.report(fg.where, "robdd-operators", "getrobdd returns a diagram for an operator other than '>=' (or never refuses)", lineno=fg.node.lineno)


def _sets_clause_before(block, lits) -> bool:
    # the silent paths of interest are the early returns before self.clause is assigned: they have at most 2 literals
    return len(lits) > 2


@rule("C07", "R2.diagram-translation", "TUPLE",
      "_codifyrobdd: for a node (variable, THEN, ELSE) both children are codified, 'node and variable -> THEN child' and "
      "'node and not variable -> ELSE child' are posted; terminals 0 / 1 become unit clauses not-p / p; each node is "
      "translated once per manager (check-then-mark on the instance's own table)", floor=5)
def r2(ctx: Ctx) -> None:
    f = ctx.func(SATM, "SATManager._codifyrobdd")
    c = canon_function(f, ctx.model)
    c = deref(c, single_defs(c))
    rid = ("p", 0)
    node = ("s", ("g", "memory"), rid)

    def var(x, pre):
        return ("c", ("a", S_, "newvar"), (x, k_str(pre)), ())
    p = var(rid, "robdd_")

    def neg(x):
        return (-to_poly(x)).to_s()

    def clause(*lits):
        return ("expr", ("c", ("a", S_, "add_clause"), (("list", tuple(lits)),), ()))
    ctx.site(f.where, "check-then-mark on self.codified")
    seen_lit = ("cmp", "in", rid, ("a", S_, "codified"))
    mark = ("set", ("s", ("a", S_, "codified"), rid), K_TRUE)
    trs = traces(canon_function(f, ctx.model), fall=K_NONE)
    seen = [t for t in trs if seen_lit in t[0]]
    fresh = [t for t in trs if mk_not(seen_lit) in t[0]]
    ok = bool(seen) and bool(fresh) and len(seen) + len(fresh) == len(trs) and all(t[1] == () and t[2] == K_NONE for t in seen) \
        and all(t[1][:1] == (mark,) for t in fresh)
    if not ok:
        ctx.report(f.where, "codify-guard", "_codifyrobdd does not guard the translation by 'id not in self.codified' and mark the id first", lineno=f.node.lineno)
        return
    body = c
    stmts = atoms_of(body, lambda x: x[0] == "expr")
    ctx.site(f.where, "terminal 0 -> [not p]; terminal 1 -> [p]")
    z = [t for t in fresh if mk_eq(rid, k_num(0)) in t[0]]
    o = [t for t in fresh if mk_eq(rid, k_num(1)) in t[0] and mk_eq(rid, k_num(0)) not in t[0]]
    if not (z and o and all(t[1] == (mark, clause(neg(p))) and t[2] == K_NONE for t in z) and all(t[1] == (mark, clause(p)) and t[2] == K_NONE for t in o)):
        ctx.report(f.where, "terminal-clauses", "the terminals are not translated as 0 -> [not p], 1 -> [p]", lineno=f.node.lineno)
    ctx.site(f.where, "both children codified")
    kids = {st[1][2][0] for st in stmts if st[1][0] == "c" and st[1][1] == ("a", S_, "_codifyrobdd")}
    if kids != {("s", node, k_num(1)), ("s", node, k_num(2))}:
        ctx.report(f.where, "children-codified " + " ".join(sorted(show(k) for k in kids)), "_codifyrobdd does not recurse into both children (positions 1 and 2 of the node)",
                   lineno=f.node.lineno)
    d = var(("s", node, k_num(0)), "")
    th = var(("s", node, k_num(1)), "robdd_")
    el = var(("s", node, k_num(2)), "robdd_")
    ctx.site(f.where, "node clauses: [not p, not v, THEN] and [not p, v, ELSE]")
    have = {st for st in stmts if st[1][0] == "c" and st[1][1] == ("a", S_, "add_clause")}
    want = {clause(neg(p), neg(d), th), clause(neg(p), d, el)}
    have_sets = {frozenset(st[1][2][0][1]) for st in have if st[1][2][0][0] == "list"}
    want_sets = {frozenset(st[1][2][0][1]) for st in want}
    if not want_sets <= have_sets:
        ctx.report(f.where, "node-clauses " + " | ".join(sorted(show(st[1][2][0]) for st in have))[:300],
                   "the clauses of an inner node are not (not p or not v or THEN) and (not p or v or ELSE): polarity of the decision variable or the children swapped",
                   lineno=f.node.lineno)
    # order of children in the stored node: (variable, if-node, else-node)
    fc = ctx.func(PB, "constructrobdd")
    cc = canon_function(fc, ctx.model)
    cc = deref(cc, single_defs(cc))
    tuples = [t for t in atoms_of(cc, lambda x: x[0] == "tuple" and len(x[1]) == 3) if contains(t, ("p", 3))]
    ctx.site(fc.where, "stored node == (decision variable, node of the if-propagation, node of the else-propagation)")
    ok = False
    for t in tuples:
        a, b, c_ = t[1]
        if contains(a, ("p", 3)) and contains(b, ("p", 4)) and not contains(b, ("c", ("p", 5))) and contains(c_, ("p", 5)):
            ok = True
    # ifnode / elnode may be non-inlined locals: check their definitions
    if not ok:
        raw = canon_function(fc, ctx.model)
        defs = single_defs(raw)
        for t in atoms_of(raw, lambda x: x[0] == "tuple" and len(x[1]) == 3):
            a, b, c_ = [deref(x, defs) for x in t[1]]
            if contains(a, ("p", 3)) and contains(b, ("c", ("p", 4), (("p", 0),), ())) and contains(c_, ("c", ("p", 5), (("p", 0),), ())) \
                    and not contains(b, ("c", ("p", 5), (("p", 0),), ())):
                ok = True
    if not ok:
        ctx.report(fc.where, "node-order", "constructrobdd does not store nodes as (dvar(data), diagram of ifprop(data), diagram of elprop(data))", lineno=fc.node.lineno)
    _both_children(ctx, fc)


def _both_children(ctx: Ctx, fc) -> None:
    """constructrobdd: once the construction has gone into one child it goes into the other too before it answers -- no return
    between the two recursive constructions (a 'the if-branch is 0, so is the whole node' shortcut is wrong for negated literals
    and for any data that is not monotone in the decision variable; seeded change C08-9).  Syntax-directed must-walk over the
    function body: state = set of children constructed on every path so far."""
    fn = fc.node
    params = [a.arg for a in fn.args.posonlyargs + fn.args.args]
    if len(params) < 6:
        return
    props = {params[4]: "if", params[5]: "else"}

    def children(node) -> set:
        got = set()
        for c in ast.walk(node):
            if isinstance(c, ast.Call) and isinstance(c.func, ast.Name) and c.func.id == fn.name and c.args:
                a0 = c.args[0]
                if isinstance(a0, ast.Call) and isinstance(a0.func, ast.Name) and a0.func.id in props:
                    got.add(props[a0.func.id])
        return got
    if children(fn) != {"if", "else"}:
        ctx.site(fc.where, "both children constructed before an answer: recursive constructions not spelt in this function (not evaluated)")
        return
    bad = []

    def walk(stmts, state):
        for st in stmts:
            if state is None:
                return None
            if isinstance(st, ast.Return):
                state = state | (children(st.value) if st.value is not None else set())
                if state and state != {"if", "else"}:
                    bad.append(st)
                return None
            if isinstance(st, ast.Raise):
                return None
            if isinstance(st, ast.If):
                s0 = state | children(st.test)
                a, b = walk(st.body, set(s0)), walk(st.orelse, set(s0))
                state = b if a is None else a if b is None else (a & b)
            elif isinstance(st, (ast.For, ast.While)):
                s0 = state | children(st.iter if isinstance(st, ast.For) else st.test)
                walk(st.body, set(s0))
                state = s0
            elif isinstance(st, ast.Try):
                walk(st.body, set(state))
                for h in st.handlers:
                    walk(h.body, set(state))
                r = walk(st.finalbody, set(state))
                state = state if r is not None else None
            elif isinstance(st, ast.With):
                state = walk(st.body, state | children(ast.Module(body=[ast.Expr(i.context_expr) for i in st.items], type_ignores=[])))
            elif isinstance(st, (ast.FunctionDef, ast.ClassDef)):
                pass
            else:
                state = state | children(st)
        return state
    walk(fn.body, set())
    ctx.site(fc.where, "no answer between the construction of the if-child and of the else-child (both children on every non-base path)")
    for st in bad:
        ctx.report(fc.where, "one-child-answer", f"{fc.qualname} returns after constructing only one child of the node "
                   f"('{norm_stmt(st)[:60]}'): the other branch of the decision variable is never looked at", lineno=st.lineno)


def _canonicity_table(block) -> bool:
    """every path through constructrobdd, read with the length of the store as a symbol (L before the append, L + 1 after):
    the store grows by one node exactly on the paths where that node is absent from the table, there the table maps the
    node to L (the position it got), and the identifier memoised / returned afterwards is the table's entry for the node.
    The table only ever holds positions, so 'table.get(node) is None' and 'node not in table' are the same test."""
    from framelint.peval import fold
    MEM, MAP = ("g", "memory"), ("g", "mmap")
    LEN = ("c", ("g", "len"), (MEM,), ())
    L = ("k", "sym", "L")
    HELD = k_num(0)                       # what the table holds for a key it has: a position, never None
    saw_append = False
    for lits, effs, out in traces(block, fall=K_NONE, keep_sets=True):
        if isinstance(out, tuple) and out[:1] == ("raise",):
            continue
        env: dict = {}
        n = 0
        appended = None
        table: dict = {}

        def ev(x):
            x = Sigma(raw_subst=env).apply(x) if env else x
            return fold(Sigma(raw_subst={LEN: (to_poly(L) + Poly.const(n)).to_s()}).apply(x))
        for st in effs:
            if st[0] == "set" and len(st) == 3 and st[1][0] == "v":
                env[st[1]] = ev(st[2])
            elif st[0] == "set" and len(st) == 3 and st[1][0] == "s" and st[1][1] == MAP:
                table[ev(st[1][2])] = ev(st[2])
            elif st[0] == "expr" and st[1][0] == "c" and st[1][1] == ("a", MEM, "append") and len(st[1][2]) == 1:
                if appended is not None:
                    return False
                appended = ev(st[1][2][0])
                n += 1
            elif contains(st, MEM) and st[0] != "set" or (st[0] in ("aug", "del", "mset") and (contains(st, MAP) or contains(st, MEM))):
                return False
        if appended is None:
            if table:
                return False
            continue
        saw_append = True
        # the branch literals that decide this path, as they were evaluated (before the append)
        absent = ("cmp", "notin", appended, MAP)
        # re-read the literals with the variables as they stood at the test: only variables defined before any store matter,
        # and those are not re-defined before the append on a path of this shape
        known = False
        env0: dict = {}
        for st in effs:
            if st[0] == "set" and len(st) == 3 and st[1][0] == "v" and st[1] not in env0:
                env0[st[1]] = fold(Sigma(raw_subst=env0).apply(st[2])) if env0 else st[2]
        for lit in lits:
            l0 = fold(Sigma(raw_subst={("s", MAP, appended): HELD}).apply(fold(Sigma(raw_subst=env0).apply(lit))))
            if l0 in (absent, mk_not(("cmp", "in", appended, MAP))):
                known = True
        if not known:
            return False
        if table != {appended: L}:
            return False
        # what is returned is that position (directly or read back from the table)
        if ev(out) not in (L, ("s", MAP, appended)):
            return False
    if not saw_append:
        return False
    # the paths without an append that get past the test return the table's entry
    return True


@rule("C07", "R3.instance-state", "WHO-WRITES",
      "all SATManager state is created per instance in __init__ (no class-level mutable attribute); the diagram store is "
      "append-only with the full (variable, then, else) triple as key", floor=3)
def r3(ctx: Ctx) -> None:
    cls = ctx.model.cls(SATM, "SATManager")
    ctx.site(SATM + "::SATManager", "no class-level attribute assignments", class_assigns=sorted(cls.class_assigns))
    for name in sorted(cls.class_assigns):
        ctx.report(SATM + "::SATManager", f"class-level-state {name}", f"SATManager.{name} is a class-level attribute shared by all managers", lineno=cls.node.lineno)
    init = ctx.func(SATM, "SATManager.__init__")
    fields = {n.attr for n in walk_own(init.node) if isinstance(n, ast.Attribute) and isinstance(n.ctx, ast.Store) and isinstance(n.value, ast.Name) and n.value.id == "self"}
    used = set()
    for m in cls.methods.values():
        for n in walk_own(m.node):
            if isinstance(n, ast.Attribute) and isinstance(n.value, ast.Name) and n.value.id == "self" and n.attr not in cls.methods:
                used.add(n.attr)
    ctx.site(init.where, "every instance attribute used is created in __init__", created=sorted(fields), used=sorted(used))
    for a in sorted(used - fields):
        ctx.report(init.where, f"state-not-in-init {a}", f"SATManager.{a} is used but not created per instance in __init__", lineno=init.node.lineno)
    # ROBDD store
    fc = ctx.func(PB, "constructrobdd")
    cc = canon_function(fc, ctx.model)
    writers = []
    for f in ctx.model.all_functions():
        for n in walk_own(f.node):
            if isinstance(n, ast.Call) and isinstance(n.func, ast.Attribute) and isinstance(n.func.value, ast.Name) and n.func.value.id in ("memory", "mmap") \
                    and n.func.attr in ("append", "pop", "clear", "remove", "insert", "update", "setdefault", "extend"):
                writers.append((f, n))
            if isinstance(n, ast.Subscript) and isinstance(n.ctx, (ast.Store, ast.Del)) and isinstance(n.value, ast.Name) and n.value.id in ("memory", "mmap"):
                writers.append((f, n))
            if isinstance(n, ast.Global) and ({"memory", "mmap"} & set(n.names)):
                writers.append((f, n))
    ctx.site(fc.where, "writers of the process-wide diagram store", writers=sorted({f.where for f, _ in writers}))
    for f, n in writers:
        if f is not fc:
            ctx.report(f.where, "store-writer", f"{f.qualname} writes the process-wide ROBDD store (only constructrobdd may)", lineno=n.lineno)
        elif not ((isinstance(n, ast.Call) and n.func.attr == "append") or (isinstance(n, ast.Subscript) and isinstance(n.ctx, ast.Store))):
            ctx.report(f.where, f"store-not-append-only {ast.unparse(n)[:60]}", "the ROBDD store is modified other than by appending a new node", lineno=n.lineno)
    ctx.site(fc.where, "a node is appended only if its full triple is not yet in the table; index = position in the store")
    ok = _canonicity_table(canon_function(fc, ctx.model, expand=False))
    if not ok:
        ctx.report(fc.where, "canonicity-table", "constructrobdd does not append a new node exactly when its triple is absent and index it by its position", lineno=fc.node.lineno)
    # memo default None, equal children collapse
    defaults = fc.node.args.defaults
    ctx.site(fc.where, "per-call memo defaults to None (no shared mutable default); equal children collapse")
    if not defaults or not (isinstance(defaults[-1], ast.Constant) and defaults[-1].value is None):
        ctx.report(fc.where, "memo-default", "constructrobdd's memo has a mutable default shared across calls", lineno=fc.node.lineno)


@rule("C07", "R4.at-most-one", "LOOP-COVER",
      "quadraticencoding posts (not a or not b) for every unordered pair; heuleencoding refuses k < 3, splits the list "
      "around a fresh variable that occurs positively in the first group and negatively in the second, covers every "
      "literal, and recurses on a strictly shorter list; imply negates every antecedent and keeps the consequent", floor=5)
def r4(ctx: Ctx) -> None:
    f = ctx.func(SATM, "SATManager.quadraticencoding")
    c = canon_function(f, ctx.model)
    lst = ("p", 0)
    n = ("c", ("g", "len"), (lst,), ())
    ok = False
    if len(c) == 1 and c[0][0] == "for" and c[0][2] == ("c", ("g", "range"), (n,), ()):
        i = c[0][1]
        inner = c[0][3]
        # inner loop over the elements after position i (the index spelling 'for j in range(i + 1, n): ... lst[j]' has this form too)
        if len(inner) == 1 and inner[0][0] == "for" and inner[0][2] == ("s", lst, ("slice", (to_poly(i) + Poly.const(1)).to_s(), K_NONE, K_NONE)):
            lj = inner[0][1]
            want = ("expr", ("c", ("a", S_, "add_clause"), (("list", ((-to_poly(("s", lst, i))).to_s(), (-to_poly(lj)).to_s())),), ()))
            ok = inner[0][3] == (want,)
    ctx.site(f.where, "pairs i < j over the whole list, both literals negated")
    if not ok:
        ctx.report(f.where, "pairwise-amo " + "; ".join(show(x) for x in c)[:200], "quadraticencoding does not post (not l_i or not l_j) for all i < j", lineno=f.node.lineno)
    g = ctx.func(SATM, "SATManager.heuleencoding")
    cg = canon_function(g, ctx.model, expand=False)    # the identity of the fresh variable matters here
    k = ("p", 1)
    gg = ctx.cfg(g)
    ctx.site(g.where, "k < 3 refused")
    fs = gg.facts_at(EXIT)
    if mk_not(mk_lt(k, k_num(3))) not in fs:
        ctx.report(g.where, "heule-k", "heuleencoding does not refuse k < 3 (the recursion would not shrink the list)", lineno=g.node.lineno)
    defs = single_defs(cg)
    ctx.site(g.where, "short lists go to the pairwise encoding; long lists are split around a fresh variable")
    ok = False
    detail = ""
    trs = [t for t in traces(cg, fall=K_NONE, keep_sets=True) if not (isinstance(t[2], tuple) and t[2][:1] == ("raise",))]
    longs = [t for t in trs if mk_lt(k, n) in t[0]]
    shorts = [t for t in trs if mk_not(mk_lt(k, n)) in t[0]]
    if len(longs) == 1 and len(shorts) == 1 and len(trs) == 2:
        long_, short = longs[0][1], shorts[0][1]
        short_ok = short == (("expr", ("c", ("a", S_, "quadraticencoding"), (lst,), ())),)
        sets = {st[1]: st[2] for st in long_ if st[0] == "set" and len(st) == 3 and st[1][0] == "v"}
        fresh = [v for v, e in sets.items() if e == ("c", ("a", S_, "newaux"), (), ())]
        h1 = [v for v, e in sets.items() if e == ("s", lst, ("slice", K_NONE, (to_poly(k) - Poly.const(1)).to_s(), K_NONE))]
        h2 = [v for v, e in sets.items() if e == ("s", lst, ("slice", (to_poly(k) - Poly.const(2)).to_s(), K_NONE, K_NONE))]
        if len(fresh) == 1 and len(h1) == 1 and len(h2) == 1:
            fr = fresh[0]
            pos = ("expr", ("c", ("a", h1[0], "append"), (fr,), ())) in long_
            negd = ("set", ("s", h2[0], k_num(0)), (-to_poly(fr)).to_s()) in long_
            q = ("expr", ("c", ("a", S_, "quadraticencoding"), (h1[0],), ())) in long_
            rec = ("expr", ("c", ("a", S_, "heuleencoding"), (h2[0], k), ())) in long_
            ok = short_ok and pos and negd and q and rec
            detail = f"short={short_ok} fresh+={pos} fresh-={negd} pairwise(first)={q} recurse(second)={rec}"
        else:
            detail = f"fresh={len(fresh)} first-slice={len(h1)} second-slice={len(h2)}"
    if not ok:
        ctx.report(g.where, "heule-split " + detail, "heuleencoding does not split the list as lst[:k-1] + [fresh] and [not fresh] + lst[k-1:] "
                   "(the second slice starts at k-2 and its first element is replaced by the negated fresh variable)", lineno=g.node.lineno)
    h = ctx.func(SATM, "SATManager.imply")
    ch = canon_function(h, ctx.model)
    ch = deref(ch, single_defs(ch))
    ctx.site(h.where, "imply: clause = negated antecedents + consequent")
    # the clause is a local list: the negation of every antecedent (collected in order), then the consequent
    v = [st[1] for st in ch if st[0] == "set" and len(st) == 3 and st[2] == ("list", ())]
    ok = False
    if len(v) == 1 and len(ch) == 4 and ch[1][0] == "for":
        lv = ch[1][1]
        ok = ch[0] == ("set", v[0], ("list", ())) and ch[1] == ("for", lv, ("p", 0), (("expr", ("c", ("a", v[0], "append"), ((-to_poly(lv)).to_s(),), ())),), ()) \
            and ch[2:] == (("expr", ("c", ("a", v[0], "append"), (("p", 1),), ())), ("expr", ("c", ("a", S_, "add_clause"), (v[0],), ())))
    if not ok:
        ctx.report(h.where, "imply " + "; ".join(show(x) for x in ch)[:200], "imply does not post (not a1 or ... or not an or consequent)", lineno=h.node.lineno)
    fa = ctx.func(SATM, "SATManager.add_clause")
    ca = canon_function(fa, ctx.model)
    ctx.site(fa.where, "add_clause appends the clause to the instance's clause list")
    if ca != (("expr", ("c", ("a", ("a", S_, "clauses"), "append"), (("p", 0),), ())),):
        ctx.report(fa.where, "add-clause", "add_clause does not append the clause to self.clauses", lineno=fa.node.lineno)


@rule("C07", "R7.ineq-table", "CCP-TABLE",
      "Ineq normalisation table (shared with C16.R5): swap iff '<=' / '<', resulting operator in {'>=', '>', '='}, "
      "anything else raises", floor=6)
def r7(ctx: Ctx) -> None:
    f = ctx.func(PB, "Ineq.__init__")
    tab = ineq_table(ctx)
    want = {">=": (False, ">="), "<=": (True, ">="), ">": (False, ">"), "<": (True, ">"), "=": (False, "="), "==": (False, "="), "!=": ("raise", None)}
    for op, w in want.items():
        ctx.site(f.where, f"operator {op!r}", got=tab.get(op), want=w)
        if tab.get(op) != w:
            ctx.report(f.where, f"ineq-table {op!r} -> {tab.get(op)}", f"Ineq('{op}') is normalised to {tab.get(op)} instead of {w}", lineno=f.node.lineno)


def _lam_ret(ctx: Ctx, q: str):
    if "#" in q:
        # a helper that both constructions share is defined once, before the test that tells them apart
        base = q.split("#")[0]
        names = {g.qualname for g in ctx.model.all_functions(include_inlined=True) if g.module.relpath == PB}
        if q not in names and base in names and not any(n.startswith(base + "#") for n in names):
            q = base
    f = ctx.func(PB, q)
    c = canon_function(f, ctx.model)
    if len(c) != 1 or c[0][0] != "ret":
        # the value written as guards ('if c: return a' ; 'return b') is the conditional value
        from framelint.peval import value_expr
        from framelint.canon import deref as _deref, single_defs as _sd
        v = value_expr(_deref(c, _sd(c)))
        if v is None:
            raise AnalysisError(f"{q}: not a single-return helper")
        # (a, b) if c else (a', b')  is  (a if c else a', b if c else b')
        if v[0] == "ite" and len(v) == 4 and all(isinstance(arm, tuple) and arm[:1] == ("tuple",) and len(arm) == 2 for arm in v[2:4]) \
                and len(v[2][1]) == len(v[3][1]):
            from framelint.canon import mk_ite
            v = ("tuple", tuple(mk_ite(v[1], a_, b_) for a_, b_ in zip(v[2][1], v[3][1])))
        return f, v
    return f, c[0][1]


def _construction_suffix(ctx: Ctx, decomposed: bool) -> str:
    """the helper functions of the two diagram constructions have the same names; which set belongs to the
    coefficient-decomposition variant is decided by the arm of the test on ``coefficientdecomposition`` that defines
    them, not by their order in the file"""
    fg = ctx.func(PB, "Ineq.getrobdd")
    found = {}

    assigns = {}
    for n in walk_own(fg.node):
        if isinstance(n, ast.Assign) and len(n.targets) == 1 and isinstance(n.targets[0], ast.Name):
            assigns.setdefault(n.targets[0].id, []).append(n.value)

    def test_of(t):
        """(is the test on coefficientdecomposition, negated) looking through 'not' and a single-assignment local"""
        neg = False
        for _ in range(6):
            if isinstance(t, ast.UnaryOp) and isinstance(t.op, ast.Not):
                t, neg = t.operand, not neg
            elif isinstance(t, ast.Name) and t.id != "coefficientdecomposition" and len(assigns.get(t.id, [])) == 1:
                t = assigns[t.id][0]
            else:
                break
        return isinstance(t, ast.Name) and t.id == "coefficientdecomposition", neg

    def rec(stmts, pol):
        for k, st in enumerate(stmts):
            if isinstance(st, ast.If):
                on_cd, neg = test_of(st.test)
                if on_cd:
                    rec(st.body, not neg)
                    rec(st.orelse, neg)
                    if not st.orelse and st.body and isinstance(st.body[-1], (ast.Return, ast.Raise)):
                        rec(stmts[k + 1:], neg)      # the rest of the block is the other arm
                        return
                else:
                    rec(st.body, pol)
                    rec(st.orelse, pol)
            elif isinstance(st, ast.FunctionDef) and st.name == "ifprop" and pol is not None:
                found[pol] = st
            elif isinstance(st, (ast.For, ast.While, ast.With, ast.Try)):
                rec(getattr(st, "body", []), pol)
    rec(fg.node.body, None)
    if set(found) != {True, False}:
        raise AnalysisError("Ineq.getrobdd: the two diagram constructions (with / without coefficient decomposition) were not found")
    for suf in ("", "#2"):
        cand = ctx.model.func(PB, "Ineq.getrobdd.<locals>.ifprop" + suf)
        if cand is not None and cand.node is found[decomposed]:
            return suf
    raise AnalysisError("Ineq.getrobdd: nested helper not indexed")


@rule("C07", "R8.diagram-construction", "LAW",
      "ROBDD construction for sum(c_i l_i) >= b: false leaf iff the remaining maximum sum < b, true leaf iff b <= 0; the "
      "else-propagation is the if-propagation with the literal's polarity exchanged (both constructions); terms are "
      "processed in the same (sorted) order that names the decision variable", floor=8)
def r8(ctx: Ctx) -> None:
    x = ("p", 0)
    terms, bound = ("s", x, k_num(0)), ("s", x, k_num(1))
    head = ("s", terms, k_num(0))
    for decomposed in (False, True):
        suffix = _construction_suffix(ctx, decomposed)
        f, cond = _lam_ret(ctx, "Ineq.getrobdd.<locals>.bccond" + suffix)
        ctx.site(f.where, "leaf test: maxsum(terms) < bound or bound <= 0")
        want = mk_or([mk_lt(("c", ("g", "maxsum"), (terms,), ()), bound), mk_not(mk_lt(k_num(0), bound))])
        if cond != want:
            ctx.report(f.where, f"leaf-test {show(cond)}", "the base-case test of the diagram construction is not 'maxsum < bound or bound <= 0'", lineno=f.node.lineno)
        f, val = _lam_ret(ctx, "Ineq.getrobdd.<locals>.bcconstr" + suffix)
        ctx.site(f.where, "leaf value: 1 iff bound <= 0")
        want = ("ite", mk_lt(k_num(0), bound), k_num(0), k_num(1))
        if val != want and val != ("ite", mk_not(mk_lt(k_num(0), bound)), k_num(1), k_num(0)):
            ctx.report(f.where, f"leaf-value {show(val)}", "the leaf value is not '1 if bound <= 0 else 0'", lineno=f.node.lineno)
        f, dv = _lam_ret(ctx, "Ineq.getrobdd.<locals>.dvar" + suffix)
        ctx.site(f.where, "decision variable = variable of the first remaining term")
        if dv != ("a", ("a", head, "L"), "v"):
            ctx.report(f.where, f"decision-variable {show(dv)}", "the decision variable is not the variable of the first remaining term", lineno=f.node.lineno)
        fi_, ifp = _lam_ret(ctx, "Ineq.getrobdd.<locals>.ifprop" + suffix)
        fe_, elp = _lam_ret(ctx, "Ineq.getrobdd.<locals>.elprop" + suffix)
        sign = ("a", ("a", head, "L"), "s")
        ctx.site(fi_.where, "if/else propagation are duals under the literal's polarity")
        dual = Sigma(raw_subst={sign: mk_not(sign)}).apply(ifp)
        from framelint.peval import fold
        if fold(dual) != fold(elp):
            ctx.report(fe_.where, f"if-else-dual {show(elp)[:160]}", "the else-propagation is not the if-propagation with the polarity of the literal exchanged",
                       lineno=fe_.node.lineno, if_prop=show(ifp)[:200], else_prop=show(elp)[:200])
        # if-propagation: positive literal true -> bound decreases by the (consumed part of the) coefficient
        ctx.site(fi_.where, "if-propagation: bound decreases by the consumed coefficient exactly when the literal is positive")
        ok = ifp[0] == "tuple" and len(ifp[1]) == 2 and ifp[1][1][0] == "ite" and ifp[1][1][1] == sign
        if ok:
            dec, keep = ifp[1][1][2], ifp[1][1][3]
            consumed = (to_poly(bound) - to_poly(dec)).to_s()
            coef = ("a", head, "c")
            if not decomposed:
                ok = keep == bound and consumed == coef and ifp[1][0] == ("s", terms, ("slice", k_num(1), K_NONE, K_NONE))
            else:
                lb = ("c", ("g", "largebit"), (coef,), ())
                rest = ("c", ("g", "insert"), (("s", terms, ("slice", k_num(1), K_NONE, K_NONE)),
                                                 ("c", ("g", "Term"), (("a", head, "L"), (to_poly(coef) - to_poly(lb)).to_s()), ())), ())
                ok = keep == bound and consumed == lb and ifp[1][0] == rest
        if not ok:
            ctx.report(fi_.where, f"if-propagation {show(ifp)[:200]}", "the if-propagation does not consume the first term and lower the bound by its coefficient for a positive literal",
                       lineno=fi_.node.lineno)
    fg = ctx.func(PB, "Ineq.getrobdd")
    cg = canon_function(fg, ctx.model)
    ctx.site(fg.where, "terms sorted by decreasing coefficient; initial data = (terms, bound)")
    sorts = atoms_of(cg, lambda x: x[0] == "c" and x[1][0] == "a" and x[1][2] == "sort")
    ok = len(sorts) == 1 and dict(sorts[0][3]).get("key") == ("lambda", 1, (-to_poly(("a", ("b", 1, 0), "c"))).to_s())
    if not ok:
        ctx.report(fg.where, "term-order", "getrobdd does not sort the terms by decreasing coefficient", lineno=fg.node.lineno)
    fm = ctx.func(PB, "maxsum")
    cm = canon_function(fm, ctx.model)
    ctx.site(fm.where, "maxsum == sum of all coefficients")
    loops = [lp for lp in cm if lp[0] == "for" and lp[2] == ("p", 0)]
    ok = len(loops) == 1 and len(loops[0][3]) == 1 and loops[0][3][0][0] == "aug" and loops[0][3][0][1] == "Add" and loops[0][3][0][3] == ("a", loops[0][1], "c")
    if not ok:
        ctx.report(fm.where, "maxsum", "maxsum is not the sum of the coefficients of all terms", lineno=fm.node.lineno)


@rule("C07", "R9.solver-interface", "SIBLING",
      "solve() and tocnf() encode the sign of a literal identically; the model is decoded with the same table; value() "
      "returns 1 - model for negative literals; evalexpr adds a coefficient exactly when its literal evaluates to 1", floor=4)
def r9(ctx: Ctx) -> None:
    fs = ctx.func(SATM, "SATManager.solve")
    ft = ctx.func(SATM, "SATManager.tocnf")
    cs = canon_function(fs, ctx.model)
    ct = canon_function(ft, ctx.model)
    b = ("b", 1, 0)
    neg_cond_s = [x for x in atoms_of(cs, lambda x: x[0] == "ite" and contains(x, "ttable"))]
    ctx.site(fs.where, "literal -> signed integer: negative iff sign == isflipped(variable)")
    ok = False
    for it in neg_cond_s:
        lit = [a for a in atoms_of(it[1], lambda x: x[0] == "a" and x[2] == "s")]
        if lit:
            l = lit[0][1]
            tt = ("s", ("a", S_, "ttable"), ("a", l, "v"))
            cond = mk_eq(("a", l, "s"), ("c", ("a", S_, "isflipped"), (("a", l, "v"),), ()))
            if it == ("ite", cond, (-to_poly(tt)).to_s(), tt):
                ok = True
    if not ok:
        ctx.report(fs.where, "literal-sign-solve", "solve() does not map a literal to -index exactly when its sign equals isflipped(variable)", lineno=fs.node.lineno)
    ctx.site(ft.where, "tocnf uses the same sign rule")
    conds = [x for x in atoms_of(ct, lambda x: x[0] == "if" and contains(x[1], "isflipped"))]
    ok = any(cnd[1][0] == "eq0" and contains(cnd[2], k_str("-")) for cnd in conds)
    if not ok:
        ctx.report(ft.where, "literal-sign-tocnf", "tocnf() does not write '-' exactly when the literal's sign equals isflipped(variable)", lineno=ft.node.lineno)
    fv = ctx.func(SATM, "SATManager.value")
    cv = canon_function(fv, ctx.model)
    lit = ("p", 0)
    mv = ("s", ("a", S_, "model"), ("a", lit, "v"))
    want = (("if", ("cmp", "notin", ("a", lit, "v"), ("a", S_, "model")), (("ret", K_NONE),), ()),
            ("if", ("a", lit, "s"), (("ret", mv),), (("ret", (Poly.const(1) - to_poly(mv)).to_s()),)))
    alt = (("if", ("cmp", "notin", ("a", lit, "v"), ("a", S_, "model")), (("ret", K_NONE),), ()),
           ("if", mk_not(("a", lit, "s")), (("ret", (Poly.const(1) - to_poly(mv)).to_s()),), ()), ("ret", mv))
    ctx.site(fv.where, "value(lit) == model[v] for positive, 1 - model[v] for negative literals")
    from framelint.peval import paths as _paths
    outs = {(tuple(sorted(l, key=skey)), o) for l, o in _paths(cv, fall=K_NONE)}
    wouts = {(tuple(sorted(l, key=skey)), o) for l, o in _paths(want, fall=K_NONE)}
    if outs != wouts:
        ctx.report(fv.where, "value-decode", "value() is not 'model[v] if positive else 1 - model[v]' (None when unsolved)", lineno=fv.node.lineno)
    fe = ctx.func(SATM, "SATManager.evalexpr")
    ce = canon_function(fe, ctx.model)
    e = ("p", 0)
    from .common import dict_loops
    loops = [x[0] for x in dict_loops(ce, ("a", e, "t"), top_only=True)]
    terms = [x[2] for x in dict_loops(ce, ("a", e, "t"), top_only=True)]
    ctx.site(fe.where, "evalexpr == constant + sum of coefficients whose literal has value 1")
    ok = False
    if len(loops) == 1:
        t = terms[0]
        val = ("c", ("a", S_, "value"), (("a", t, "L"),), ())
        acc = [st for st in atoms_of(loops[0][3], lambda x: x[0] == "aug" and x[1] == "Add" and x[3] == ("a", t, "c"))]
        guard = [st for st in loops[0][3] if st[0] == "if" and st[1] == mk_eq(val, k_num(1)) and len(st[2]) == 1 and st[2][0][0] == "aug" and st[3] == ()]
        init = [st for st in ce if st[0] == "set" and len(st) == 3 and st[2] == ("a", e, "c")]
        ok = len(acc) == 1 and len(guard) == 1 and len(init) == 1 and guard[0][2][0] == acc[0] and acc[0][2] == init[0][1]
    if not ok:
        ctx.report(fe.where, "evalexpr", "evalexpr is not 'expr.c + sum(t.c for terms whose literal has value 1)'", lineno=fe.node.lineno)


@rule("C07", "R10.expression-normal-form", "SHARED(C16)",
      "the inequalities that are encoded are built by the Expr arithmetic: its normal form (no zero coefficient, every stored "
      "coefficient positive after every write, terms merged by polarity) is what makes the bound of Ineq and the base cases of both "
      "diagram constructions right -- the C16 laws of Expr.__add__ / __mul__ evaluated for the encoding layer", floor=5)
def shared_expr(ctx: Ctx) -> None:
    from . import C16 as _c16
    from .common import support
    support(ctx, [_c16.r2, _c16.r3], {"Expr.__add__", "Expr.__mul__"})
    # the operands of those sums are Term / Literal objects: their own overloads (unary minus, scaling) are part of how a
    # posted inequality with negative coefficients is spelt (seeded change C07-9: Term.__neg__ dropping the constant)
    support(ctx, [_c16.r6], {"Term.__neg__", "Term.__mul__", "Term.__rmul__", "Literal.__neg__", "Literal.__mul__", "Literal.__rmul__"})


@rule("C07", "R11.integer-arithmetic", "EFFECT",
      "coefficients and bounds are arbitrary-size integers from the inequality to the clauses: the encoding code of "
      "tools/rect/pseudobool.py never takes them through floating point (no true division, no float(), no math / numpy "
      "function, no arithmetic with a float literal) -- a detour through a double is exact only up to 2**53 and rounds logarithms of numbers just "
      "below a power of two upwards", floor=20)
def r11_integers(ctx: Ctx) -> None:
    n = 0
    mi = None
    for f in ctx.model.all_functions(include_inlined=True):
        if f.module.relpath != PB:
            continue
        mi = f.module
        n += 1
        bad = []
        for x in walk_own(f.node):
            if isinstance(x, ast.BinOp) and isinstance(x.op, ast.Div):
                bad.append((x, "true division"))
            elif isinstance(x, ast.AugAssign) and isinstance(x.op, ast.Div):
                bad.append((x, "true division"))
            elif isinstance(x, ast.BinOp) and any(isinstance(o, ast.Constant) and isinstance(o.value, float) for o in (x.left, x.right)):
                bad.append((x, "arithmetic with a float literal"))          # (a comparison with 0.0 is exact: not arithmetic)
            elif isinstance(x, ast.AugAssign) and isinstance(x.value, ast.Constant) and isinstance(x.value.value, float):
                bad.append((x, "arithmetic with a float literal"))
            elif isinstance(x, ast.Call):
                nm = call_name(x)
                root = x.func
                while isinstance(root, ast.Attribute):
                    root = root.value
                if nm == "float" or (isinstance(root, ast.Name) and root.id in ("math", "cmath", "numpy", "np", "statistics") and x.func is not root):
                    bad.append((x, f"{ast.unparse(x.func)}()"))
                elif isinstance(x.func, ast.Name) and x.func.id in mi.imports and mi.imports[x.func.id].split(".")[0] in ("math", "cmath", "numpy", "statistics"):
                    bad.append((x, f"{mi.imports[x.func.id]}()"))
        ctx.site(f.where, "integer arithmetic only", floating_point_operations=len(bad))
        for x, what in bad:
            ctx.report(f.where, f"floating-point {ast.unparse(x)[:50]}", f"{f.qualname} computes with floating point ({what}): coefficients beyond 2**53, or just "
                       "below a power of two, are rounded, so the decomposition / the bound differs from the integer one and the encoding admits or "
                       "forbids the wrong assignments", lineno=getattr(x, "lineno", f.node.lineno))
    ctx.require(n >= 20, f"functions of the pseudo-Boolean module fewer than confirmed ({n})")
