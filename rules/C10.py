"""C10 -- global floorplanning: structural clauses only (what the non-linear solver returns is not decidable here)."""
from __future__ import annotations

import ast

from framelint.core import rule, Ctx
from framelint.srcmodel import walk_own, AnalysisError
from framelint.canon import (canon_function, show, S, to_poly, mk_lt, mk_not, mk_and, mk_or, k_num, contains, skey, atoms_of, Sigma, K_TRUE,
                             single_defs, deref, Poly, diff_paths)
from framelint.cfg import ENTRY, EXIT
from .common import GLB, MODULE, ALLOC, sigma_xy, call_name, norm_stmt, stmt_calls, facts_text
from framelint.canon import canon_function as _canon_function_expanded

def canon_function(fi, model=None, opts=None):   # rules of this file match shapes: look through every local
    return _canon_function_expanded(fi, model, opts, expand=True)



@rule("C10", "R1.rigid-hard-modules", "EFFECT/GUARD",
      "in the optimiser rectangle geometry is written only for hard, non-fixed modules; only centres are written, never "
      "shapes; a flip is the reflection of every rectangle centre about the module centre, alike on both axes", floor=5)
def r1(ctx: Ctx) -> None:
    f = ctx.func(GLB, "extract_solution")
    g = ctx.cfg(f)
    cn = g.canon()
    n_sites = 0
    # the module variable: loop variable over die.netlist.modules in which recenter is called
    for node, c, s in stmt_calls(ctx, f):
        if call_name(c) == "recenter_rectangles":
            n_sites += 1
            who = cn.expr(c.func.value)
            facts = g.facts_at(node.id)
            ok = ("a", who, "is_hard") in facts and mk_not(("a", who, "is_fixed")) in facts
            ctx.site(f.where, "recenter_rectangles under 'is_hard and not is_fixed'", guarded=ok)
            if not ok:
                ctx.report(f.where, "recenter-unguarded", "rectangles are re-centred for a module not known to be hard and movable", lineno=node.lineno, facts=facts_text(facts))
    for n in g.stmt_nodes():
        if n.kind != "stmt" or not isinstance(n.ast, (ast.Assign, ast.AugAssign)):
            continue
        tgts = n.ast.targets if isinstance(n.ast, ast.Assign) else [n.ast.target]
        for t in tgts:
            for x in ast.walk(t):
                if isinstance(x, ast.Attribute) and isinstance(x.ctx, ast.Store) and x.attr in ("x", "y") and isinstance(x.value, ast.Attribute) and x.value.attr == "center" \
                        and not (isinstance(x.value.value, ast.Name) and x.value.value.id in ("module",)):
                    n_sites += 1
                    facts = g.facts_at(n.id)
                    hard = [fa for fa in facts if fa[0] == "a" and fa[2] == "is_hard"]
                    ok = any(mk_not(("a", h[1], "is_fixed")) in facts for h in hard)
                    ctx.site(f.where, "rectangle centre written only for hard, movable modules", stmt=norm_stmt(n.ast)[:90], guarded=ok)
                    if not ok:
                        ctx.report(f.where, f"rect-centre-unguarded {norm_stmt(n.ast)[:90]}", "a rectangle centre is written outside the 'hard and not fixed' branch: "
                                   "fixed modules must keep their rectangles", lineno=n.lineno)
    ctx.require(n_sites >= 3, "extract_solution: rectangle writes not found")
    # rigidity: the only writes to rectangle centres are the two reflections; translation goes through recenter_rectangles
    cfun = canon_function(f, ctx.model)
    stores = atoms_of(cfun, lambda x: x[0] in ("set", "aug") and ((x[0] == "set" and len(x) == 3 and x[1][0] == "a" and x[1][2] in ("x", "y", "center") and contains(x[1], "rectangles") is False
                                                                 and x[1][1][0] == "a" and x[1][1][2] == "center" and x[1][1][1][0] == "v") or
                                                                (x[0] == "aug" and len(x) == 4 and x[2][0] == "a" and x[2][2] in ("x", "y") and x[2][1][0] == "a" and x[2][1][2] == "center")))
    rect_stores = [st for st in stores if not (st[0] == "set" and st[2][0] == "poly" and to_poly(st[2]).t.get(((st[1], 1),)) == -1 and len(to_poly(st[2]).t) == 2)]
    ctx.site(f.where, "the only direct writes to rectangle centres are the two reflections (c = 2*centre - c)", direct_writes=len(stores), non_reflections=len(rect_stores))
    for st in rect_stores:
        ctx.report(f.where, f"non-rigid-write {show(st)[:120]}", "a rectangle centre of a hard module is written other than by the module-wide translation (recenter_rectangles) or the "
                   "reflection about the module centre: rectangles of one module can move by different amounts, i.e. the module is reshaped", lineno=f.node.lineno)
    # the module centre is read back from the model's own (x, y) pair of that module
    from .common import sigma_xy
    cwr = [st for st in atoms_of(cfun, lambda x: x[0] == "set" and len(x) == 3 and x[1][0] == "a" and x[1][2] == "center" and x[1][1][0] == "v")
           if st[2][0] == "c" and st[2][1] == ("g", "Point") and len(st[2][2]) == 2]
    ctx.site(f.where, "module centre = Point(value of the module's x variable, value of its y variable)", writes=len(cwr))
    for st in cwr:
        a, b = st[2][2]
        if sigma_xy().apply(a) != b or not contains(a, "x") or a == b:
            ctx.report(f.where, f"centre-readback {show(st[2])[:120]}", "the centre of a module is not read back as (its x variable, its y variable): the reported centre "
                       "can lie outside the die although both variables are bounded by it", lineno=f.node.lineno)
    if not cwr:
        raise AnalysisError("extract_solution: the statement that reads the module centre back from the model was not found")
    # no shape writes in the whole optimiser
    n_shape = 0
    for fn in ctx.model.all_functions():
        if fn.module.relpath != GLB:
            continue
        for x in walk_own(fn.node):
            if isinstance(x, ast.Attribute) and isinstance(x.ctx, ast.Store) and x.attr in ("shape", "w", "h", "_shape"):
                n_shape += 1
                ctx.report(fn.where, f"shape-write {ast.unparse(x)}", "the optimiser writes the shape of a rectangle: hard modules would be reshaped", lineno=x.lineno)
    ctx.site(GLB, "no store to a shape / width / height in the optimiser", stores=n_shape)
    # flip = reflection about the module centre, x and y alike
    c = canon_function(f, ctx.model)
    flips = atoms_of(c, lambda x: x[0] == "for" and len(x) == 5 and len(x[3]) == 1 and x[3][0][0] == "set" and x[3][0][1][0] == "a" and x[3][0][1][2] in ("x", "y")
                     and contains(x[2], "rectangles"))
    ctx.site(f.where, "flip reflects every rectangle centre about the module centre", flips=len(flips))
    ctx.require(len(flips) == 2, "extract_solution: the two flip loops were not found")
    for lp in flips:
        r = lp[1]
        st = lp[3][0]
        axis = st[1][2]
        mod = lp[2][1]
        want = (to_poly(("a", ("a", mod, "center"), axis)).scale(2) - to_poly(("a", ("a", r, "center"), axis))).to_s()
        if not (st[1] == ("a", ("a", r, "center"), axis) and st[2] == want and lp[2] == ("a", mod, "rectangles")):
            ctx.report(f.where, f"flip-{axis} {show(st)[:120]}", f"the {axis}-flip is not 'c = 2 * module centre - c' for every rectangle of the module", lineno=f.node.lineno)
    conds = atoms_of(c, lambda x: x[0] == "if" and x[1][0] == "c" and x[1][1] == ("g", "all") and any(fl in x[2] for fl in flips))
    ctx.site(f.where, "x-flip block and y-flip block are mirror images")
    if len(conds) == 2:
        sg = sigma_xy()
        a, b = sorted(conds, key=lambda x: 0 if contains(x[2], "x") and not contains(x[2], "y") else 1)
        if sg.apply(a) != b:
            d = diff_paths(sg.apply(a), b)
            ctx.report(f.where, f"flip-mirror {d[0][:160] if d else ''}", "the x-flip and y-flip blocks are not mirror images", lineno=f.node.lineno, differences=d)
    else:
        ctx.report(f.where, "flip-conditions", "the flip decisions (all rectangles on the opposite side) were not found for both axes", lineno=f.node.lineno)


def _gvar(call: S):
    return call[0] == "c" and call[1][0] == "a" and call[1][2] == "Var"


@rule("C10", "R2.declared-feasibility", "OBLIGATION",
      "the optimisation model declares: every allocation variable in [0, 1]; for every cell the sum over all modules <= 1; "
      "every centre variable inside the die's bounding box (x and y alike); fixed modules as constants", floor=5)
def r2(ctx: Ctx) -> None:
    f = ctx.func(GLB, "optimize_allocation")
    c = canon_function(f, ctx.model)
    defs = single_defs(c)
    cd = deref(c, defs)
    sets = atoms_of(cd, lambda x: x[0] == "set" and len(x) == 3 and _gvar(x[2]))
    a_vars = [st for st in sets if st[1][0] == "s" and st[1][1][0] == "s" and st[1][1][1][0] == "a" and st[1][1][1][2] == "a"]
    ctx.require(len(a_vars) >= 2, "optimize_allocation: allocation variables not found")
    for st in a_vars:
        kw = dict(st[2][3])
        ok = kw.get("lb") == k_num(0) and kw.get("ub") == k_num(1)
        ctx.site(f.where, "allocation variable declared in [0, 1]", var=show(st[1])[:60], ok=ok)
        if not ok:
            ctx.report(f.where, f"ratio-bounds {show(st[1])[:60]} lb={show(kw.get('lb')) if kw.get('lb') else None} ub={show(kw.get('ub')) if kw.get('ub') else None}",
                       "an occupancy-ratio variable is not declared with lb=0 and ub=1", lineno=f.node.lineno)
    xy = [st for st in sets if st[1][0] == "s" and st[1][1][0] == "a" and st[1][1][2] in ("x", "y")]
    ctx.require(len(xy) >= 4, "optimize_allocation: centre variables not found")
    die_bb = ("a", ("a", ("p", 0), "bounding_box"), "bounding_box")
    for st in xy:
        axis = st[1][1][2]
        kw = dict(st[2][3])
        ok = kw.get("lb") == ("a", ("a", die_bb, "ll"), axis) and kw.get("ub") == ("a", ("a", die_bb, "ur"), axis)
        ctx.site(f.where, f"centre variable {axis} bounded by the die", ok=ok)
        if not ok:
            ctx.report(f.where, f"centre-bounds {axis} lb={show(kw.get('lb')) if kw.get('lb') else None} ub={show(kw.get('ub')) if kw.get('ub') else None}",
                       f"a centre variable ({axis}) is not bounded by the die's bounding box (low -> lb, high -> ub)", lineno=f.node.lineno)
    # capacity
    loops = atoms_of(cd, lambda x: x[0] == "for" and len(x) == 5 and x[2][0] == "c" and x[2][1] == ("g", "range") and contains(x[3], "Equation"))
    ctx.site(f.where, "capacity: for every cell, sum over all modules of a[m][c] <= 1")
    ok = False
    n_cells = None
    for lp in loops:
        cvar = lp[1]
        for st in lp[3]:
            if st[0] == "expr" and st[1][0] == "c" and st[1][1][0] == "a" and st[1][1][2] == "Equation" and len(st[1][2]) == 1:
                e = st[1][2][0]
                # sum(...) <= 1  ==  not (1 < sum)
                if e[0] == "not" and e[1][0] == "lt0":
                    p = to_poly(e[1][1])
                    sums = [a for a in p.atoms() if a[0] == "c" and a[1][0] == "a" and a[1][2] == "sum"]
                    if len(sums) == 1 and p.t.get(((sums[0], 1),)) == -1 and p.const_value() == 1 and len(p.t) == 2:
                        comp = sums[0][2][0]
                        if comp[0] == "comp" and len(comp[3]) == 1:
                            b, it, cond = comp[3][0]
                            amod = [a for a in atoms_of(it, lambda x: x[0] == "a" and x[2] == "a")]
                            if comp[2][0][0] == "s" and comp[2][0][2] == cvar and comp[2][0][1][0] == "s" and comp[2][0][1][2] == b and cond == K_TRUE and amod \
                                    and (it == ("c", ("a", amod[0], "keys"), (), ()) or it == amod[0]) and lp[2] == ("c", ("g", "range"), (lp[2][2][0],), ()) \
                                    and st in lp[3] and not any(x[0] in ("if", "continue", "break") for x in lp[3][:list(lp[3]).index(st)]) \
                                    and contains(lp[2], "num_rectangles"):
                                ok = True     # posted unconditionally, for every cell of the allocation
                                n_cells = lp[2][2][0]
    if not ok:
        ctx.report(f.where, "capacity-equation", "no equation 'sum over all modules of a[m][c] <= 1' is posted for every cell", lineno=f.node.lineno)
    # fixed modules are constants
    ctx.site(f.where, "fixed modules: centre and ratios are constants (not variables)")
    fixed_x = [st for st in atoms_of(cd, lambda x: x[0] == "if" and x[1][0] == "a" and x[1][2] == "is_fixed")]
    ok = any(any(s_[0] == "set" and s_[1][0] == "s" and contains(s_[1], "x") and s_[2][0] == "a" and s_[2][2] == "x" for s_ in st[2]) for st in fixed_x)
    def _isfx(d):
        return d[0] == "a" and d[2] == "is_fixed"
    # (arm taken when the module is fixed, other arm): the conditional is stored with its positive test
    ratio_if = [(st[2], st[3]) for st in atoms_of(cd, lambda x: x[0] == "if" and (_isfx(x[1]) or (x[1][0] == "or" and any(_isfx(d) for d in x[1][1]))))]
    ratio_if += [(st[3], st[2]) for st in atoms_of(cd, lambda x: x[0] == "if" and x[1][0] == "and" and any(d[0] == "not" and _isfx(d[1]) for d in x[1][1]))]
    ok = ok and any(any(s_[0] == "set" and not _gvar(s_[2]) for s_ in fx) and any(s_[0] == "set" and _gvar(s_[2]) for s_ in mv) for fx, mv in ratio_if)
    if not ok:
        ctx.report(f.where, "fixed-constants", "fixed modules are not modelled with constant centre and constant ratios", lineno=f.node.lineno)
    # area: every module gets sum(cell area * ratio) >= area
    ctx.site(f.where, "area: sum over all cells of area * ratio >= module area, for every module")
    eqs = atoms_of(cd, lambda x: x[0] == "c" and x[1][0] == "a" and x[1][2] == "Equation" and len(x[2]) == 1 and x[2][0][0] == "not" and contains(x[2][0], "area"))
    ok = False
    for e in eqs:
        p = to_poly(e[2][0][1][1])
        sums = [a for a in p.atoms() if a[0] == "c" and a[1][0] == "a" and a[1][2] == "sum"]
        areas = [a for a in p.atoms() if a[0] == "c" and a[1][0] == "a" and a[1][2] == "area"]
        if len(sums) == 1 and len(areas) == 1 and p.t.get(((sums[0], 1),)) == 1 and p.t.get(((areas[0], 1),)) == -1:
            comp = sums[0][2][0]
            if comp[0] == "comp" and contains(comp[2][0], "area") and comp[3][0][2] == K_TRUE and comp[3][0][1][0] == "c" and comp[3][0][1][1] == ("g", "range"):
                ok = True
    if not ok:
        ctx.report(f.where, "area-equation", "no equation 'sum(cell area * a[m][c]) >= module.area()' over all cells", lineno=f.node.lineno)


@rule("C10", "R3.cells-unchanged", "DATAFLOW",
      "the returned allocation is built on the very cells of the input allocation (no geometry is written to them), keeps a "
      "ratio only above 1 - threshold; the outer loop refines only when must_be_refined says so", floor=3)
def r3(ctx: Ctx) -> None:
    f = ctx.func(GLB, "optimize_allocation")
    c = canon_function(f, ctx.model)
    cd = deref(c, single_defs(c))
    b = ("b", 1, 0)
    cells = ("comp", "list", (("a", b, "rect"),), ((b, ("a", ("p", 1), "allocations"), K_TRUE),))
    calls = sorted(set(atoms_of(cd, lambda x: x[0] == "c" and x[1] == ("g", "solve_and_extract_solution"))), key=skey)
    ctx.site(f.where, "cells handed to the extraction are the rectangles of the input allocation, in order")
    if not (len(calls) == 1 and len(calls[0][2]) >= 3 and calls[0][2][2] == cells):
        ctx.report(f.where, "cells-source", "the cells given to the solution extraction are not [a.rect for a in allocation.allocations]", lineno=f.node.lineno)
    e = ctx.func(GLB, "extract_solution")
    ce = canon_function(e, ctx.model)
    loops = [lp for lp in ce if lp[0] == "for" and lp[2] == ("c", ("g", "enumerate"), (("p", 2),), ())]
    ctx.site(e.where, "allocation rebuilt on the given cells with depth 0; ratio kept iff > 1 - threshold")
    ok = False
    if len(loops) == 1 and loops[0][1][0] == "tuple":
        ci, cell = loops[0][1][1]
        apps = atoms_of(loops[0][3], lambda x: x[0] == "c" and x[1][0] == "a" and x[1][2] == "append" and x[2] and x[2][0][0] == "tuple")
        keeps = atoms_of(loops[0][3], lambda x: x[0] == "if" and x[1][0] == "lt0" and contains(x[1], ("p", 3)))
        if len(apps) == 1 and apps[0][2][0][1][0] == cell and apps[0][2][0][1][2] == k_num(0) and len(keeps) == 1:
            p = to_poly(keeps[0][1][1])
            vals = [a for a in p.atoms() if a[0] == "c" and a[1] == ("g", "get_value")]
            ok = len(vals) == 1 and p.t.get(((vals[0], 1),)) == -1 and p.t.get(((("p", 3), 1),)) == -1 and p.const_value() == 1 and \
                any(st[0] == "set" and st[2] == vals[0] for st in keeps[0][2])
    if not ok:
        ctx.report(e.where, "allocation-rebuild", "extract_solution does not rebuild the allocation as (cell, {m: ratio if ratio > 1 - threshold}, 0) on the given cells",
                   lineno=e.node.lineno)
    eff = ctx.effects()
    fields = eff.fields.get(e, {})
    ctx.site(e.where, "extract_solution does not write the cells", written={k: sorted(v) for k, v in fields.items()})
    for fl in sorted(fields.get("cells", set())):
        ctx.report(e.where, f"cells-written {fl}", "extract_solution modifies the cells of the allocation", lineno=e.node.lineno)
    gf = ctx.func(GLB, "glbfloor")
    g = ctx.cfg(gf)
    cn = g.canon()
    ctx.site(gf.where, "refine() is called only after must_be_refined() said so, with the same threshold")
    for node, call, s in stmt_calls(ctx, gf):
        if call_name(call) == "refine":
            facts = g.facts_at(node.id)
            recv = cn.expr(call.func.value)
            ok = ("c", ("a", recv, "must_be_refined"), (s[2][0],), ()) in facts if s is not None and s[2] else False
            if not ok:
                ctx.report(gf.where, "refine-unguarded", "the allocation is refined without must_be_refined(threshold) being true", lineno=node.lineno, facts=facts_text(facts))



@rule("C10", "R4.geometry-primitives", "SHARED(C18)",
      'the initial grid the optimiser starts from tiles the die: Rectangle.rectangle_grid / duplicate satisfy the C18 tiling laws -- evaluated for the helper behind Die.initial_grid', floor=6)
def shared_geometry(ctx: Ctx) -> None:
    from . import C18 as _c18
    from .common import support
    support(ctx, [_c18.r5, _c18.r6], {"Rectangle.rectangle_grid", "Rectangle.duplicate"})


@rule("C10", "R6.rigid-recentring", "SHARED(C14)",
      "a movable hard module is moved rigidly: recenter_rectangles adds one (dx, dy) -- the new centre minus the area-weighted "
      "centroid -- to every rectangle and does nothing else to them (no per-rectangle clamp); the C14 rule evaluated for the "
      "re-centring this stage calls", floor=2)
def shared_recentre(ctx: Ctx) -> None:
    from . import C14 as _c14
    from .common import support
    support(ctx, [_c14.r4], {"Module.recenter_rectangles", "Module.calculate_center_from_rectangles"})


@rule("C10", "R7.optimised-before-returned", "MUST-PASS",
      "what glbfloor returns has been through the optimisation: every way from the entry of glbfloor to its return (with at least one "
      "iteration allowed) calls optimize_allocation, and the loop leaves early only after an iteration has been made (the "
      "'nothing left to refine' test is not applied to the raw initial allocation)", floor=1)
def r7_optimised(ctx: Ctx) -> None:
    f = ctx.func(GLB, "glbfloor")
    g = ctx.cfg(f)
    cn = g.canon()
    loops = [n for n in walk_own(f.node) if isinstance(n, ast.While)]
    ctx.require(len(loops) >= 1, "glbfloor: iteration loop not found")
    # the iteration counter: a local initialised to 1 before the loop and advanced in the loop after the optimisation call
    counters = []
    names = {x.target.id for x in ast.walk(loops[0]) if isinstance(x, ast.AugAssign) and isinstance(x.target, ast.Name) and isinstance(x.op, ast.Add)
             and isinstance(x.value, ast.Constant) and x.value.value == 1}
    for nm in sorted(names):
        incs = [x for x in ast.walk(loops[0]) if isinstance(x, ast.AugAssign) and isinstance(x.target, ast.Name) and x.target.id == nm]
        # its value when the loop is entered: the constant it is set to plus the constant steps made before the loop
        val = None
        for st in f.node.body:
            if st is loops[0]:
                break
            if isinstance(st, ast.Assign) and len(st.targets) == 1 and isinstance(st.targets[0], ast.Name) and st.targets[0].id == nm:
                val = st.value.value if isinstance(st.value, ast.Constant) and isinstance(st.value.value, int) else None
            elif isinstance(st, ast.Assign) and len(st.targets) == 1 and isinstance(st.targets[0], ast.Tuple) and isinstance(st.value, ast.Tuple) \
                    and len(st.targets[0].elts) == len(st.value.elts):
                for t_, v_ in zip(st.targets[0].elts, st.value.elts):          # a, n = x, 0
                    if isinstance(t_, ast.Name) and t_.id == nm:
                        val = v_.value if isinstance(v_, ast.Constant) and isinstance(v_.value, int) else None
            elif isinstance(st, ast.AnnAssign) and isinstance(st.target, ast.Name) and st.target.id == nm and st.value is not None:
                val = st.value.value if isinstance(st.value, ast.Constant) and isinstance(st.value.value, int) else None
            elif isinstance(st, ast.AugAssign) and isinstance(st.target, ast.Name) and st.target.id == nm:
                val = val + st.value.value if val is not None and isinstance(st.op, ast.Add) and isinstance(st.value, ast.Constant) and isinstance(st.value.value, int) else None
        if len(incs) == 1 and val is not None:
            counters.append((nm, incs[0], val))
    ctx.require(len(counters) >= 1, "glbfloor: the iteration counter (set to a constant before the loop, advanced by one in it) was not found")
    nm, inc, first = counters[0]
    cnt = cn.expr(ast.Name(id=nm, ctx=ast.Load()))

    def is_opt(n):
        return n.ast is not None and n.kind == "stmt" and any(isinstance(c_, ast.Call) and call_name(c_) == "optimize_allocation" for c_ in ast.walk(n.ast))
    opt_nodes = [n for n in g.stmt_nodes() if is_opt(n)]
    ctx.require(len(opt_nodes) >= 1, "glbfloor: optimize_allocation call not found")
    # the counter is advanced only after the optimisation of that iteration
    inc_node = g.node_for(inc)
    counted_after = g.must_pass(is_opt, g.node_for(loops[0]), inc_node)
    n_br = 0
    ok = counted_after
    for n in g.stmt_nodes():
        if isinstance(n.ast, ast.Break) and any(x is n.ast for x in ast.walk(loops[0])):
            n_br += 1
            facts = g.facts_at(n.id)
            later = any(fa in facts for fa in (mk_lt(k_num(first), cnt), mk_not(mk_lt(cnt, k_num(first + 1)))))
            if not later:
                ok = False
                ctx.report(f.where, f"break-before-optimisation {norm_stmt(n.ast)}", "glbfloor can leave its loop in the first iteration, before any optimisation was made: "
                           "the raw geometric allocation (cells occupied beyond 100%) is then returned as the result", lineno=n.lineno, facts=facts_text(facts))
    if not counted_after:
        ctx.report(f.where, "counter-before-optimisation", "the iteration counter is advanced on a path that did not optimise", lineno=inc.lineno)
    ctx.site(f.where, "an early exit of the loop is taken only from the second iteration on (counter > 1), the counter counts optimisations", breaks=n_br, ok=ok)


@rule("C10", "R8.fixed-cells-never-refined", "SHARED(C02)",
      "the refinement steps glbfloor alternates with the optimisation never cut the cell of a fixed module (for every threshold, "
      "1.0 included): every split reachable from refine / must_be_refined's test is guarded by the not-fixed test of the cell's "
      "rectangle -- the C02 rule, for the functions glbfloor calls", floor=1)
def shared_fixed_not_cut(ctx: Ctx) -> None:
    from . import C02 as _c02
    from .common import support
    support(ctx, [_c02.r3], {"Allocation.refine", "Allocation.must_be_refined", "Allocation.griddify"})


@rule("C10", "R9.solver-failure-not-silenced", "PAIRING",
      "a solve of the global model either lets GEKKO raise on failure (no debug=0) or, where the failure is silenced (debug=0, "
      "the iteration-by-iteration visualising loop), the application status is read afterwards in the same block before "
      "anything else is decided: an allocation extracted from a failed solve is the last iterate, which is not feasible "
      "(over-full cells, shared fixed cells) -- seeded change C10-9", floor=2)
def r9_solver_failure(ctx: Ctx) -> None:
    n = 0
    for f in ctx.model.all_functions(include_inlined=True):
        if f.module.relpath != GLB:
            continue
        for node in ast.walk(f.node):
            for field in ("body", "orelse", "finalbody"):
                stmts = getattr(node, field, None)
                if not isinstance(stmts, list):
                    continue
                for i, st in enumerate(stmts):
                    if isinstance(st, (ast.If, ast.For, ast.While, ast.With, ast.Try, ast.FunctionDef, ast.ClassDef)):
                        continue        # the call is looked at in the innermost statement list that holds it
                    for c in ast.walk(st):
                        if not (isinstance(c, ast.Call) and isinstance(c.func, ast.Attribute) and c.func.attr == "solve"
                                and "gekko" in ast.unparse(c.func.value)):
                            continue
                        n += 1
                        dbg = next((k.value for k in c.keywords if k.arg == "debug"), None)
                        silenced = dbg is not None and not (isinstance(dbg, ast.Constant) and dbg.value not in (0, False, None))
                        ctx.site(f.where, "solve of the global model", call=ast.unparse(c)[:60], failure_silenced=bool(silenced))
                        if not silenced:
                            continue
                        later = stmts[i + 1:]
                        if not any(isinstance(x, ast.Attribute) and x.attr == "APPSTATUS" for s_ in later for x in ast.walk(s_)):
                            ctx.report(f.where, f"silenced-solve {norm_stmt(st)[:50]}", f"{f.qualname}: '{ast.unparse(c)[:60]}' silences a failed solve "
                                       "(debug=0) and the status is not read afterwards: the last iterate is returned as the allocation", lineno=c.lineno)
    ctx.require(n >= 2, f"solve calls of the global model fewer than confirmed ({n})")
