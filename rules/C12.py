"""C12 -- refinement decisions are consistent, exact and terminate."""
from __future__ import annotations

import ast

from framelint.core import rule, Ctx
from framelint.srcmodel import walk_own, AnalysisError
from framelint.canon import (Canon, CanonOptions, canon_function, show, S, to_poly, mk_lt, mk_and, mk_not, mk_eq, k_num,
                             contains, skey, atoms_of, Sigma, Poly)
from framelint.peval import paths
from framelint.cfg import EXIT, ENTRY
from .common import GEOM, ALLOC, stmt_calls, exit_facts, facts_text, call_name, norm_stmt
from .C02 import splitter_role, griddify_index_check, griddify_loops, SPLITS

CELL = ("k", "cell")
from framelint.canon import canon_function as _canon_function_expanded

def canon_function(fi, model=None, opts=None):   # rules of this file match shapes: look through every local
    return _canon_function_expanded(fi, model, opts, expand=True)



@rule("C12", "R1.decision-predicate", "PRED-EQ",
      "the per-cell predicate of must_be_refined is exactly the predicate under which refine splits a cell "
      "(otherwise the refine-while-needed loop does not terminate, or misses cells)", floor=1)
def r1(ctx: Ctx) -> None:
    sp = splitter_role(ctx)
    fr = ctx.func(ALLOC, "Allocation.refine")
    fm = ctx.func(ALLOC, "Allocation.must_be_refined")
    cr = canon_function(fr, ctx.model)
    cm = canon_function(fm, ctx.model)
    # refine: loop over self.allocations; split condition = condition under which levels != 0
    loops = [st for st in cr if st[0] == "for" and st[2] == ("a", ("self",), "allocations")]
    ctx.require(len(loops) == 1, "refine: loop over the cells not found")
    v = loops[0][1]
    calls = [a for a in atoms_of(loops[0][3], lambda x: x[0] == "c" and contains(x[1], sp.name)) if len(a[2]) == 4]
    ctx.require(len(calls) == 1, "refine: splitter call not found")
    levels = calls[0][2][3]
    cond_r = None
    if levels[0] == "ite" and levels[3] == k_num(0):
        cond_r = levels[1]
    elif levels[0] == "ite" and levels[2] == k_num(0):
        cond_r = mk_not(levels[1])
    ctx.require(cond_r is not None, f"refine: levels argument is not '<levels> if <split condition> else 0': {show(levels)}")
    cond_r = Sigma(raw_subst={v: CELL}).apply(cond_r)
    # must_be_refined: any(PRED(a) for a in self.allocations)
    ctx.require(len(cm) == 1 and cm[0][0] == "ret", "must_be_refined is not a single return")
    e = cm[0][1]
    ok_shape = e[0] == "c" and e[1] == ("g", "any") and e[2][0][0] == "comp" and e[2][0][3][0][1] == ("a", ("self",), "allocations") \
        and e[2][0][3][0][2] == ("k", "bool", True) and len(e[2][0][3]) == 1
    ctx.site(fm.where, "must_be_refined == any(P(cell)) over all cells; refine splits a cell iff P(cell)")
    if not ok_shape:
        ctx.report(fm.where, "decision-shape " + show(e)[:160], "must_be_refined is not 'any(<predicate>(cell) for every cell)'", lineno=fm.node.lineno)
        return
    b = e[2][0][3][0][0]
    pred_m = Sigma(raw_subst={b: CELL}).apply(e[2][0][2][0])
    # bound variables of inner comprehensions are numbered by nesting depth: normalise
    pred_m = _renumber_bound(pred_m)
    cond_r = _renumber_bound(cond_r)
    if pred_m != cond_r:
        cm_ = set(pred_m[1]) if pred_m[0] == "and" else {pred_m}
        cr_ = set(cond_r[1]) if cond_r[0] == "and" else {cond_r}
        only_r = sorted(show(x) for x in cr_ - cm_)
        only_m = sorted(show(x) for x in cm_ - cr_)
        ctx.report(fm.where, f"decision-mismatch refine-only[{'; '.join(only_r)}] must-only[{'; '.join(only_m)}]",
                   "must_be_refined and refine disagree on which cells are split: a cell satisfying one predicate and not the other makes the "
                   "refine-while-needed loop spin forever or stop early", lineno=fm.node.lineno,
                   refine=show(cond_r), must_be_refined=show(pred_m))
    # the predicate itself: non-empty map and no ratio above the threshold
    ctx.site(fr.where, "split predicate: occupancy map non-empty and all ratios <= threshold", predicate=show(cond_r))
    conj = set(cond_r[1]) if cond_r[0] == "and" else {cond_r}
    alloc = ("a", CELL, "alloc")
    nonempty = mk_lt(k_num(0), ("c", ("g", "len"), (alloc,), ())) in conj or alloc in conj
    allq = [x for x in conj if x[0] == "c" and x[1] == ("g", "all")]
    good_all = False
    if len(allq) == 1 and allq[0][2][0][0] == "comp":
        comp = allq[0][2][0]
        bv = comp[3][0][0]
        good_all = comp[3][0][1] == ("c", ("a", alloc, "values"), (), ()) and comp[3][0][2] == ("k", "bool", True) and \
            comp[2][0] == mk_not(mk_lt(("p", 0), bv))
    if not nonempty or not good_all:
        ctx.report(fr.where, f"split-predicate {show(cond_r)[:200]}", "refine's split predicate is not 'map non-empty and every ratio <= threshold'",
                   lineno=fr.node.lineno)


def _renumber_bound(s: S) -> S:
    mapping: dict = {}

    def rec(x):
        if isinstance(x, tuple):
            if len(x) == 3 and x[0] == "b":
                if x not in mapping:
                    mapping[x] = ("b", 0, len(mapping))
                return
            for y in x:
                rec(y)
    rec(s)
    return Sigma(raw_subst=mapping).apply(s)


@rule("C12", "R2.depth-bookkeeping", "LAW",
      "depth and level arithmetic: the recursive splitter descends with depth+1 / levels-1 and returns depth at "
      "levels == 0; griddify pieces get depth+1; uniform refinement asks for (max depth - depth) levels", floor=4)
def r2(ctx: Ctx) -> None:
    sp = splitter_role(ctx)
    c = canon_function(sp, ctx.model)
    depth, levels = ("p", 2), ("p", 3)
    ps = paths(c)
    selfcall = [a for a in atoms_of(c, lambda x: x[0] == "c" and contains(x[1], sp.name)) if len(a[2]) == 4]
    ctx.site(sp.where, "recursive calls pass depth+1 and levels-1", calls=len(selfcall))
    d1 = (to_poly(depth) + Poly.const(1)).to_s()
    l1 = (to_poly(levels) - Poly.const(1)).to_s()
    if len(selfcall) != 2 or not all(a[2][2] == d1 and a[2][3] == l1 for a in selfcall):
        ctx.report(sp.where, "depth-step " + " | ".join(f"{show(a[2][2])},{show(a[2][3])}" for a in selfcall),
                   "the recursive splitter does not descend with (depth + 1, levels - 1) on both halves", lineno=sp.node.lineno)
    base = [(l, o) for l, o in ps if not contains(o, sp.name)]
    ctx.site(sp.where, "base case: exactly levels == 0, returns the given depth")
    ok = len(base) == 1 and base[0][0] == (mk_eq(levels, k_num(0)),) and base[0][1][0] == "list" and \
        base[0][1][1][0][0] == "tuple" and base[0][1][1][0][1][2] == depth
    if not ok:
        ctx.report(sp.where, "depth-base", "the splitter's base case is not 'levels == 0 -> [(rect, map, depth)]'", lineno=sp.node.lineno)
    fg = ctx.func(ALLOC, "Allocation.griddify")
    cg = canon_function(fg, ctx.model)
    ras = sorted(set(atoms_of(cg, lambda x: x[0] == "c" and x[1] == ("g", "RectAlloc") and len(x[2]) == 3)), key=skey)
    ctx.require(len(ras) >= 1, "griddify: RectAlloc construction not found")
    for ra in ras:
        dep = ra[2][2]
        pd = [a for a in to_poly(dep).atoms() if a[0] == "a" and a[2] == "depth"]
        ctx.site(fg.where, "griddify piece depth == parent depth + 1", depth=show(dep))
        if len(pd) != 1 or dep != (to_poly(pd[0]) + Poly.const(1)).to_s():
            ctx.report(fg.where, f"griddify-depth {show(dep)}", "a griddify piece does not get depth = parent depth + 1", lineno=fg.node.lineno)
    fu = ctx.func(ALLOC, "Allocation.uniform_refinement_depth")
    cu = canon_function(fu, ctx.model)
    calls = [a for a in atoms_of(cu, lambda x: x[0] == "c" and contains(x[1], sp.name)) if len(a[2]) == 4]
    ctx.site(fu.where, "uniform refinement asks for max depth - depth levels")
    ok = False
    if len(calls) == 1:
        lv = to_poly(calls[0][2][3])
        if lv.t and lv.atoms():
            # levels may be wrapped in a not-fixed conditional
            pass
        target = calls[0][2][3]
        if target[0] == "ite":
            target = target[2] if target[3] == k_num(0) else target[3]
        p = to_poly(target)
        mx = [a for a in p.atoms() if a[0] == "c" and a[1] == ("g", "max")]
        dp = [a for a in p.atoms() if a[0] == "a" and a[2] == "depth"]
        if len(mx) == 1 and len(dp) == 1 and p.t == (to_poly(mx[0]) - to_poly(dp[0])).t and contains(mx[0], "depth") \
                and contains(mx[0], ("a", ("self",), "allocations")) and calls[0][2][2] == dp[0]:
            ok = True
    if not ok:
        ctx.report(fu.where, "uniform-levels", "uniform_refinement_depth does not ask for (maximum depth - cell depth) levels", lineno=fu.node.lineno)


@rule("C12", "R3.termination-rank", "RANK",
      "the recursion on levels is strictly decreasing towards the base case levels == 0 and is only entered with "
      "levels >= 0: refine asserts levels > 0, the level count of uniform refinement is a difference to the maximum", floor=2)
def r3(ctx: Ctx) -> None:
    sp = splitter_role(ctx)
    fr = ctx.func(ALLOC, "Allocation.refine")
    facts = exit_facts(ctx, fr)
    ctx.site(fr.where, "refine asserts levels > 0", facts=facts_text(facts))
    if mk_lt(k_num(0), ("p", 1)) not in facts and mk_not(mk_lt(("p", 1), k_num(1))) not in facts:
        ctx.report(fr.where, "levels-positive", "refine does not refuse levels <= 0 (a negative count never reaches the base case levels == 0)",
                   lineno=fr.node.lineno)
    c = canon_function(sp, ctx.model)
    levels = ("p", 3)
    selfcall = [a for a in atoms_of(c, lambda x: x[0] == "c" and contains(x[1], sp.name)) if len(a[2]) == 4]
    ctx.site(sp.where, "every recursive call strictly decreases levels by one towards 0")
    bad = [a for a in selfcall if to_poly(a[2][3]).t != (to_poly(levels) - Poly.const(1)).t]
    if bad or not selfcall:
        ctx.report(sp.where, "rank-levels", "a recursive call of the splitter does not decrease levels by exactly one", lineno=sp.node.lineno)


@rule("C12", "R5.grid-cuts", "LOOP-COVER/GUARD",
      "each cut loop of griddify visits all interior boundaries of its own list (range(1, len-1)), indexes only that "
      "list, and cuts only cells that are not fixed and cuttable on that axis with the 1% sliver ratio", floor=4)
def r5(ctx: Ctx) -> None:
    fg = ctx.func(ALLOC, "Allocation.griddify")
    ty, xs, ys, c = griddify_index_check(ctx, fg)
    b0 = ("b", 1, 0)
    all_rects = ("comp", "list", (("a", b0, "rect"),), ((b0, ("a", ("self",), "allocations"), ("k", "bool", True)),))
    ctx.site(fg.where, "boundaries gathered from the rectangles of all cells (fixed ones included)", argument=show(xs[1][2][0])[:120] if xs[1][2] else "")
    if xs[1] != ("c", ("g", "gather_boundaries"), (all_rects,), ()) or ys[1] != xs[1]:
        ctx.report(fg.where, f"cut-sources {show(xs[1])[:160]}", "the cut coordinates are not gathered from the rectangles of ALL cells: boundary lines that belong only to the "
                   "left-out cells (e.g. fixed ones) are never cut, so refinable cells stay crossed by them", lineno=fg.node.lineno)
    loops = [st for st in c if st[0] == "for"]
    ctx.require(len(loops) == 2, "griddify: two cut loops expected")
    for lp, cuts, pred, splitm, axis in [(loops[0], xs, "x_cuttable", "split_horizontal", "x"), (loops[1], ys, "y_cuttable", "split_vertical", "y")]:
        # all interior boundaries: the elements of cuts[1:-1] (the index spelling range(1, len(cuts) - 1) / cuts[i] has this form too)
        from framelint.canon import K_NONE
        want_iter = ("s", cuts, ("slice", k_num(1), k_num(-1), K_NONE))
        ctx.site(fg.where, f"{axis}-cut loop ranges over all interior {axis} boundaries", iter=show(lp[2])[-60:])
        if lp[2] != want_iter:
            ctx.report(fg.where, f"cut-loop-range {axis}", f"the {axis}-cut loop does not range over the interior boundaries {axis}_cuts[1:-1]: boundaries are missed "
                       "or the index runs off the list", lineno=fg.node.lineno, iter=show(lp[2])[-120:])
        cut = lp[1]
        conds = atoms_of(lp[3], lambda x: x[0] == "if")
        ctx.site(fg.where, f"{axis}-cut guard: not fixed and {pred}(cut, 1%) ; cut applied with {splitm}(cut)")
        good = False
        for cnd in conds:
            conj = set(cnd[1][1]) if cnd[1][0] == "and" else {cnd[1]}
            cells = [a[1][1][1] for a in conj if a[0] == "c" and a[1][0] == "a" and a[1][2] == pred]
            if len(cells) == 1:
                cell = cells[0]
                want = {mk_not(("a", ("a", cell, "rect"), "fixed")),
                        ("c", ("a", ("a", cell, "rect"), pred), (cut, ("k", "num", (1, 100))), ())}
                sp_ok = contains(cnd[2], ("c", ("a", ("a", cell, "rect"), splitm), (cut,), ()))
                if conj == want and sp_ok:
                    good = True
                elif conj == {mk_not(("a", ("a", cell, "rect"), "fixed")), ("c", ("a", ("a", cell, "rect"), pred), (cut,), ())} and sp_ok:
                    good = True   # default ratio is 0.01 as well
        if not good:
            ctx.report(fg.where, f"cut-guard {axis}", f"the {axis}-cut is not guarded by 'not fixed and {pred}(boundary, 0.01)' or not applied with {splitm}(boundary)",
                       lineno=fg.node.lineno)
    for m in ty.mismatches:
        ctx.site(fg.where, "cut index kind")
        ctx.report(fg.where, f"cut-index {m.use[-30:]} wants {m.want} got {m.got}",
                   "a cut loop subscripts the other axis' boundary list", lineno=fg.node.lineno)


@rule("C12", "R6.purity", "PURE",
      "must_be_refined has no effect at all; refine / griddify return a freshly constructed Allocation and never "
      "write self", floor=3)
def r6(ctx: Ctx) -> None:
    fm = ctx.func(ALLOC, "Allocation.must_be_refined")
    stores = [n for n in walk_own(fm.node) if isinstance(n, (ast.Attribute, ast.Subscript)) and isinstance(n.ctx, (ast.Store, ast.Del))]
    stores += [n for n in walk_own(fm.node) if isinstance(n, (ast.Global, ast.Nonlocal))]
    from framelint.canon import MUTATOR_METHODS
    muts = [n for n in walk_own(fm.node) if isinstance(n, ast.Call) and isinstance(n.func, ast.Attribute) and n.func.attr in MUTATOR_METHODS]
    ctx.site(fm.where, "must_be_refined: no store, no mutating call", stores=len(stores), mutating_calls=len(muts))
    for n in stores + muts:
        ctx.report(fm.where, f"decision-has-effect {ast.unparse(n)[:60]}", "must_be_refined modifies state", lineno=n.lineno)
    for q in ["Allocation.refine", "Allocation.griddify", "Allocation.uniform_refinement_depth"]:
        f = ctx.func(ALLOC, q)
        self_stores = [n for n in walk_own(f.node) if isinstance(n, ast.Attribute) and isinstance(n.ctx, (ast.Store, ast.Del))
                       and isinstance(n.value, ast.Name) and n.value.id == "self"]
        self_muts = [n for n in walk_own(f.node) if isinstance(n, ast.Call) and isinstance(n.func, ast.Attribute) and n.func.attr in MUTATOR_METHODS
                     and isinstance(n.func.value, ast.Attribute) and isinstance(n.func.value.value, ast.Name) and n.func.value.value.id == "self"]
        ctx.site(f.where, "does not write self", stores=len(self_stores), mutating_calls=len(self_muts))
        for n in self_stores + self_muts:
            ctx.report(f.where, f"refinement-writes-self {ast.unparse(n)[:60]}", f"{q} modifies the allocation it was called on", lineno=n.lineno)
        if q != "Allocation.uniform_refinement_depth":
            c = canon_function(f, ctx.model)
            rets = atoms_of(c, lambda x: x[0] == "ret")
            if not rets or not all(r[1][0] == "c" and r[1][1] == ("g", "Allocation") for r in rets):
                ctx.report(f.where, "refinement-return", f"{q} does not return a newly constructed Allocation", lineno=f.node.lineno)


@rule("C12", "R4.longer-side", "AXIS",
      "split() halves the longer side (split_vertical iff h > w) -- shared with C18.R6", floor=1)
def r4(ctx: Ctx) -> None:
    fs = ctx.func(GEOM, "Rectangle.split")
    cs = canon_function(fs, ctx.model)
    W = ("a", ("a", ("self",), "shape"), "w")
    H = ("a", ("a", ("self",), "shape"), "h")
    sv = ("c", ("a", ("self",), "split_vertical"), (), ())
    sh = ("c", ("a", ("self",), "split_horizontal"), (), ())
    ctx.site(fs.where, "split(): split_vertical (cut on y) iff h > w")
    forms = [(("ret", ("ite", mk_lt(W, H), sv, sh)),), (("if", mk_lt(W, H), (("ret", sv),), (("ret", sh),)),),
             (("ret", ("ite", mk_lt(H, W), sh, sv)),), (("if", mk_lt(H, W), (("ret", sh),), (("ret", sv),)),)]
    if cs not in forms:
        ctx.report(fs.where, "split-dispatch " + "; ".join(show(x) for x in cs), "split() does not halve the longer side", lineno=fs.node.lineno)



@rule("C12", "R7.geometry-primitives", "SHARED(C18)",
      'the cuts and the cuttable tests are exact: Rectangle.split* / x_cuttable / y_cuttable / duplicate satisfy the C18 rules (tiling laws, x/y mirror symmetry of the two cuttable tests, border refusal, sliver test against ratio * the other side) -- evaluated for the helpers refinement calls', floor=10)
def shared_geometry(ctx: Ctx) -> None:
    from . import C18 as _c18
    from .common import support
    support(ctx, [_c18.r1, _c18.r4, _c18.r5, _c18.r6], {"Rectangle.split", "Rectangle.split_horizontal", "Rectangle.split_vertical", "Rectangle.duplicate", "Rectangle.x_cuttable", "Rectangle.y_cuttable", "Rectangle.overlap", "Rectangle.area_overlap"})


@rule("C12", "R8.halving", "WHO-CALLS",
      "the cells a refined cell is replaced by are made by Rectangle.split() -- which cuts the longer side in the middle "
      "(C18 split-dispatch) -- applied level by level; no other piece maker (a grid, a fixed-direction split) is used by "
      "refine / uniform_refinement_depth", floor=1)
def r8(ctx: Ctx) -> None:
    refine = ctx.func(ALLOC, "Allocation.refine")
    helpers = [g for g in ctx.model.reachable([refine]) if g.module.relpath == ALLOC and g is not refine]
    makers = {}
    for g in [refine] + helpers:
        for c in walk_own(g.node):
            if isinstance(c, ast.Call) and call_name(c) in ("split", "split_horizontal", "split_vertical", "rectangle_grid"):
                makers.setdefault(call_name(c), []).append(g.qualname)
    ctx.site(refine.where, "piece makers used by refine and its helpers", makers={k: sorted(set(v)) for k, v in makers.items()})
    other = {k: v for k, v in makers.items() if k != "split"}
    if "split" not in makers or other:
        ctx.report(refine.where, "cells-not-by-halving " + ",".join(sorted(makers)), "refine does not produce its cells by Rectangle.split() alone: the 2^levels cells of a refined "
                   "cell are then not the result of repeatedly halving the longer side (e.g. a 12x2 cell refined twice must give four 3x2 cells)", lineno=refine.node.lineno,
                   makers={k: sorted(set(v)) for k, v in makers.items()})


@rule("C12", "R9.refine-while-needed", "GUARD",
      "the refine-while-needed loop of the global floorplanner is driven by the decision procedure itself: in glbfloor every call of "
      "refine(threshold) is dominated by must_be_refined(threshold) with the same threshold, and the loop is left early exactly "
      "when that test fails (not by comparing cell counts, which the optimiser changes in between)", floor=2)
def r9_refine_loop(ctx: Ctx) -> None:
    from .common import GLB, facts_text
    f = ctx.func(GLB, "glbfloor")
    g = ctx.cfg(f)
    cn = g.canon()
    loops = [n for n in walk_own(f.node) if isinstance(n, ast.While)]
    ctx.require(len(loops) >= 1, "glbfloor: iteration loop not found")
    n_ref = n_br = 0
    for n in g.stmt_nodes():
        if n.kind != "stmt" or n.ast is None:
            continue
        calls = [c_ for c_ in ast.walk(n.ast) if isinstance(c_, ast.Call) and call_name(c_) == "refine" and isinstance(c_.func, ast.Attribute)]
        for c_ in calls:
            n_ref += 1
            recv, args = cn.expr(c_.func.value), tuple(cn.expr(a) for a in c_.args)
            need = ("c", ("a", recv, "must_be_refined"), args[:1], ())
            facts = g.facts_at(n.id)
            ctx.site(f.where, "refine(threshold) only after must_be_refined(threshold) on the same allocation", stmt=norm_stmt(n.ast)[:80], guarded=need in facts)
            if need not in facts:
                ctx.report(f.where, f"refine-unguarded {norm_stmt(n.ast)[:70]}", "glbfloor refines without having asked must_be_refined(threshold) for the same allocation and threshold",
                           lineno=n.lineno, facts=facts_text(facts))
        if isinstance(n.ast, ast.Break) and any(x is n.ast for x in ast.walk(loops[0])):
            n_br += 1
            facts = g.facts_at(n.id)
            stop = [fa for fa in facts if fa[0] == "not" and fa[1][0] == "c" and fa[1][1][0] == "a" and fa[1][1][2] == "must_be_refined"]
            ctx.site(f.where, "the loop is left early only when must_be_refined(threshold) is false", stop_test=len(stop))
            if not stop:
                ctx.report(f.where, f"exit-not-by-decision {norm_stmt(n.ast)}", "the refine-while-needed loop is not left on 'must_be_refined(threshold) is false': it can stop while "
                           "the decision procedure still asks for refinement (or go on when it does not)", lineno=n.lineno, facts=facts_text(facts))
    ctx.require(n_ref >= 1 and n_br >= 1, "glbfloor: refine call / loop exit not found")
