"""C18 -- Rectangle operations agree with plane geometry (frame/geometry/geometry.py)."""
from __future__ import annotations

import ast

from framelint.core import rule, Ctx
from framelint.srcmodel import walk_own, AnalysisError
from framelint.canon import normalize
from framelint.canon import (Canon, CanonOptions, Sigma, canon_function, show, S, to_poly, Poly, mk_lt, mk_not, k_num,
                             contains, atoms_of, skey)
from .common import (GEOM, sigma_xy, sigma_dual, sigma_swap, check_closed, check_mirror, check_law, poly_equal,
                     call_name, is_eps_atom)

R = "Rectangle."


def wanted(ctx: Ctx, *short: str) -> bool:
    """a section of a rule is evaluated unless the rule runs on behalf of another property (common.support) that does
    not use any of the functions the section is about"""
    only = getattr(ctx, "only_functions", None)
    return only is None or any(R + q in only for q in short)
from framelint.canon import canon_function as _canon_function_expanded

def canon_function(fi, model=None, opts=None):   # rules of this file match shapes: look through every local
    return _canon_function_expanded(fi, model, opts, expand=True)



@rule("C18", "R1.axis-symmetry", "CLOSED/MIRROR",
      "x/y symmetry: bounding_box, point_inside, is_inside, touches, area_overlap, __mul__ are invariant under "
      "x<->y, w<->h; split_horizontal/split_vertical and x_cuttable/y_cuttable are mirror images", floor=8)
def r1(ctx: Ctx) -> None:
    s = sigma_xy()
    for q in ["bounding_box", "point_inside", "is_inside", "touches", "area_overlap", "__mul__"]:
        if wanted(ctx, q):
            check_closed(ctx, ctx.func(GEOM, R + q), s, "sigma_xy")
    if wanted(ctx, "split_horizontal", "split_vertical", "split"):
        check_mirror(ctx, ctx.func(GEOM, R + "split_horizontal"), ctx.func(GEOM, R + "split_vertical"), s, "sigma_xy")
    if wanted(ctx, "x_cuttable", "y_cuttable"):
        check_mirror(ctx, ctx.func(GEOM, R + "x_cuttable"), ctx.func(GEOM, R + "y_cuttable"), s, "sigma_xy")


@rule("C18", "R2.bound-duality", "CLOSED",
      "low/high duality: point_inside, is_inside, touches, area_overlap are invariant under ll<->ur, min<->max, "
      "reversal of every comparison (tolerance stays on its side)", floor=4)
def r2(ctx: Ctx) -> None:
    s = sigma_dual()
    for q in ["point_inside", "is_inside", "touches", "area_overlap"]:
        if wanted(ctx, q):
            check_closed(ctx, ctx.func(GEOM, R + q), s, "sigma_dual")


@rule("C18", "R3.operand-symmetry", "CLOSED",
      "operand symmetry: area_overlap, touches and the geometry of __mul__ are invariant under self<->other", floor=3)
def r3(ctx: Ctx) -> None:
    s = sigma_swap()
    for q in ["area_overlap", "touches"]:
        if wanted(ctx, q):
            check_closed(ctx, ctx.func(GEOM, R + q), s, "sigma_swap")
    # __mul__: attributes come from the left operand (duplicate of self) -- everything else is symmetric
    dup_self = ("c", ("a", ("self",), "duplicate"), (), ())
    dup_other = ("c", ("a", ("p", 0), "duplicate"), (), ())
    if wanted(ctx, "__mul__"):
        check_closed(ctx, ctx.func(GEOM, R + "__mul__"), s, "sigma_swap(modulo duplicate receiver)",
                     post=lambda c: Sigma(raw_subst={dup_other: dup_self}).apply(c))


def _ret_of(block: tuple) -> S:
    for st in block:
        if st[0] == "ret":
            return st[1]
    return None


def _r4_overlap(ctx: Ctx) -> None:
    m = ctx.model
    # (a) overlap(r) == area_overlap(r) > area_epsilon
    fo = ctx.func(GEOM, R + "overlap")
    co = canon_function(fo, m)
    ctx.site(fo.where, "overlap is 'area_overlap > area epsilon'")
    ret = _ret_of(co)
    ok = False
    if ret is not None and isinstance(ret, tuple) and ret[0] == "lt0":
        p = to_poly(ret[1])
        pos = [a for mono, c in p.t.items() if c > 0 for a, _ in mono]
        neg = [a for mono, c in p.t.items() if c < 0 for a, _ in mono]
        ok = (len(p.t) == 2 and len(pos) == 1 and len(neg) == 1 and
              pos[0][0] == "c" and pos[0][1][0] == "a" and pos[0][1][2] == "area_epsilon" and
              neg[0][0] == "c" and neg[0][1] == ("a", ("self",), "area_overlap") and neg[0][2] == (("p", 0),))
    if not ok:
        ctx.report(fo.where, f"overlap-def {show(ret) if ret is not None else 'no return'}",
                   "overlap() is not 'self.area_overlap(r) > Rectangle.area_epsilon()' (strict, area tolerance)",
                   lineno=fo.node.lineno)


def _r4_empty(ctx: Ctx) -> None:
    m = ctx.model
    # (b) emptiness of area_overlap and __mul__ agree: both return the empty answer exactly when
    #     not(max(ll) < min(ur)) on either axis
    fa, fm = ctx.func(GEOM, R + "area_overlap"), ctx.func(GEOM, R + "__mul__")
    ca, cm = canon_function(fa, m), canon_function(fm, m)
    ctx.site(fa.where, "non-empty-intersection condition of area_overlap vs __mul__")
    from framelint.peval import paths, value_expr
    from framelint.canon import mk_and, K_NONE

    def live(block, empty, what):
        """conjuncts of the one path condition under which the function does not give the empty answer"""
        alive = [lits for lits, out in paths(block, fall=K_NONE) if out != empty]
        if len(alive) != 1:
            raise AnalysisError(f"C18/R4: {what}: expected exactly one path with a non-empty answer, found {len(alive)}")
        c = mk_and(list(alive[0]))
        return set(c[1]) if c[0] == "and" else {c}
    def bbc(obj, corner, axis):
        return ("a", ("a", ("a", obj, "bounding_box"), corner), axis)
    expected = set()
    for axis in "xy":
        lows = tuple(sorted([bbc(("self",), "ll", axis), bbc(("p", 0), "ll", axis)], key=skey))
        highs = tuple(sorted([bbc(("self",), "ur", axis), bbc(("p", 0), "ur", axis)], key=skey))
        expected.add(mk_lt(("c", ("g", "max"), lows, ()), ("c", ("g", "min"), highs, ())))
    # each function is compared with the definition (max of the low sides < min of the high sides, on both axes), so a
    # deviation is located in the function that deviates
    if wanted(ctx, "area_overlap", "overlap"):
        da = live(ca, k_num(0), "area_overlap")
        ctx.site(fa.where, "area_overlap is non-zero exactly when max(lows) < min(highs) on both axes", condition=sorted(show(x) for x in da))
        if da != expected:
            ctx.report(fa.where, "empty-guard " + " | ".join(sorted(show(x) for x in da ^ expected))[:300],
                       "area_overlap does not give the empty answer exactly when max(low bounds) >= min(high bounds) on some axis",
                       lineno=fa.node.lineno, area_overlap=[show(x) for x in da])
    if wanted(ctx, "__mul__"):
        dm = live(cm, K_NONE, "__mul__")
        region_test = {d for d in dm if contains(d, "region")}
        ctx.site(fm.where, "__mul__ gives a rectangle exactly when the regions agree and max(lows) < min(highs) on both axes", condition=sorted(show(x) for x in dm))
        if dm - region_test != expected or len(region_test) != 1:
            ctx.report(fm.where, "empty-guard-mul " + " | ".join(sorted(show(x) for x in (dm - region_test) ^ expected))[:300],
                       "__mul__ and area_overlap disagree on when two rectangles have a common region: the intersection is not returned exactly when "
                       "the regions agree and max(low bounds) < min(high bounds) on both axes", lineno=fm.node.lineno, mul=[show(x) for x in dm])


def _r4_cuttable(ctx: Ctx) -> None:
    m = ctx.model
    from framelint.peval import value_expr
    # (c) cuttable: strictly inside + sliver threshold
    for q, axis, other in [("x_cuttable", "x", "h"), ("y_cuttable", "y", "w")]:
        f = ctx.func(GEOM, R + q)
        c = canon_function(f, m)
        ctx.site(f.where, f"{q}: refuses cut <= low or >= high; thinner piece > ratio * other side")
        val = value_expr(c)
        if val is None:
            raise AnalysisError(f"C18/R4: {q} is not a chain of guards and returns")
        have = set(val[1]) if val[0] == "and" else {val}
        ll = ("a", ("a", ("a", ("self",), "bounding_box"), "ll"), axis)
        ur = ("a", ("a", ("a", ("self",), "bounding_box"), "ur"), axis)
        cut = ("p", 0)
        need = {mk_lt(ll, cut), mk_lt(cut, ur)}
        if not need <= have:
            ctx.report(f.where, "cuttable-border " + " | ".join(sorted(show(x) for x in need - have)),
                       f"{q} does not refuse a coordinate on or outside the rectangle border", lineno=f.node.lineno)
        dist_lo = (to_poly(cut) - to_poly(ll)).to_s()
        dist_hi = (to_poly(ur) - to_poly(cut)).to_s()
        side = ("a", ("a", ("self",), "shape"), other)
        ratio = ("p", 1)
        thr = (to_poly(ratio) * to_poly(side)).to_s()
        mn = ("c", ("g", "min"), tuple(sorted([dist_lo, dist_hi], key=skey)), ())
        rest = have - need
        ok = rest == {mk_lt(thr, mn)} or rest == {mk_lt(thr, dist_lo), mk_lt(thr, dist_hi)}
        if not ok:
            ctx.report(f.where, "cuttable-sliver " + " & ".join(sorted(show(x) for x in rest))[:200],
                       f"{q}: the sliver test is not 'min(cut - low, high - cut) > ratio * {other}'", lineno=f.node.lineno)


@rule("C18", "R4.strictness", "PRED",
      "strictness conventions: overlap == area_overlap > area epsilon; empty intersection tests of area_overlap "
      "and __mul__ coincide; cuttable refuses coordinates on or outside the border; sliver test compares the "
      "thinner piece with ratio * other side", floor=5)
def r4(ctx: Ctx) -> None:
    if wanted(ctx, "overlap"):
        _r4_overlap(ctx)
    if wanted(ctx, "area_overlap", "__mul__", "overlap"):
        _r4_empty(ctx)      # (evaluates each of the two functions only if wanted)
    if wanted(ctx, "x_cuttable", "y_cuttable"):
        _r4_cuttable(ctx)


def _ctor_key_fields(ctx: Ctx) -> dict[str, str]:
    """KW_* key -> private field stored by Rectangle.__init__ under that key."""
    f = ctx.func(GEOM, R + "__init__")
    out: dict[str, str] = {}
    for node in walk_own(f.node):
        if isinstance(node, ast.If):
            t = node.test
            if isinstance(t, ast.Compare) and len(t.ops) == 1 and isinstance(t.ops[0], ast.Eq) \
                    and isinstance(t.left, ast.Name) and isinstance(t.comparators[0], ast.Name) \
                    and t.comparators[0].id.startswith("KW_"):
                for st in node.body:
                    if isinstance(st, ast.Assign) and isinstance(st.targets[0], ast.Attribute) \
                            and isinstance(st.targets[0].value, ast.Name) and st.targets[0].value.id == "self" \
                            and isinstance(st.value, ast.Name):
                        out[t.comparators[0].id] = st.targets[0].attr
    return out


@rule("C18", "R5.attribute-inheritance", "SCHEMA",
      "duplicate() hands every constructor-settable state attribute of the rectangle to the copy (allow-list: name); "
      "split pieces, grid cells and intersections are made by duplicate(), never by a bare constructor", floor=5)
def r5(ctx: Ctx) -> None:
    if not wanted(ctx, "duplicate", "split_horizontal", "split_vertical", "split", "rectangle_grid", "__mul__"):
        return
    keyfield = _ctor_key_fields(ctx)
    ctx.require(len(keyfield) >= 5, f"Rectangle.__init__ key->field table too small: {keyfield}")
    cls = ctx.model.cls(GEOM, "Rectangle")
    prop_field: dict[str, str] = {}
    for name, fi in cls.methods.items():
        if fi.kind == "property":
            from framelint.srcmodel import getter_field
            if getter_field(fi.node) is not None:
                prop_field[name] = getter_field(fi.node)
    dup = ctx.func(GEOM, R + "duplicate")
    passed: dict[str, str] = {}
    for node in walk_own(dup.node):
        if isinstance(node, ast.Dict):
            for k, v in zip(node.keys, node.values):
                if isinstance(k, ast.Name) and isinstance(v, ast.Attribute) and isinstance(v.value, ast.Name) \
                        and v.value.id == "self":
                    passed[k.id] = prop_field.get(v.attr, v.attr)
        if isinstance(node, ast.Call):
            for kw in node.keywords:
                if kw.arg and isinstance(kw.value, ast.Attribute) and isinstance(kw.value.value, ast.Name) \
                        and kw.value.value.id == "self":
                    # keyword spelled literally: map through the keyword table
                    for kname in keyfield:
                        from .common import kw_value
                        if kw_value(ctx, kname) == kw.arg:
                            passed[kname] = prop_field.get(kw.value.attr, kw.value.attr)
    allow = {"KW_NAME": "the name is not part of a rectangle's geometry/attributes (never read back)"}
    ctx.site(dup.where, "duplicate() passes every constructor key with the matching field",
             ctor_keys=sorted(keyfield), passed=sorted(passed))
    for k, fld in sorted(keyfield.items()):
        if k in allow:
            continue
        if k not in passed:
            ctx.report(dup.where, f"duplicate-drops {k}", f"duplicate() does not copy the attribute stored under {k} "
                       f"({fld}): pieces made from a rectangle lose it", lineno=dup.node.lineno)
        elif passed[k] != fld:
            ctx.report(dup.where, f"duplicate-miswires {k}<-{passed[k]}",
                       f"duplicate() passes {passed[k]} under {k} but the constructor stores {k} in {fld}",
                       lineno=dup.node.lineno)
    for q in ["split_horizontal", "split_vertical", "rectangle_grid", "__mul__"]:
        if not wanted(ctx, q) and not (q.startswith("split_") and wanted(ctx, "split")):
            continue
        f = ctx.func(GEOM, R + q)
        ctor = [c for c in walk_own(f.node) if isinstance(c, ast.Call) and call_name(c) == "Rectangle"]
        dups = [c for c in walk_own(f.node) if isinstance(c, ast.Call) and call_name(c) == "duplicate"]
        ctx.site(f.where, "pieces come from duplicate()", duplicate_calls=len(dups), bare_constructors=len(ctor))
        if ctor or not dups:
            ctx.report(f.where, f"piece-not-duplicate ctor={len(ctor)} dup={len(dups)}",
                       f"{q} builds a piece with a bare Rectangle(...) (or without duplicate()): attributes are not inherited",
                       lineno=f.node.lineno)


def _piece_geometry(ctx: Ctx, fi, opts_extra=None):
    """For a split function: ordered pieces -> (center S, shape S) after symbolic evaluation."""
    names = []
    for node in walk_own(fi.node):
        if isinstance(node, ast.Assign):
            vals = node.value.elts if isinstance(node.value, ast.Tuple) else [node.value]
            tgts = node.targets[0].elts if isinstance(node.targets[0], ast.Tuple) else [node.targets[0]]
            for t, v in zip(tgts, vals):
                if isinstance(v, ast.Call) and call_name(v) == "duplicate" and isinstance(t, ast.Name):
                    names.append(t.id)
    names = sorted(set(names), key=names.index)
    opts = CanonOptions(keep_names=set(names), inline_properties={"Rectangle.bounding_box"})
    c = Canon(fi, ctx.model, opts)
    from framelint.canon import normalize
    block = normalize(c.function(), keep_identity=False)
    geo: dict[str, dict[str, S]] = {n: {} for n in names}

    def rec(stmts):
        for st in stmts:
            if st[0] == "set" and isinstance(st[1], tuple) and st[1][0] == "a" and st[1][1][0] == "l":
                geo[st[1][1][1]][st[1][2]] = st[2]
            elif st[0] == "for":
                rec(st[3])
            elif st[0] == "if":
                rec(st[2]); rec(st[3])
    rec(block)
    ret = None
    for st in block:
        if st[0] == "ret":
            ret = st[1]
    return names, geo, ret, block, c


SELF_CX = ("a", ("a", ("self",), "center"), "x")
SELF_CY = ("a", ("a", ("self",), "center"), "y")
SELF_W = ("a", ("a", ("self",), "shape"), "w")
SELF_H = ("a", ("a", ("self",), "shape"), "h")


def _half(s):
    return to_poly(s).scale(__import__("fractions").Fraction(1, 2))


def _r6_splits(ctx: Ctx) -> None:
    for q, cx, cy, w, h in [("split_horizontal", SELF_CX, SELF_CY, SELF_W, SELF_H),
                            ("split_vertical", SELF_CY, SELF_CX, SELF_H, SELF_W)]:
        fi = ctx.func(GEOM, R + q)
        names, geo, ret, block, _ = _piece_geometry(ctx, fi)
        ctx.require(len(names) == 2, f"{q}: expected two duplicate()-made pieces, found {names}")
        ctx.require(ret is not None and ret[0] == "tuple" and len(ret[1]) == 2, f"{q}: does not return a pair")
        order = [r[1] for r in ret[1] if r[0] == "l"]
        ctx.require(sorted(order) == sorted(names), f"{q}: returned pair is not the two pieces")
        horizontal = q == "split_horizontal"

        def comp(piece, what):
            g = geo[piece]
            ctx.require("center" in g and "shape" in g, f"{q}: piece {piece} gets no center/shape")
            ce, sh = g["center"], g["shape"]
            ctx.require(ce[0] == "c" and ce[1] == ("g", "Point") and sh[0] == "c" and sh[1] == ("g", "Shape"),
                        f"{q}: piece geometry is not built with Point/Shape")
            px, py = ce[2]
            pw, ph = sh[2]
            d = {"c_cut": px if horizontal else py, "c_oth": py if horizontal else px,
                 "s_cut": pw if horizontal else ph, "s_oth": ph if horizontal else pw}
            return d[what]
        # the effective cut: the argument, or the centre coordinate when the argument is negative (the default -1); the
        # normal form reads 'if x < 0: x = centre' and 'cut = centre if x < 0 else x' alike
        from framelint.canon import mk_ite
        cut = mk_ite(mk_lt(("p", 0), k_num(0)), cx, ("p", 0))
        lo = (to_poly(cx) - _half(w)).to_s()
        hi = (to_poly(cx) + _half(w)).to_s()
        p1, p2 = order
        check_law(ctx, fi, f"{q}: piece sizes along the cut add up to the parent's", (to_poly(comp(p1, "s_cut")) + to_poly(comp(p2, "s_cut"))).to_s(), w)
        check_law(ctx, fi, f"{q}: piece 1 keeps the other dimension", comp(p1, "s_oth"), h)
        check_law(ctx, fi, f"{q}: piece 2 keeps the other dimension", comp(p2, "s_oth"), h)
        check_law(ctx, fi, f"{q}: piece 1 keeps the other centre coordinate", comp(p1, "c_oth"), cy)
        check_law(ctx, fi, f"{q}: piece 2 keeps the other centre coordinate", comp(p2, "c_oth"), cy)
        check_law(ctx, fi, f"{q}: piece 1 starts at the parent's low border", (to_poly(comp(p1, "c_cut")) - _half(comp(p1, "s_cut"))).to_s(), lo)
        check_law(ctx, fi, f"{q}: piece 1 ends at the cut", (to_poly(comp(p1, "c_cut")) + _half(comp(p1, "s_cut"))).to_s(), cut)
        check_law(ctx, fi, f"{q}: piece 2 starts at the cut", (to_poly(comp(p2, "c_cut")) - _half(comp(p2, "s_cut"))).to_s(), cut)
        check_law(ctx, fi, f"{q}: piece 2 ends at the parent's high border", (to_poly(comp(p2, "c_cut")) + _half(comp(p2, "s_cut"))).to_s(), hi)
        # default cut = centre; cut asserted strictly inside
        ctx.site(fi.where, f"{q}: default cut is the centre and the cut is asserted strictly inside")
        has_default = contains(block, cut) and not any(st[0] == "set" and st[1] == ("p", 0) for st in block)
        need = {mk_lt(lo, cut), mk_lt(cut, hi)}
        asserted = set()
        for st in block:
            if st[0] == "assert":
                asserted |= set(st[1][1]) if st[1][0] == "and" else {st[1]}
        if not has_default:
            ctx.report(fi.where, "split-default-cut", f"{q}: a negative cut is not replaced by the centre coordinate", lineno=fi.node.lineno)
        if not need <= asserted:
            ctx.report(fi.where, "split-cut-inside " + " | ".join(sorted(show(x) for x in need - asserted)),
                       f"{q}: the cut is not asserted to lie strictly inside the rectangle", lineno=fi.node.lineno)


def _r6_dispatch(ctx: Ctx) -> None:
    # split(): dispatch on the longer side
    fs = ctx.func(GEOM, R + "split")
    cs = canon_function(fs, ctx.model)
    ctx.site(fs.where, "split() cuts the longer side: split_vertical iff h > w")
    want = ("ret", ("ite", mk_lt(SELF_W, SELF_H), ("c", ("a", ("self",), "split_vertical"), (), ()),
                    ("c", ("a", ("self",), "split_horizontal"), (), ())))
    alt = ("if", mk_lt(SELF_W, SELF_H), (("ret", ("c", ("a", ("self",), "split_vertical"), (), ())),),
           (("ret", ("c", ("a", ("self",), "split_horizontal"), (), ())),))
    # ties (h == w) may go either way: accept the non-strict orientation too
    want2 = ("ret", ("ite", mk_lt(SELF_H, SELF_W), ("c", ("a", ("self",), "split_horizontal"), (), ()),
                     ("c", ("a", ("self",), "split_vertical"), (), ())))
    if not (cs == (want,) or cs == (alt,) or cs == (want2,)):
        ctx.report(fs.where, "split-dispatch " + "; ".join(show(x) for x in cs),
                   "split() does not halve the longer side (split_vertical iff h > w)", lineno=fs.node.lineno)


def _r6_grid(ctx: Ctx) -> None:
    # rectangle_grid
    fg = ctx.func(GEOM, R + "rectangle_grid")
    names, geo, ret, block, cn = _piece_geometry(ctx, fg)
    ctx.require(len(names) == 1, "rectangle_grid: expected one duplicate()-made cell per iteration")
    g = geo[names[0]]
    ctx.require("center" in g and "shape" in g, "rectangle_grid: cell gets no center/shape")
    ce, sh = g["center"], g["shape"]
    ctx.require(ce[0] == "c" and ce[1] == ("g", "Point") and sh[0] == "c" and sh[1] == ("g", "Shape"),
                "rectangle_grid: cell geometry is not built with Point/Shape")
    nrows, ncols = ("p", 0), ("p", 1)
    loops = []

    def find_loops(stmts, depth=0):
        for st in stmts:
            if st[0] == "for":
                loops.append((st[1], st[2]))
                find_loops(st[3], depth + 1)
    find_loops(block)
    var_of = {}
    if len(loops) == 1:
        # flattened form: for cell in range(nrows * ncols): row, col = divmod(cell, ncols)   (row-major order)
        var, it = loops[0]
        total = ("c", ("g", "range"), ((to_poly(nrows) * to_poly(ncols)).to_s(),), ())
        dm = atoms_of((ce, sh), lambda x: x[0] == "proj" and x[1][0] == "c" and x[1][1] == ("g", "divmod") and x[3] == 2 and x[1][2][0] == var)
        divisors = {x[1][2][1] for x in dm}
        if it == total and dm and len(divisors) == 1:
            d = divisors.pop()
            ctx.site(fg.where, "flattened grid loop: cell index decoded with divmod(cell, number of columns)", divisor=show(d))
            if d != ncols:
                ctx.report(fg.where, f"grid-index-decode divmod(cell, {show(d)})", "rectangle_grid decodes the flat cell index with the wrong divisor: for a grid that is not "
                           "square the cells do not tile the rectangle (some lie outside, part of it is uncovered)", lineno=fg.node.lineno)
                return
            call = ("c", ("g", "divmod"), (var, ncols), ())
            var_of = {"row": ("proj", call, 0, 2), "col": ("proj", call, 1, 2)}
            loops = [(var_of["row"], ("c", ("g", "range"), (nrows,), ())), (var_of["col"], ("c", ("g", "range"), (ncols,), ()))]
    ctx.require(len(loops) == 2, "rectangle_grid: expected a two-level loop nest (or a flat loop decoded with divmod)")
    for var, it in loops:
        if it == ("c", ("g", "range"), (nrows,), ()):
            var_of["row"] = var
        elif it == ("c", ("g", "range"), (ncols,), ()):
            var_of["col"] = var
    ctx.site(fg.where, "grid loops range over all rows and all columns", loops=[show(it) for _, it in loops])
    if set(var_of) != {"row", "col"}:
        ctx.report(fg.where, "grid-loops " + " ".join(show(it) for _, it in loops),
                   "rectangle_grid does not iterate over range(nrows) x range(ncols)", lineno=fg.node.lineno)
        return
    for axis, c_par, size_par, count, var, ci in [("x", SELF_CX, SELF_W, ncols, var_of["col"], 0),
                                                   ("y", SELF_CY, SELF_H, nrows, var_of["row"], 1)]:
        cell_c, cell_s = ce[2][ci], sh[2][ci]
        check_law(ctx, fg, f"grid {axis}: cell size * count == parent size", (to_poly(cell_s) * to_poly(count)).to_s(), size_par)
        lowc = (to_poly(cell_c) - _half(cell_s)).to_s()
        from framelint.canon import subst
        low0 = subst(lowc, {var: k_num(0)})
        check_law(ctx, fg, f"grid {axis}: first cell starts at the parent's low border", low0, (to_poly(c_par) - _half(size_par)).to_s())
        nxt = subst(lowc, {var: (to_poly(var) + Poly.const(1)).to_s()})
        check_law(ctx, fg, f"grid {axis}: consecutive cells are contiguous", (to_poly(nxt) - to_poly(lowc)).to_s(), cell_s)
        last_hi = subst((to_poly(cell_c) + _half(cell_s)).to_s(), {var: (to_poly(count) - Poly.const(1)).to_s()})
        check_law(ctx, fg, f"grid {axis}: last cell ends at the parent's high border", last_hi, (to_poly(c_par) + _half(size_par)).to_s())
        # the other index must not influence this axis
        other = var_of["row"] if axis == "x" else var_of["col"]
        ctx.site(fg.where, f"grid {axis}: cell {axis}-geometry independent of the other loop index")
        if contains(cell_c, other) or contains(cell_s, other):
            ctx.report(fg.where, f"grid-axis-mix {axis}", f"rectangle_grid: the {axis} geometry of a cell depends on the wrong loop index", lineno=fg.node.lineno)


def _r6_mul(ctx: Ctx) -> None:
    # __mul__: intersection spans [max lows, min highs]
    fm = ctx.func(GEOM, R + "__mul__")
    names, geo, ret, block, _ = _piece_geometry(ctx, fm)
    ctx.require(len(names) == 1 and "center" in geo[names[0]] and "shape" in geo[names[0]], "__mul__: result geometry not found")
    ce, sh = geo[names[0]]["center"], geo[names[0]]["shape"]
    for axis, ci, cpar, spar in [("x", 0, "x", "w"), ("y", 1, "y", "h")]:
        def bound(obj, sign):
            c = ("a", ("a", obj, "center"), cpar)
            s = ("a", ("a", obj, "shape"), spar)
            return (to_poly(c) + _half(s).scale(sign)).to_s()
        lows = tuple(sorted([bound(("self",), -1), bound(("p", 0), -1)], key=skey))
        highs = tuple(sorted([bound(("self",), 1), bound(("p", 0), 1)], key=skey))
        mx = ("c", ("g", "max"), lows, ())
        mn = ("c", ("g", "min"), highs, ())
        check_law(ctx, fm, f"intersection {axis}: low side == max of the operands' low sides", (to_poly(ce[2][ci]) - _half(sh[2][ci])).to_s(), mx)
        check_law(ctx, fm, f"intersection {axis}: high side == min of the operands' high sides", (to_poly(ce[2][ci]) + _half(sh[2][ci])).to_s(), mn)


def _r6_overlap_area(ctx: Ctx) -> None:
    # area_overlap value == product of the overlap extents
    fa = ctx.func(GEOM, R + "area_overlap")
    ca = normalize(Canon(fa, ctx.model, CanonOptions(inline_properties={"Rectangle.bounding_box"})).function(), keep_identity=False)
    from framelint.peval import paths
    vals = [out for lits, out in paths(ca) if out != k_num(0)]
    ctx.require(len(vals) == 1, "area_overlap: expected one path with a non-zero answer")
    ret = vals[0]
    ext = []
    for cpar, spar in [("x", "w"), ("y", "h")]:
        def bound(obj, sign):
            c = ("a", ("a", obj, "center"), cpar)
            s = ("a", ("a", obj, "shape"), spar)
            return (to_poly(c) + _half(s).scale(sign)).to_s()
        lows = tuple(sorted([bound(("self",), -1), bound(("p", 0), -1)], key=skey))
        highs = tuple(sorted([bound(("self",), 1), bound(("p", 0), 1)], key=skey))
        ext.append(to_poly(("c", ("g", "min"), highs, ())) - to_poly(("c", ("g", "max"), lows, ())))
    check_law(ctx, fa, "overlap area == (min highs - max lows)_x * (min highs - max lows)_y", ret, (ext[0] * ext[1]).to_s())
    # bounding_box itself: ll = centre - half size, ur = centre + half size
    fb = ctx.func(GEOM, R + "bounding_box")
    cb = canon_function(fb, ctx.model)
    ctx.require(len(cb) == 1 and cb[0][0] == "ret", "bounding_box is not a straight-line property")
    bbv = cb[0][1]
    cn = Canon(fb, ctx.model)
    for corner, sign in [("ll", -1), ("ur", 1)]:
        for cpar, spar, c0, s0 in [("x", "w", SELF_CX, SELF_W), ("y", "h", SELF_CY, SELF_H)]:
            val = cn.attr(cn.attr(bbv, corner), cpar)
            check_law(ctx, fb, f"bounding_box.{corner}.{cpar} == centre {'-' if sign < 0 else '+'} half size", val, (to_poly(c0) + _half(s0).scale(sign)).to_s())
    # area == w * h
    far = ctx.func(GEOM, R + "area")
    car = canon_function(far, ctx.model)
    ctx.require(len(car) == 1 and car[0][0] == "ret", "area is not a straight-line property")
    w_ = ("a", ("a", ("self",), "_shape"), "w")
    h_ = ("a", ("a", ("self",), "_shape"), "h")
    val = Sigma(attrs={"shape": "_shape"}).apply(car[0][1])
    check_law(ctx, far, "area == w * h", val, (to_poly(w_) * to_poly(h_)).to_s())


@rule("C18", "R6.tiling-arithmetic", "LAW",
      "symbolic (polynomial normal form) tiling laws: the two pieces of a split have the parent's other dimension, "
      "widths adding up to the parent's, and abut exactly at the cut and at the parent's borders; grid cells have "
      "size parent/count, start at the low border, are contiguous and end at the high border; the intersection "
      "rectangle spans [max lows, min highs]", floor=20)
def r6(ctx: Ctx) -> None:
    if wanted(ctx, "split_horizontal", "split_vertical", "split"):
        _r6_splits(ctx)
    if wanted(ctx, "split"):
        _r6_dispatch(ctx)
    if wanted(ctx, "rectangle_grid"):
        _r6_grid(ctx)
    if wanted(ctx, "__mul__"):
        _r6_mul(ctx)
    if wanted(ctx, "area_overlap", "overlap", "area"):
        _r6_overlap_area(ctx)


@rule("C18", "R7.containment-definition", "PRED",
      "is_inside and point_inside are the coordinate comparisons of plane geometry (closed on all four sides), touches "
      "the same with the distance tolerance; none of them goes through intersection / equality of rectangles (which also "
      "compare regions and rebuilt float geometry)", floor=3)
def r7(ctx: Ctx) -> None:
    s_, o = ("self",), ("p", 0)

    def bb(obj, corner, axis):
        return ("a", ("a", ("a", obj, "bounding_box"), corner), axis)
    from framelint.canon import mk_and
    f = ctx.func(GEOM, R + "is_inside")
    c = canon_function(f, ctx.model)
    want = mk_and([mk_not(mk_lt(bb(s_, "ll", a), bb(o, "ll", a))) for a in "xy"] + [mk_not(mk_lt(bb(o, "ur", a), bb(s_, "ur", a))) for a in "xy"])
    if wanted(ctx, "is_inside"):
        ctx.site(f.where, "is_inside == ll >= other.ll and ur <= other.ur on both axes")
    if wanted(ctx, "is_inside") and c != (("ret", want),):
        ctx.report(f.where, "is-inside-definition " + "; ".join(show(x) for x in c)[:200], "is_inside is not the four closed comparisons of the bounding boxes", lineno=f.node.lineno)
    f = ctx.func(GEOM, R + "point_inside")
    c = canon_function(f, ctx.model)
    want = mk_and([mk_not(mk_lt(("a", o, a), bb(s_, "ll", a))) for a in "xy"] + [mk_not(mk_lt(bb(s_, "ur", a), ("a", o, a))) for a in "xy"])
    if wanted(ctx, "point_inside"):
        ctx.site(f.where, "point_inside == ll <= p <= ur on both axes")
    if wanted(ctx, "point_inside") and c != (("ret", want),):
        ctx.report(f.where, "point-inside-definition " + "; ".join(show(x) for x in c)[:200], "point_inside is not ll <= p <= ur on both axes (closed)", lineno=f.node.lineno)
    f = ctx.func(GEOM, R + "touches")
    c = canon_function(f, ctx.model)
    eps = ("c", ("a", ("g", "Rectangle"), "distance_epsilon"), (), ())
    want = mk_and([mk_not(mk_lt((to_poly(bb(b_, "ur", a)) + to_poly(eps)).to_s(), bb(a_, "ll", a))) for a in "xy" for a_, b_ in ((s_, o), (o, s_))])
    if wanted(ctx, "touches"):
        ctx.site(f.where, "touches == the bounding boxes overlap or abut within the distance tolerance, on both axes")
    if wanted(ctx, "touches") and c != (("ret", want),):
        ctx.report(f.where, "touches-definition " + "; ".join(show(x) for x in c)[:200], "touches is not 'll <= other.ur + eps' for both operands on both axes", lineno=f.node.lineno)


@rule("C18", "R9.halving-to-a-count", "SHARED(C11)",
      "split_rectangles only redistributes what split() returns: both halves of every split reach a work list / the result, "
      "every popped rectangle is split or kept, no rectangle is built or edited there (the C11 rules evaluated for the halving "
      "driver)", floor=4)
def shared_split_rectangles(ctx: Ctx) -> None:
    from . import C11 as _c11
    from .common import support
    support(ctx, [_c11.r2, _c11.r3], {"split_rectangles"})
