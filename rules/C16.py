"""C16 -- the pseudo-Boolean expression algebra preserves integer semantics (tools/rect/pseudobool.py)."""
from __future__ import annotations

import ast

from framelint.core import rule, Ctx
from framelint.srcmodel import walk_own, AnalysisError
from framelint.canon import (canon_function, show, S, to_poly, mk_lt, mk_and, mk_or, mk_not, mk_eq, k_num, k_str, contains,
                             skey, atoms_of, Sigma, K_TRUE, K_FALSE, K_NONE, single_defs, deref, Poly)
from framelint.peval import peval_block, paths
from .common import PB, call_name, norm_stmt

MUL = ("c", ("g", "int"), (("p", 0),), ())
from framelint.canon import canon_function as _canon_function_expanded

def canon_function(fi, model=None, opts=None):   # rules of this file match shapes: look through every local
    return _canon_function_expanded(fi, model, opts, expand=True)



def _result_var(c: tuple):
    """the local Expr copy that the method returns"""
    vs = [st[1] for st in atoms_of(c, lambda x: x[0] == "set" and len(x) == 3 and x[2][0] == "c" and x[2][1] == ("g", "Expr"))
          if st[1][0] == "v"]
    return vs[0] if vs else None


@rule("C16", "R1.scale", "SCALE",
      "Expr.__mul__ scales every state component of the result by the multiplier: each stored coefficient and the constant", floor=2)
def r1(ctx: Ctx) -> None:
    f = ctx.func(PB, "Expr.__mul__")
    c = canon_function(f, ctx.model)
    res = _result_var(c)
    ctx.require(res is not None, "Expr.__mul__: result copy not found")
    ctor = [st for st in atoms_of(c, lambda x: x[0] == "set" and len(x) == 3 and x[1] == res)][0][2]
    # coefficient of every term
    loops = [lp for lp in atoms_of(c, lambda x: x[0] == "for" and len(x) == 5) if lp[2] == ("a", res, "t")]
    ctx.site(f.where, "every term coefficient is multiplied by int(multiplier)")
    ok = False
    for lp in loops:
        coef = ("a", ("s", ("a", res, "t"), lp[1]), "c")
        if any(st == ("aug", "Mult", coef, MUL) for st in lp[3]) or \
                any(st[0] == "set" and st[1] == coef and to_poly(st[2]).t == (to_poly(coef) * to_poly(MUL)).t for st in lp[3] if len(st) == 3):
            ok = True
    if not ok:
        ctx.report(f.where, "scale-coefficients", "Expr.__mul__ does not multiply the coefficient of every term by the multiplier", lineno=f.node.lineno)
    # the constant
    selfc = ("a", ("self",), "c")
    scaled_ctor = len(ctor[2]) >= 1 and to_poly(ctor[2][0]).t == (to_poly(selfc) * to_poly(MUL)).t
    scaled_ctor = scaled_ctor or (len(ctor[2]) >= 1 and to_poly(ctor[2][0]).t == (to_poly(selfc) * to_poly(("p", 0))).t)
    top_scaled = any(st == ("aug", "Mult", ("a", res, "c"), MUL) or st == ("aug", "Mult", ("a", res, "c"), ("p", 0))
                     for st in atoms_of(c, lambda x: x[0] == "aug") if not any(contains(lp, st) for lp in loops))
    ctx.site(f.where, "the constant of the result is multiplied by the multiplier", constructor=show(ctor), scaled_in_constructor=scaled_ctor,
             scaled_by_statement=top_scaled)
    if not (scaled_ctor or top_scaled):
        ctx.report(f.where, f"scale-constant {show(ctor)}",
                   "Expr.__mul__ copies the constant of the expression unscaled: (a + 2) * 3 yields 3 a + 2", lineno=f.node.lineno)


def _norm_aug(st):
    if st[0] == "aug" and st[1] == "Sub":
        return ("aug", "Add", st[2], (-to_poly(st[3])).to_s())
    return st


@rule("C16", "R2.polarity-merge", "LAW",
      "in Expr.__add__ merging a term of the opposite polarity is merging -c with the same polarity plus adding c to the "
      "constant (k * not l == k - k * l); merging the same polarity adds the coefficients", floor=2)
def r2(ctx: Ctx) -> None:
    f = ctx.func(PB, "Expr.__add__")
    c = canon_function(f, ctx.model)
    res = _result_var(c)
    ctx.require(res is not None, "Expr.__add__: result copy not found")
    t = ("p", 0)
    key = ("a", ("a", t, "L"), "v")
    stored = ("s", ("a", res, "t"), key)
    same = mk_eq(("a", ("a", t, "L"), "s"), ("a", ("a", stored, "L"), "s"))
    merges = [st for st in atoms_of(c, lambda x: x[0] == "if" and x[1] == same)]
    ctx.site(f.where, "polarity test compares the incoming literal's sign with the stored term's sign", found=len(merges))
    if len(merges) != 1:
        ctx.report(f.where, "polarity-test", "Expr.__add__ does not branch on 'incoming sign == stored sign' for an existing variable", lineno=f.node.lineno)
        return
    then, orelse = merges[0][2], merges[0][3]
    coef = ("a", stored, "c")
    tc = ("a", t, "c")
    want_then = ("aug", "Add", coef, tc)
    ctx.site(f.where, "same polarity: coefficient += c")
    if [_norm_aug(s_) for s_ in then if s_[0] == "aug"] != [want_then]:
        ctx.report(f.where, "merge-same " + "; ".join(show(s_) for s_ in then), "same-polarity merge is not 'stored coefficient += c'", lineno=f.node.lineno)
    # law: else == then[c -> -c] + {const += c}
    img = [_norm_aug(Sigma(raw_subst={tc: (-to_poly(tc)).to_s()}).apply(s_)) for s_ in then]
    img.append(("aug", "Add", ("a", res, "c"), tc))
    got = [_norm_aug(s_) for s_ in orelse]
    ctx.site(f.where, "opposite polarity == same polarity with -c, plus constant += c")
    if sorted(img, key=skey) != sorted(got, key=skey):
        ctx.report(f.where, "merge-opposite " + "; ".join(show(s_) for s_ in orelse),
                   "opposite-polarity merge is not the same-polarity merge of -c together with 'constant += c'", lineno=f.node.lineno,
                   expected=[show(s_) for s_ in img])


@rule("C16", "R3.normal-form", "MUST-FOLLOW",
      "after every write to a stored coefficient the zero coefficient is removed and a negative coefficient is flipped "
      "(constant += c; c = -c; polarity inverted) before the result is returned, in __add__ and in __mul__; a new term "
      "is stored under its own variable name", floor=5)
def r3(ctx: Ctx) -> None:
    f = ctx.func(PB, "Expr.__add__")
    c = canon_function(f, ctx.model)
    res = _result_var(c)
    t = ("p", 0)
    key = ("a", ("a", t, "L"), "v")
    stored = ("s", ("a", res, "t"), key)
    coef = ("a", stored, "c")
    sign = ("a", ("a", stored, "L"), "s")
    # zero elimination in both merge branches
    zero = ("if", mk_eq(coef, k_num(0)), (("del", (stored,)),), ())
    term_branch = [st for st in atoms_of(c, lambda x: x[0] == "if" and x[1] == ("c", ("g", "isinstance"), (t, ("g", "Term")), ()))]
    ctx.require(len(term_branch) == 1, "Expr.__add__: Term branch not found")
    tb = term_branch[0][2]
    # on every path through the Term branch that writes the stored coefficient, the coefficient is then tested against 0 and the
    # term deleted when it is 0 (wherever that test stands: in each merge branch or once after them)
    from framelint.peval import traces
    is_zero = mk_eq(coef, k_num(0))
    writes = unchecked = 0
    # the final sign flip writes the coefficient too, but only when it is < 0: it is cut off before the paths are read
    tb_merge = tuple(x for x in tb if not (x[0] == "if" and contains(x[1], mk_lt(coef, k_num(0)))))
    for lits, effs, out in traces(tb_merge, keep_sets=True):
        wrote = [i for i, e in enumerate(effs) if e[0] == "aug" and e[2] == coef]
        if not wrote:
            continue
        writes += 1
        deleted = any(e[0] == "del" and e[1] == (stored,) for e in effs[wrote[-1] + 1:])
        if not ((is_zero in lits and deleted) or (mk_not(is_zero) in lits and not deleted)):
            unchecked += 1
    n_zero = writes - unchecked
    ctx.site(f.where, "zero coefficients are deleted on every path that writes a stored coefficient", paths_with_write=writes, unchecked=unchecked)
    if writes < 2 or unchecked:
        ctx.report(f.where, f"zero-elimination {n_zero}/{writes}", "a merge branch of Expr.__add__ can leave a term with coefficient 0", lineno=f.node.lineno)
    # sign normalisation at the end of the Term branch
    norm_cond = mk_and([("cmp", "in", key, ("a", res, "t")), mk_lt(coef, k_num(0))])
    norm_body = {("aug", "Add", ("a", res, "c"), coef), ("set", coef, (-to_poly(coef)).to_s()), ("set", sign, mk_not(sign))}
    last = tb[-1] if tb else None
    ctx.site(f.where, "negative coefficient flipped at the end of the Term branch (constant += c; c = -c; sign inverted)")
    ok = last is not None and last[0] == "if" and last[1] == norm_cond and set(last[2]) == norm_body and last[3] == () and \
        list(last[2]).index(("aug", "Add", ("a", res, "c"), coef)) < list(last[2]).index(("set", coef, (-to_poly(coef)).to_s()))
    if not ok:
        ctx.report(f.where, "sign-normalisation-add", "Expr.__add__ does not end the Term branch by flipping a negative coefficient "
                   "(constant += c, then c = -c, polarity inverted)", lineno=f.node.lineno)
    # new term stored under its own variable name, as a copy
    ins = [st for st in atoms_of(tb, lambda x: x[0] == "set" and len(x) == 3 and x[1] == stored)]
    ctx.site(f.where, "a new term is stored under its own variable name")
    if ins != [("set", stored, ("c", ("g", "Term"), (("a", t, "L"), ("a", t, "c")), ()))]:
        ctx.report(f.where, "term-key " + "; ".join(show(s_) for s_ in ins), "a new term is not stored as table[term.L.v] = Term(term.L, term.c)", lineno=f.node.lineno)
    # zero term is a no-op; numbers add to the constant; expressions are added term by term
    ctx.site(f.where, "numbers are added to the constant; expressions add their constant and every term")
    num = [st for st in atoms_of(c, lambda x: x[0] == "aug" and x[1] == "Add" and x[2] == ("a", res, "c") and x[3] == ("c", ("g", "int"), (t,), ()))]
    exprc = [st for st in atoms_of(c, lambda x: x[0] == "aug" and x[1] == "Add" and x[2] == ("a", res, "c") and x[3] == ("a", t, "c"))]
    from .common import dict_loops
    loops = dict_loops(c, ("a", t, "t"))
    ok = len(num) == 1 and len(exprc) >= 1 and len(loops) == 1 and \
        loops[0][0][3] == (("set", res, (to_poly(res) + to_poly(loops[0][2])).to_s()),)
    if not ok:
        ctx.report(f.where, "add-number-or-expr", "adding a number / an expression is not 'constant += int(n)' / 'constant += e.c and every term of e'", lineno=f.node.lineno)

    # __mul__
    g = ctx.func(PB, "Expr.__mul__")
    cm = canon_function(g, ctx.model)
    resm = _result_var(cm)
    loops = [lp for lp in atoms_of(cm, lambda x: x[0] == "for" and len(x) == 5) if lp[2] == ("a", resm, "t")]
    ctx.require(len(loops) == 1, "Expr.__mul__: loop over the terms not found")
    v = loops[0][1]
    st_ = ("s", ("a", resm, "t"), v)
    coefm = ("a", st_, "c")
    ctx.site(g.where, "zero coefficients are collected and deleted after the loop")
    rem = [x for x in loops[0][3] if x[0] == "if" and x[1] == mk_eq(coefm, k_num(0)) and contains(x[2], "append") and contains(x[2], v)]
    dels = [lp for lp in atoms_of(cm, lambda x: x[0] == "for" and len(x) == 5) if any(y[0] == "del" and contains(y, ("a", resm, "t")) for y in lp[3])]
    if len(rem) != 1 or len(dels) != 1:
        ctx.report(g.where, "zero-elimination-mul", "Expr.__mul__ can leave a term with coefficient 0 (multiplication by 0)", lineno=g.node.lineno)
    ctx.site(g.where, "negative coefficient flipped (constant += c; term replaced by the opposite literal with -c)")
    # every way through one iteration: the coefficient is flipped exactly when it is tested negative (whether that test is an
    # 'if' of its own or the 'elif' of the zero test); inside 'for v in table' the key v is in the table
    from framelint.peval import traces, assume
    neg = mk_lt(coefm, k_num(0))
    want_new = ("c", ("g", "Term"), (("c", ("g", "Literal"), (("a", ("a", st_, "L"), "v"), mk_not(("a", ("a", st_, "L"), "s"))), ()),
                                     (-to_poly(coefm)).to_s()), ())
    flip_a = [("aug", "Add", ("a", resm, "c"), coefm), ("set", st_, want_new)]
    flip_b = {("aug", "Add", ("a", resm, "c"), coefm), ("set", coefm, (-to_poly(coefm)).to_s()),
              ("set", ("a", ("a", st_, "L"), "s"), mk_not(("a", ("a", st_, "L"), "s")))}
    body_ = assume(tuple(loops[0][3]), ("cmp", "in", v, ("a", resm, "t")), True)
    ok = True
    n_flip = 0
    for lits, effs, out in traces(body_, keep_sets=True):
        tail = [e for e in effs if e in flip_a or e in flip_b]
        flipped = tail == flip_a or (set(tail) == flip_b and tail and tail[0] == ("aug", "Add", ("a", resm, "c"), coefm))
        if tail and not flipped:
            ok = False
        tested_neg = neg in lits
        known_nonneg = mk_not(neg) in lits or mk_eq(coefm, k_num(0)) in lits
        if flipped:
            n_flip += 1
            if not tested_neg:
                ok = False
        elif not known_nonneg or tested_neg:
            ok = False
    ok = ok and n_flip >= 1
    if not ok:
        ctx.report(g.where, "sign-normalisation-mul", "Expr.__mul__ does not flip a coefficient made negative by the multiplier", lineno=g.node.lineno)


OPS = {"__ge__": (ast.GtE, ">="), "__le__": (ast.LtE, "<="), "__gt__": (ast.Gt, ">"), "__lt__": (ast.Lt, "<"), "__eq__": (ast.Eq, "=")}


REVERSED = {ast.GtE: ast.LtE, ast.LtE: ast.GtE, ast.Gt: ast.Lt, ast.Lt: ast.Gt, ast.Eq: ast.Eq}


@rule("C16", "R6.overload-tables", "SIBLING",
      "every comparison dunder of Literal, Term and Expr builds the inequality of its own name; __sub__ is __add__ of the "
      "negated operand; __rmul__/__radd__ delegate with the same operands", floor=15)
def r6(ctx: Ctx) -> None:
    for cls in ["Literal", "Term"]:
        for d, (opcls, _) in OPS.items():
            f = ctx.func(PB, f"{cls}.{d}")
            # the method returns (Expr() + self) <its own operator> (Expr() + other): compared in the normal form, where the
            # reversed spelling 'b <= a' of 'a >= b', a value passing through locals and a helper / operator table that does
            # the comparison all have one form; the lifting to Expr is checked on the calls the body makes
            from framelint.canon import Canon as _Canon
            lift = ("c", ("g", "Expr"), (), ())
            lhs = (to_poly(lift) + to_poly(("self",))).to_s()
            rhs = (to_poly(lift) + to_poly(("p", 0))).to_s()
            want = (("ret", _Canon.compare(opcls.__name__, lhs, rhs)),)
            cf = canon_function(f, ctx.model)
            lifted = sum(1 for n in ast.walk(f.node) if isinstance(n, ast.Call) and call_name(n) == "Expr") >= 2
            ok = cf == want and lifted
            ctx.site(f.where, f"{cls}.{d} compares Expr()+self with the operator of its name")
            if not ok:
                ctx.report(f.where, f"overload-op {cls}.{d}", f"{cls}.{d} does not return (Expr() + self) <its own operator> other", lineno=f.node.lineno)
    for d, (_, opstr) in OPS.items():
        f = ctx.func(PB, f"Expr.{d}")
        c = canon_function(f, ctx.model)
        ctx.site(f.where, f"Expr.{d} builds Ineq(self, Expr()+other, '{opstr}')")
        ok = len(c) == 1 and c[0][0] == "ret" and c[0][1][0] == "c" and c[0][1][1] == ("g", "Ineq") and len(c[0][1][2]) == 3 and \
            c[0][1][2][0] == ("self",) and contains(c[0][1][2][1], ("p", 0)) and not contains(c[0][1][2][1], ("self",)) and \
            c[0][1][2][2] in ((k_str(opstr),) if opstr != "=" else (k_str("="), k_str("==")))
        if not ok:
            ctx.report(f.where, f"overload-op Expr.{d}", f"Expr.{d} does not build the '{opstr}' inequality between self and the operand", lineno=f.node.lineno)
    # __sub__ : every branch adds the negation
    f = ctx.func(PB, "Expr.__sub__")
    c = canon_function(f, ctx.model)
    t = ("p", 0)
    s_ = ("self",)
    ps = paths(c)
    ctx.site(f.where, "Expr.__sub__: term -> self + Term(L, -c); number -> self + (-n); literal/name -> via Term", paths=len(ps))
    want_term = (to_poly(s_) + to_poly(("c", ("g", "Term"), (("a", t, "L"), (-to_poly(("a", t, "c"))).to_s()), ()))).to_s()
    want_num = (to_poly(s_) - to_poly(("c", ("g", "int"), (t,), ()))).to_s()
    outs = {o for l, o in ps}
    if want_term not in outs or want_num not in outs:
        ctx.report(f.where, "sub-negation", "Expr.__sub__ does not add Term(L, -c) for a term and -int(n) for a number", lineno=f.node.lineno)
    from .common import dict_loops
    dl = dict_loops(c, ("a", t, "t"))
    loops = [x[0] for x in dl]
    ctx.site(f.where, "Expr.__sub__ of an expression subtracts its constant and every term")
    ok = False
    if len(loops) == 1:
        acc = loops[0][3][0][1] if loops[0][3] and loops[0][3][0][0] == "set" else None
        if acc is not None and loops[0][3] == (("set", acc, (to_poly(acc) - to_poly(dl[0][2])).to_s()),):
            init = [st for st in atoms_of(c, lambda x: x[0] == "set" and len(x) == 3 and x[1] == acc and not contains(x[2], acc))]
            ok = len(init) == 1 and init[0][2] == (to_poly(s_) - to_poly(("a", t, "c"))).to_s()
    if not ok:
        ctx.report(f.where, "sub-expression", "Expr.__sub__ of an expression is not 'self - e.c - every term of e'", lineno=f.node.lineno)
    # negations and products of Literal / Term
    table = {
        "Literal.__neg__": ("ret", ("c", ("g", "Literal"), (("a", s_, "v"), mk_not(("a", s_, "s"))), ())),
        "Term.__neg__": ("ret", ("c", ("g", "Term"), (("a", s_, "L"), (-to_poly(("a", s_, "c"))).to_s()), ())),
        "Literal.__mul__": ("ret", ("c", ("g", "Term"), (s_, t), ())),
        "Term.__mul__": ("ret", ("c", ("g", "Term"), (("a", s_, "L"), (to_poly(("a", s_, "c")) * to_poly(("c", ("g", "int"), (t,), ()))).to_s()), ())),
        "Literal.__rmul__": ("ret", (to_poly(s_) * to_poly(t)).to_s()),
        "Term.__rmul__": ("ret", (to_poly(s_) * to_poly(t)).to_s()),
        "Expr.__rmul__": ("ret", (to_poly(s_) * to_poly(t)).to_s()),
    }
    # a reflected product either delegates to the product ('self * other') or is the product's own definition written out
    alternatives = {"Literal.__rmul__": [table["Literal.__mul__"]], "Term.__rmul__": [table["Term.__mul__"]]}
    for q, want in table.items():
        g = ctx.func(PB, q)
        cg = canon_function(g, ctx.model)
        ctx.site(g.where, f"{q} definition", form=show(want))
        if cg != (want,) and cg not in [(w,) for w in alternatives.get(q, [])]:
            ctx.report(g.where, f"overload-def {q}: " + "; ".join(show(x) for x in cg)[:160], f"{q} is not {show(want)}", lineno=g.node.lineno)


def ineq_table(ctx: Ctx) -> dict:
    """operator string -> (swapped?, resulting op | 'raise')  by partial evaluation of Ineq.__init__"""
    f = ctx.func(PB, "Ineq.__init__")
    c = canon_function(f, ctx.model)
    out = {}
    for op in [">=", "<=", ">", "<", "=", "==", "!=", "=>", ""]:
        res = peval_block(c, {("p", 2): k_str(op)})
        if any(st[0] == "raise" for st in res):
            out[op] = ("raise", None)
            continue
        # what the two sides and the operator are when they are stored (whatever way the exchange is written: a swap of two
        # names, a three-way assignment, fresh locals)
        env = {("p", 0): ("p", 0), ("p", 1): ("p", 1), ("p", 2): k_str(op)}
        lhs_val = final = None
        for st in res:
            if st[0] == "set" and len(st) == 3 and st[1][0] in ("p", "v"):
                env[st[1]] = Sigma(raw_subst=env).apply(st[2])
            elif st[0] == "mset":
                vals = [Sigma(raw_subst=env).apply(v) for v in st[2]]
                for t, v in zip(st[1], vals):
                    if t[0] in ("p", "v"):
                        env[t] = v
            elif st[0] == "set" and st[1] == ("a", ("self",), "op"):
                final = Sigma(raw_subst=env).apply(st[2])
            elif st[0] == "set" and st[1] == ("a", ("self",), "lhs") and lhs_val is None:
                lhs_val = Sigma(raw_subst=env).apply(st[2])
        swapped = None
        if lhs_val == (to_poly(("p", 0)) - to_poly(("p", 1))).to_s():
            swapped = False
        elif lhs_val == (to_poly(("p", 1)) - to_poly(("p", 0))).to_s():
            swapped = True
        out[op] = (swapped, final[2] if final is not None and final[0] == "k" else None)
    return out


@rule("C16", "R5.ineq-normalisation", "CCP-TABLE",
      "Ineq.__init__ tabulated over the operator strings: '<=' and '<' swap the sides and become '>=' / '>'; '==' becomes "
      "'='; any other string is refused; the bound is minus the constant of lhs - rhs and the constant is cleared", floor=8)
def r5(ctx: Ctx) -> None:
    f = ctx.func(PB, "Ineq.__init__")
    tab = ineq_table(ctx)
    want = {">=": (False, ">="), "<=": (True, ">="), ">": (False, ">"), "<": (True, ">"), "=": (False, "="), "==": (False, "="),
            "!=": ("raise", None), "=>": ("raise", None), "": ("raise", None)}
    for op, w in want.items():
        ctx.site(f.where, f"operator {op!r}", got=tab.get(op), want=w)
        if tab.get(op) != w:
            ctx.report(f.where, f"ineq-table {op!r} -> {tab.get(op)}", f"Ineq('{op}') is normalised to {tab.get(op)} instead of {w} (swap sides?, operator)",
                       lineno=f.node.lineno)
    c = canon_function(f, ctx.model)
    s_ = ("self",)
    ctx.site(f.where, "lhs := lhs - rhs; bound := -constant; constant cleared")
    tail = [st for st in c if st[0] == "set" and st[1][0] == "a" and st[1][1] in (s_, ("a", s_, "lhs"))]
    want_tail = [("set", ("a", s_, "lhs"), (to_poly(("p", 0)) - to_poly(("p", 1))).to_s()),
                 ("set", ("a", s_, "rhs"), (-to_poly(("a", ("a", s_, "lhs"), "c"))).to_s()),
                 ("set", ("a", ("a", s_, "lhs"), "c"), k_num(0))]
    if [t for t in tail if t[1][2] in ("lhs", "rhs", "c")] != want_tail:
        ctx.report(f.where, "ineq-bound", "Ineq.__init__ does not set lhs = lhs - rhs, rhs = -lhs.c, lhs.c = 0 in this order", lineno=f.node.lineno)


@rule("C16", "R4.term-ownership", "ALIAS",
      "every expression owns its terms: Expr.__init__ stores a fresh Term (with a fresh Literal) for every entry of the "
      "table it is given, so the in-place coefficient updates of __add__ / __mul__ on the copy cannot rewrite an operand", floor=2)
def r4(ctx: Ctx) -> None:
    f = ctx.func(PB, "Expr.__init__")
    from .common import unversion
    c = unversion(canon_function(f, ctx.model), 1)       # 't = {} if t is None else t'
    t = ("p", 1)
    s_ = ("self",)
    loops = [lp for lp in atoms_of(c, lambda x: x[0] == "for" and len(x) == 5)]
    ctx.site(f.where, "Expr.__init__ copies every term into a fresh Term")
    ok = False
    for lp in loops:
        v = lp[1]
        want = ("set", ("s", ("a", s_, "t"), v), ("c", ("g", "Term"), (("a", ("s", lp[2] if lp[2][0] != "c" else t, v), "L"), ("a", ("s", lp[2] if lp[2][0] != "c" else t, v), "c")), ()))
        if want in lp[3] and (lp[2] == t or lp[2][0] == "v" or lp[2] == ("c", ("a", t, "keys"), (), ())):
            ok = True
    # the table itself must be a new mapping, never the argument
    tabs = [st for st in atoms_of(c, lambda x: x[0] == "set" and len(x) == 3 and x[1] == ("a", s_, "t"))]
    fresh_tab = len(tabs) == 1 and tabs[0][2][0] == "c" and not tabs[0][2][2] and not contains(tabs[0][2], t)
    if not ok or not fresh_tab:
        ctx.report(f.where, f"terms-shared copy-loop={ok} fresh-table={fresh_tab}", "Expr.__init__ does not build its own table of fresh Term objects: the result of e + x / e * k shares Term "
                   "objects with e, and the in-place coefficient updates rewrite e as well", lineno=f.node.lineno)
    g = ctx.func(PB, "Term.__init__")
    cg = canon_function(g, ctx.model)
    lit = ("p", 0)
    ctx.site(g.where, "Term.__init__ copies the literal (sign flips are done in place)")
    want = ("set", ("a", s_, "L"), ("c", ("g", "Literal"), (("a", lit, "v"), ("a", lit, "s")), ()))
    if want not in cg:
        ctx.report(g.where, "literal-shared", "Term.__init__ keeps a reference to the caller's Literal: the in-place sign flip of the normal form would change the caller's literal", lineno=g.node.lineno)


@rule("C16", "R7.terms-enter-by-addition", "WHO-MAY-CONSTRUCT",
      "an expression gets its terms only through Expr.__add__, the one place where a term is normalised (negative coefficient -> "
      "complemented literal, zero coefficient dropped, opposite polarities merged): every construction Expr(c, table) in "
      "tools/rect hands over the table of an existing expression (x.t, possibly copied), never a table put together on the spot",
      floor=2)
def r7_builder(ctx: Ctx) -> None:
    n = 0

    def table_of_an_expression(e) -> bool:
        if isinstance(e, ast.Attribute) and e.attr == "t":
            return True
        if isinstance(e, ast.Call) and call_name(e) in ("dict", "copy", "deepcopy") and len(e.args) == 1 and not e.keywords:
            return table_of_an_expression(e.args[0])
        if isinstance(e, ast.Call) and isinstance(e.func, ast.Attribute) and e.func.attr == "copy" and not e.args:
            return table_of_an_expression(e.func.value)
        if isinstance(e, ast.Dict) and e.keys == [None] and len(e.values) == 1:
            return table_of_an_expression(e.values[0])
        return False
    for f in ctx.model.all_functions(include_inlined=True):
        if not f.module.relpath.startswith("tools/rect/"):
            continue
        for c in walk_own(f.node):
            if isinstance(c, ast.Call) and call_name(c) == "Expr":
                tab = c.args[1] if len(c.args) >= 2 else next((k.value for k in c.keywords if k.arg in ("t", "terms", "table")), None)
                if any(isinstance(a, ast.Starred) for a in c.args) or any(k.arg is None for k in c.keywords):
                    tab = c
                if tab is None:
                    continue
                n += 1
                ctx.site(f.where, "Expr(c, table): the table is that of an existing expression", table=ast.unparse(tab)[:60])
                if not table_of_an_expression(tab):
                    ctx.report(f.where, f"terms-built-directly {ast.unparse(tab)[:60]}", f"{f.qualname} builds an expression from a term table put together on the spot "
                               f"({ast.unparse(tab)[:60]}): those terms never pass through Expr.__add__, so a negative or zero multiple is stored as it is "
                               "and the normal form (positive coefficients, one polarity per variable) is lost", lineno=c.lineno)
    ctx.require(n >= 2, f"constructions Expr(c, table) fewer than confirmed ({n})")


@rule("C16", "R8.diagram-of-an-inequality", "SHARED(C07)",
      "a built inequality says what the direct comparison says also as a decision diagram: constructrobdd (the construction "
      "Ineq.getrobdd hands the normalised terms to) branches on each term in order, links the taken branch to the 'then' child and "
      "the other to the 'else' child, and shares nodes through the full (variable, then, else) key -- the C07 rules R2 / R3 "
      "evaluated for the function the algebra calls (seeded change C16-9: a 'skip redundant test' shortcut linking both sides "
      "to the then-grandchild)", floor=2)
def shared_diagram(ctx: Ctx) -> None:
    from . import C07 as _c07
    from .common import support
    support(ctx, [_c07.r2, _c07.r3], {"constructrobdd"})
