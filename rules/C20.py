"""C20 -- results do not depend on what the process did before (process-wide state)."""
from __future__ import annotations

import ast

from framelint.core import rule, Ctx
from framelint.srcmodel import walk_own, AnalysisError, ClassInfo
from framelint.canon import (canon_function, show, S, to_poly, mk_lt, mk_not, mk_and, k_num, contains, skey, atoms_of, Sigma, K_TRUE,
                             single_defs, deref, Poly, MUTATOR_METHODS)
from framelint.cfg import ENTRY, EXIT
from .common import (GEOM, NETLIST, DIE, ALLOC, PB, SATM, ETREE, LEGAL, LMODEL, STROP, call_name, norm_stmt, stmt_calls, facts_text)

# the confirmed table of process-wide state: (module, name) -> (allowed writers, why it is tolerated)
EXPECTED = {
    (GEOM, "Rectangle._distance_epsilon"): ({"Rectangle.set_epsilon", "Rectangle.undefine_epsilon"}, "class-wide tolerance, set once by the first design loaded (guarded by epsilon_defined)"),
    (GEOM, "Rectangle._area_epsilon"): ({"Rectangle.set_epsilon", "Rectangle.undefine_epsilon"}, "idem"),
    (PB, "memory"): ({"constructrobdd"}, "append-only canonicity table of ROBDD nodes"),
    (PB, "mmap"): ({"constructrobdd"}, "index of the canonicity table, keyed by the full node triple"),
    (ETREE, "epsilon"): ({"set_epsilon"}, "legaliser slack expression, re-set by every Model construction before any equation is evaluated"),
    (ETREE, "debug_print"): ({"turn_off_flag", "turn_on_flag"}, "debug mask read only by debug()"),
    (ETREE, "named_variables"): (set(), "never written"),
    ("tools/frame_tools.py", "TOOLS"): (set(), "constant registry of the command-line tools, never written"),
    (STROP, "EMPTY_INTERVAL"): (set(), "sentinel Interval(-1, -1): only returned and compared with; no code stores into the fields of any Interval"),
}
MUTABLE_CTORS = {"list", "dict", "set", "deque", "OrderedDict", "defaultdict"}
MEMO_DECORATORS = {"lru_cache", "cache", "cached", "memoize", "memoized"}
IMMUTABLE_CTORS = {"TypeVar", "NamedTuple", "Enum", "Path", "Fraction", "Decimal", "ParamSpec", "NewType", "Literal", "Final"}
from framelint.canon import canon_function as _canon_function_expanded

def canon_function(fi, model=None, opts=None):   # rules of this file match shapes: look through every local
    return _canon_function_expanded(fi, model, opts, expand=True)



def _is_mutable_literal(v) -> bool:
    return isinstance(v, (ast.List, ast.Dict, ast.Set, ast.ListComp, ast.DictComp, ast.SetComp)) or \
        (isinstance(v, ast.Call) and isinstance(v.func, ast.Name) and v.func.id in MUTABLE_CTORS)


def discover_state(ctx: Ctx) -> dict:
    """(module, name) -> set of writer qualnames, for module-level / class-level state of the whole repository"""
    m = ctx.model
    found: dict = {}
    mutable_globals: dict = {}
    mutable_container_keys: set = set()
    for mi in m.modules.values():
        for name, sts in mi.global_assigns.items():
            for st in sts:
                if _is_mutable_literal(getattr(st, "value", None)):
                    found.setdefault((mi.relpath, name), set())
                    mutable_globals.setdefault(mi.relpath, set()).add(name)
                    mutable_container_keys.add((mi.relpath, name))
    for f in m.all_functions():
        mi = f.module
        local_names = {a.arg for a in f.node.args.posonlyargs + f.node.args.args + f.node.args.kwonlyargs}
        for n in walk_own(f.node):
            if isinstance(n, ast.Name) and isinstance(n.ctx, ast.Store):
                local_names.add(n.id)
        declared = set()
        for n in walk_own(f.node):
            if isinstance(n, ast.Global):
                declared |= set(n.names)
        # locals that can be a module-level container under another name
        aliases: dict = {}

        def owners_of(e):
            out_ = set()
            if isinstance(e, ast.Name) and e.id not in local_names and (mi.relpath, e.id) in mutable_container_keys:
                out_.add((mi.relpath, e.id))
            elif isinstance(e, ast.Name) and e.id not in local_names and e.id in mi.imports and "." in mi.imports[e.id]:
                head_, tail_ = mi.imports[e.id].rsplit(".", 1)
                m2_ = m.by_dotted.get(head_)
                if m2_ is not None and (m2_.relpath, tail_) in mutable_container_keys:
                    out_.add((m2_.relpath, tail_))
            elif isinstance(e, ast.IfExp):
                out_ |= owners_of(e.body) | owners_of(e.orelse)
            elif isinstance(e, ast.BoolOp):
                for v_ in e.values:
                    out_ |= owners_of(v_)
            return out_
        a_ = f.node.args
        pos_ = a_.posonlyargs + a_.args
        for p_, d_ in list(zip(pos_[len(pos_) - len(a_.defaults):], a_.defaults)) + [(p2, d2) for p2, d2 in zip(a_.kwonlyargs, a_.kw_defaults) if d2 is not None]:
            saved_ = set(local_names)
            local_names.discard(p_.arg)
            if owners_of(d_):
                aliases.setdefault(p_.arg, set()).update(owners_of(d_))
            local_names.clear(); local_names.update(saved_)
        for n in walk_own(f.node):
            tgt_, val_ = None, None
            if isinstance(n, ast.Assign) and len(n.targets) == 1 and isinstance(n.targets[0], ast.Name):
                tgt_, val_ = n.targets[0].id, n.value
            elif isinstance(n, ast.AnnAssign) and isinstance(n.target, ast.Name) and n.value is not None:
                tgt_, val_ = n.target.id, n.value
            elif isinstance(n, ast.NamedExpr) and isinstance(n.target, ast.Name):
                tgt_, val_ = n.target.id, n.value
            if tgt_ is not None and owners_of(val_):
                aliases.setdefault(tgt_, set()).update(owners_of(val_))
        for n in walk_own(f.node):
            if isinstance(n, ast.Name) and isinstance(n.ctx, ast.Store) and n.id in declared:
                found.setdefault((mi.relpath, n.id), set()).add(f.qualname)
            if isinstance(n, ast.AugAssign) and isinstance(n.target, ast.Name) and n.target.id in declared:
                found.setdefault((mi.relpath, n.target.id), set()).add(f.qualname)
            # class attribute stores  Class.attr = ...
            if isinstance(n, ast.Attribute) and isinstance(n.ctx, (ast.Store, ast.Del)) and isinstance(n.value, ast.Name) and n.value.id not in local_names:
                t = m.resolve_name(mi, n.value.id)
                if isinstance(t, ClassInfo):
                    found.setdefault((t.module.relpath, f"{t.name}.{n.attr}"), set()).add(f.qualname)
            # mutation of a module-level container (own module or imported name)
            root = None
            how = None
            if isinstance(n, ast.Call) and isinstance(n.func, ast.Attribute) and n.func.attr in MUTATOR_METHODS:
                root, how = n.func.value, "call"
            if isinstance(n, ast.Subscript) and isinstance(n.ctx, (ast.Store, ast.Del)):
                root, how = n.value, "store"
            if root is not None:
                while isinstance(root, (ast.Subscript,)):
                    root = root.value
                if isinstance(root, ast.Name) and root.id in aliases:
                    # a local that may be the module-level container itself ('memo = TABLE', 'def f(memo=TABLE)')
                    for owner_ in aliases[root.id]:
                        found.setdefault(owner_, set()).add(f.qualname)
                if isinstance(root, ast.Name) and root.id not in local_names:
                    owner = None
                    if root.id in mi.global_assigns:
                        owner = (mi.relpath, root.id)
                    elif root.id in mi.imports:
                        dotted = mi.imports[root.id]
                        if "." in dotted:
                            head, tail = dotted.rsplit(".", 1)
                            m2 = m.by_dotted.get(head)
                            if m2 is not None and tail in m2.global_assigns:
                                owner = (m2.relpath, tail)
                    if owner is not None:
                        found.setdefault(owner, set()).add(f.qualname)
    # memoising decorators: the cache is process-wide state keyed by the arguments' hash/equality (a Module hashes by name:
    # a later design that reuses a module name gets the earlier design's value)
    for f in m.all_functions():
        for d in getattr(f.node, "decorator_list", []):
            core_ = d.func if isinstance(d, ast.Call) else d
            nm = core_.attr if isinstance(core_, ast.Attribute) else (core_.id if isinstance(core_, ast.Name) else "")
            if nm in MEMO_DECORATORS:
                found.setdefault((f.module.relpath, f"{f.qualname}@{nm}"), set()).add(f.qualname)
    # module-level objects (instances built at import time): every function that calls a method on one or stores into it
    # may change it for all later callers (a YAML loader remembers the %YAML directive of the previous document)
    objs: set = set()
    for mi in m.modules.values():
        for name, sts in mi.global_assigns.items():
            for st in sts:
                v = getattr(st, "value", None)
                if isinstance(v, ast.Call):
                    fn_ = v.func
                    cname = fn_.attr if isinstance(fn_, ast.Attribute) else (fn_.id if isinstance(fn_, ast.Name) else "")
                    if cname[:1].isupper() and cname not in IMMUTABLE_CTORS:
                        found.setdefault((mi.relpath, name), set())
                        objs.add((mi.relpath, name))
    for f in m.all_functions():
        mi = f.module
        locals_ = {a.arg for a in f.node.args.posonlyargs + f.node.args.args + f.node.args.kwonlyargs}
        for n in walk_own(f.node):
            if isinstance(n, ast.Name) and isinstance(n.ctx, ast.Store):
                locals_.add(n.id)
        for n in walk_own(f.node):
            tgt = None
            if isinstance(n, ast.Call) and isinstance(n.func, ast.Attribute) and isinstance(n.func.value, ast.Name):
                tgt = n.func.value.id
            if isinstance(n, ast.Attribute) and isinstance(n.ctx, (ast.Store, ast.Del)) and isinstance(n.value, ast.Name):
                tgt = n.value.id
            if tgt is None or tgt in locals_:
                continue
            owner = None
            if tgt in mi.global_assigns:
                owner = (mi.relpath, tgt)
            elif tgt in mi.imports and "." in mi.imports[tgt]:
                head, tail = mi.imports[tgt].rsplit(".", 1)
                m2 = m.by_dotted.get(head)
                if m2 is not None and tail in m2.global_assigns:
                    owner = (m2.relpath, tail)
            if owner in objs and owner not in mutable_container_keys:
                found[owner].add(f.qualname)
    # class-level mutable attributes (shared by all instances unless re-bound in __init__)
    for mi in m.modules.values():
        for ci in mi.classes.values():
            for name, v in ci.class_assigns.items():
                if _is_mutable_literal(v):
                    found.setdefault((mi.relpath, f"{ci.name}.{name}"), set())
    return found


@rule("C20", "R1.state-inventory", "WHO-WRITES",
      "the inventory of process-wide state of the whole repository (module-level names re-bound through 'global', "
      "module-level containers, class attributes written through the class, class-level mutable attributes) equals the "
      "confirmed table, with the confirmed writers; anything new is state that can leak from one design to the next", floor=8)
def r1(ctx: Ctx) -> None:
    found = discover_state(ctx)
    for key, writers in sorted(found.items()):
        ctx.site(f"{key[0]}::{key[1]}", "process-wide state", writers=sorted(writers), expected=key in EXPECTED)
        if key not in EXPECTED and not writers and "." not in key[1] and "@" not in key[1]:
            continue      # a module-level container / object that nothing writes is a constant, not state
        if key not in EXPECTED:
            ctx.report(f"{key[0]}::{key[1]}", f"new-global-state {key[1]}", f"{key[1]} is process-wide mutable state that is not in the confirmed table "
                       f"(writers: {sorted(writers) or 'none yet'}): a result can depend on what was computed before", lineno=0)
            continue
        extra = writers - EXPECTED[key][0]
        for w in sorted(extra):
            ctx.report(f"{key[0]}::{key[1]}", f"new-writer {w}", f"{w} writes the process-wide state {key[1]} (allowed writers: {sorted(EXPECTED[key][0]) or 'none'})", lineno=0)
    for key in EXPECTED:
        if key not in found:
            ctx.site(f"{key[0]}::{key[1]}", "expected state no longer present (fine)")


@rule("C20", "R2.tolerance-set-once", "GUARD",
      "every call of Rectangle.set_epsilon in library code is dominated by 'not Rectangle.epsilon_defined()' and its "
      "argument is the design's own size times a literal <= 1e-9; undefine_epsilon is never called by library code", floor=3)
def r2(ctx: Ctx) -> None:
    n = 0
    for f in ctx.model.all_functions():
        if not (f.module.relpath.startswith("frame/") or f.module.relpath.startswith("tools/")):
            continue
        has = any(isinstance(c, ast.Call) and isinstance(c.func, ast.Attribute) and c.func.attr in ("set_epsilon", "undefine_epsilon")
                  and isinstance(c.func.value, ast.Name) and c.func.value.id == "Rectangle" for c in walk_own(f.node))
        if not has or (f.cls is not None and f.cls.name == "Rectangle"):
            continue
        g = ctx.cfg(f)
        for node, c, s in stmt_calls(ctx, f):
            if not (isinstance(c.func, ast.Attribute) and isinstance(c.func.value, ast.Name) and c.func.value.id == "Rectangle"):
                continue
            if c.func.attr == "undefine_epsilon":
                n += 1
                ctx.site(f.where, "undefine_epsilon call")
                ctx.report(f.where, "undefine-epsilon", f"{f.qualname} resets the class-wide tolerance: later comparisons of other designs change", lineno=c.lineno)
            if c.func.attr == "set_epsilon":
                n += 1
                facts = g.facts_at(node.id)
                guarded = mk_not(("c", ("a", ("g", "Rectangle"), "epsilon_defined"), (), ())) in facts
                arg = s[2][0] if s is not None and s[2] else None
                scale_ok = False
                if arg is not None:
                    cf = canon_function(f, ctx.model)
                    arg = deref(arg, single_defs(cf))
                    attr_sets = [st for st in atoms_of(cf, lambda x: x[0] == "set" and len(x) == 3 and x[1] == arg)]
                    if len(attr_sets) == 1:        # e.g. self._epsilon = min(w, h) * 1e-11 ; set_epsilon(self._epsilon)
                        arg = deref(attr_sets[0][2], single_defs(cf))
                    p = to_poly(arg)
                    if len(p.t) == 1:
                        (mono, coef), = p.t.items()
                        scale_ok = mono != () and 0 < coef <= __import__("fractions").Fraction(1, 10 ** 9)
                ctx.site(f.where, "set_epsilon guarded by 'not epsilon_defined()' with a relative tolerance <= 1e-9", guarded=guarded,
                         argument=show(arg)[:100] if arg is not None else None, relative=scale_ok)
                if not guarded:
                    ctx.report(f.where, "epsilon-overwritten", f"{f.qualname} sets the class-wide tolerance without testing that it is still undefined: "
                               "loading a second design changes the comparisons of the first", lineno=c.lineno)
                if not scale_ok:
                    ctx.report(f.where, f"epsilon-not-relative {show(arg)[:80] if arg is not None else ''}", f"{f.qualname} sets a tolerance that is not "
                               "(a size of the design) x (a literal <= 1e-9)", lineno=c.lineno)
    ctx.require(n >= 3, f"fewer set_epsilon call sites than confirmed ({n})")


@rule("C20", "R3.mutable-defaults", "EFFECT/ESCAPE",
      "default arguments that are mutable objects (Ineq(lhs=Expr(), rhs=Expr()), Strop(height=list(), width=list()), ...) "
      "are neither mutated nor stored: they are shared by all calls", floor=2)
def r3(ctx: Ctx) -> None:
    eff = ctx.effects()
    n = 0
    for f in ctx.model.all_functions():
        a = f.node.args
        pos = a.posonlyargs + a.args
        pairs = list(zip(pos[len(pos) - len(a.defaults):], a.defaults)) + [(k, d) for k, d in zip(a.kwonlyargs, a.kw_defaults) if d is not None]
        for arg, d in pairs:
            mutable = isinstance(d, (ast.List, ast.Dict, ast.Set)) or (isinstance(d, ast.Call) and not (isinstance(d.func, ast.Name) and d.func.id in
                                                                                                     ("float", "int", "str", "tuple", "frozenset", "bool")))
            if not mutable:
                continue
            n += 1
            mutated = arg.arg in eff.summary.get(f, set())
            escapes = []
            for x in walk_own(f.node):
                if isinstance(x, ast.Assign) and isinstance(x.value, ast.Name) and x.value.id == arg.arg:
                    for t in x.targets:
                        if isinstance(t, (ast.Attribute, ast.Subscript)):
                            escapes.append(x)
                if isinstance(x, ast.Return) and isinstance(x.value, ast.Name) and x.value.id == arg.arg:
                    escapes.append(x)
            ctx.site(f.where, f"mutable default '{arg.arg}={ast.unparse(d)}' neither mutated nor stored", mutated=mutated, escapes=len(escapes))
            if mutated:
                hows = sorted({m.how for m in eff.mutations(f, arg.arg)})
                ctx.report(f.where, f"default-mutated {arg.arg}", f"{f.qualname} mutates its shared default argument {arg.arg}={ast.unparse(d)} ({'; '.join(hows[:2])})",
                           lineno=f.node.lineno)
            for e in escapes:
                ctx.report(f.where, f"default-escapes {arg.arg}: {norm_stmt(e)[:60]}", f"{f.qualname} stores / returns its shared default argument {arg.arg}: "
                           "later mutation through the stored reference affects every later call", lineno=e.lineno)
    ctx.require(n >= 4, f"fewer mutable defaults than confirmed ({n})")


@rule("C20", "R5.legaliser-epsilon", "MUST-PRECEDE",
      "every Model construction (re)defines the legaliser-wide slack before any equation is created or evaluated; the "
      "debug mask is read only by debug()", floor=2)
def r5(ctx: Ctx) -> None:
    f = ctx.func(LEGAL, "Model.first_build_model")
    g = ctx.cfg(f)

    def defines(n) -> bool:
        return n.kind == "stmt" and any(isinstance(c, ast.Call) and call_name(c) in ("define_time", "set_epsilon") for c in ast.walk(n.ast))
    users = []
    for n in g.stmt_nodes():
        roots = [n.ast] if n.kind == "stmt" else ([n.ast.test] if n.kind == "test" else [n.ast.iter])
        for r in roots:
            for c in ast.walk(r):
                if isinstance(c, ast.Call) and call_name(c) in ("Equation", "add_constraint", "build_model", "add_rect", "define_module", "fix", "apply_objective_function"):
                    users.append(n)
    ctx.require(len(users) >= 5, "first_build_model: equation-building statements not found")
    bad = [n for n in users if not g.must_pass(defines, ENTRY, n.id)]
    ctx.site(f.where, "slack (epsilon) defined before every equation-building statement", statements=len(users), unguarded=len(bad))
    for n in bad[:3]:
        ctx.report(f.where, f"equation-before-epsilon {norm_stmt(n.ast)[:70]}", "an equation is built before this model defined the legaliser-wide slack: "
                   "it would be evaluated with the slack left behind by the previous model", lineno=n.lineno)
    dt = ctx.func(LEGAL, "Model.define_time")
    ctx.site(dt.where, "define_time sets the slack")
    if not any(isinstance(c, ast.Call) and call_name(c) == "set_epsilon" for c in walk_own(dt.node)):
        ctx.report(dt.where, "define-time-no-epsilon", "Model.define_time no longer sets the slack expression", lineno=dt.node.lineno)
    init = ctx.func(LEGAL, "Model.__init__")
    gi = ctx.cfg(init)
    ctx.site(init.where, "every Model construction runs first_build_model")
    if not gi.must_pass(lambda n: n.kind == "stmt" and any(isinstance(c, ast.Call) and call_name(c) == "first_build_model" for c in ast.walk(n.ast)), ENTRY, EXIT):
        ctx.report(init.where, "model-without-build", "a Model can be constructed without (re)building its equations and slack", lineno=init.node.lineno)
    readers = []
    for fn in ctx.model.all_functions():
        if fn.module.relpath != ETREE:
            continue
        for n in walk_own(fn.node):
            if isinstance(n, ast.Name) and n.id == "debug_print" and isinstance(n.ctx, ast.Load):
                readers.append(fn.qualname)
    ctx.site(ETREE, "readers of the debug mask", readers=sorted(set(readers)))
    for r in sorted(set(readers) - {"debug", "turn_off_flag", "turn_on_flag"}):
        ctx.report(ETREE + "::" + r, f"debug-mask-read {r}", f"{r} reads the debug mask: a result may depend on flags left by an earlier run", lineno=0)


@rule("C20", "R6.own-tolerance", "DATAFLOW",
      "the tolerance an object keeps for its own acceptance checks (Die._epsilon) is computed from that object's own size "
      "and never read back from the process-wide tolerance, which belongs to whichever design was loaded first", floor=1)
def r6(ctx: Ctx) -> None:
    n = 0
    for f in ctx.model.all_functions():
        if not f.module.relpath.startswith("frame/"):
            continue
        for st in walk_own(f.node):
            if isinstance(st, (ast.Assign, ast.AnnAssign)):
                tgts = st.targets if isinstance(st, ast.Assign) else [st.target]
                for t in tgts:
                    if isinstance(t, ast.Attribute) and isinstance(t.value, ast.Name) and t.value.id == "self" and "epsilon" in t.attr.lower() and st.value is not None:
                        n += 1
                        reads_global = [x for x in ast.walk(st.value) if isinstance(x, ast.Attribute) and x.attr in ("distance_epsilon", "area_epsilon", "_distance_epsilon", "_area_epsilon")]
                        own = [x for x in ast.walk(st.value) if isinstance(x, ast.Attribute) and isinstance(x.value, ast.Name) and x.value.id == "self"]
                        ctx.site(f.where, "own tolerance derived from own size", stmt=norm_stmt(st)[:90], reads_process_wide=len(reads_global), reads_own=len(own))
                        if reads_global or not own:
                            ctx.report(f.where, f"tolerance-from-global {norm_stmt(st)[:80]}", f"{f.qualname} takes its own tolerance from the process-wide one (set by the first design "
                                       "loaded in the process): the accept/reject verdict for this object depends on what was loaded before", lineno=st.lineno)
    ctx.require(n >= 1, "no object-level tolerance found (Die._epsilon expected)")
