"""C19 -- every document FRAME produces is accepted back and says the same thing."""
from __future__ import annotations

import ast

from framelint.core import rule, Ctx
from framelint.srcmodel import walk_own, AnalysisError
from framelint.canon import (canon_function, show, S, to_poly, mk_lt, mk_and, mk_or, mk_not, mk_eq, k_num, k_str, contains,
                             skey, atoms_of, Sigma, K_TRUE, K_FALSE, K_NONE)
from framelint.cfg import possibly_unassigned
from framelint.schema import dict_stores, template_keys, attr_reads
from .common import (GEOM, DIE, ALLOC, NETLIST, MODULE, YREAD, YWRITE, UTILS, KEYWORDS, NETGEN, FSMAN, RECTIO, LEGAL,
                     PARSE_DIE, exit_facts, call_name, norm_stmt, kw_value)
from .C04 import reader_keys

FS_KEYWORDS = "tools/floorset_parser/floor_set_manager/utils/keywords.py"
from framelint.canon import canon_function as _canon_function_expanded

def canon_function(fi, model=None, opts=None):   # rules of this file match shapes: look through every local
    return _canon_function_expanded(fi, model, opts, expand=True)



def _all_attr_loads(f, ctx=None) -> set[str]:
    """attributes read by f -- and by the helpers it calls that the reference tree does not have (what was one function may
    have been cut into several)"""
    out = {n.attr for n in walk_own(f.node) if isinstance(n, ast.Attribute) and isinstance(n.ctx, ast.Load)}
    if ctx is not None:
        from framelint.srcmodel import _reference_functions
        ref = _reference_functions() or set()
        seen, todo = {f.where}, [f]
        while todo:
            g = todo.pop()
            for c in walk_own(g.node):
                if isinstance(c, ast.Call):
                    try:
                        callees = ctx.model.resolve_call(g, c)
                    except Exception:
                        callees = []
                    for h in callees:
                        if h.where not in seen and h.where not in ref and len(callees) == 1:
                            seen.add(h.where)
                            todo.append(h)
                            out |= {n.attr for n in walk_own(h.node) if isinstance(n, ast.Attribute) and isinstance(n.ctx, ast.Load)}
    return out


@rule("C19", "R1.producer-keys", "SCHEMA",
      "every key a producer can emit is accepted by the corresponding reader: die writer, netlist generator, FloorSet "
      "converter (including its private copy of the keyword table), and the string-built netlists of the "
      "normalisation and legalisation stages", floor=8)
def r1(ctx: Ctx) -> None:
    rk = reader_keys(ctx)
    top = {kw_value(ctx, "KW_MODULES"), kw_value(ctx, "KW_NETS")}
    # die writer
    fd = ctx.func(DIE, "Die.write_yaml")
    cd = canon_function(fd, ctx.model)
    die_keys = {k[2] for d in atoms_of(cd, lambda x: x[0] == "dict") for k, v in d[1] if k[0] == "k" and k[1] == "str"}
    die_keys |= {k[2] for k, v, conds in dict_stores(cd) if k[0] == "k" and k[1] == "str"}
    die_reader = {kw_value(ctx, k) for k in ["KW_WIDTH", "KW_HEIGHT", "KW_REGIONS"]}
    ctx.site(fd.where, "die writer keys accepted by the die reader", keys=sorted(die_keys))
    if not die_keys or not die_keys <= die_reader or not {kw_value(ctx, "KW_WIDTH"), kw_value(ctx, "KW_HEIGHT")} <= die_keys:
        ctx.report(fd.where, "die-keys " + " ".join(sorted(die_keys)), "Die.write_yaml does not emit width/height (+regions) only", lineno=fd.node.lineno)
    # the FloorSet converter has its own keyword table: every constant must equal FRAME's
    mk, mf = ctx.model.module(KEYWORDS), ctx.model.module(FS_KEYWORDS)
    n_same = 0
    for name in sorted(mf.global_assigns):
        if not name.startswith("KW_"):
            continue
        a, b = ctx.model.global_constant(mf, name), ctx.model.global_constant(mk, name)
        n_same += 1
        if a != b:
            ctx.report(FS_KEYWORDS + "::" + name, f"keyword-drift {name}={a!r} vs {b!r}", f"the FloorSet copy of {name} differs from frame.utils.keywords", lineno=0)
    ctx.site(FS_KEYWORDS, "FloorSet keyword table equals frame.utils.keywords", constants=n_same)
    ctx.require(n_same >= 15, "FloorSet keyword table smaller than confirmed")
    # FloorSet module entries
    fp = ctx.func(FSMAN, "FloorSetInstance._parse_modules")
    cp = canon_function(fp, ctx.model)
    fs_keys = {k[2] for k, v, conds in dict_stores(cp) if k[0] == "k" and k[1] == "str"}
    ctx.site(fp.where, "FloorSet module keys accepted by the netlist reader", keys=sorted(fs_keys))
    ctx.require(len(fs_keys) >= 5, "FloorSet converter: module keys not found")
    for k in sorted(fs_keys - rk):
        ctx.report(fp.where, f"floorset-key {k}", f"the FloorSet converter emits the module attribute '{k}' which the netlist reader refuses", lineno=fp.node.lineno)
    ff = ctx.func(FSMAN, "FloorSetInstance.write_yaml_FPEF")
    cf = canon_function(ff, ctx.model)
    keys = {k[2] for d in atoms_of(cf, lambda x: x[0] == "dict") for k, v in d[1] if k[0] == "k" and k[1] == "str"}
    ctx.site(ff.where, "FloorSet netlist has the Modules and Nets sections", keys=sorted(keys))
    if keys != top:
        ctx.report(ff.where, "floorset-top " + " ".join(sorted(keys)), "write_yaml_FPEF does not emit exactly Modules and Nets", lineno=ff.node.lineno)
    fdie = ctx.func(FSMAN, "FloorSetInstance.write_yaml_DIEF")
    cdi = canon_function(fdie, ctx.model)
    keys = {k[2] for d in atoms_of(cdi, lambda x: x[0] == "dict") for k, v in d[1] if k[0] == "k" and k[1] == "str"}
    ctx.site(fdie.where, "FloorSet die has width and height", keys=sorted(keys))
    if keys != {kw_value(ctx, "KW_WIDTH"), kw_value(ctx, "KW_HEIGHT")}:
        ctx.report(fdie.where, "floorset-die " + " ".join(sorted(keys)), "write_yaml_DIEF does not emit exactly width and height", lineno=fdie.node.lineno)
    # netgen
    gens = [f for f in ctx.model.all_functions() if f.module.relpath == NETGEN and f.name.startswith("gen_")]
    ctx.require(len(gens) >= 8, "netgen: generator functions not found")
    for f in sorted(gens, key=lambda f: f.where):
        c = canon_function(f, ctx.model)
        keys = set()
        for d in atoms_of(c, lambda x: x[0] == "dict"):
            for k, v in d[1]:
                if k[0] == "k" and k[1] == "str":
                    keys.add(k[2])
        for k, v, conds in dict_stores(c):
            if k[0] == "k" and k[1] == "str":
                keys.add(k[2])
        bad = keys - rk - top
        ctx.site(f.where, "generator keys accepted by the netlist reader", keys=sorted(keys))
        for k in sorted(bad):
            ctx.report(f.where, f"netgen-key {k}", f"{f.qualname} emits '{k}' which the netlist reader refuses", lineno=f.node.lineno)
    # string-built netlists
    for rel, q in [(RECTIO, "solution_to_netlist"), (RECTIO, "get_netlist"), (LEGAL, "Model.get_netlist")]:
        f = ctx.func(rel, q)
        tk = template_keys(f)
        ctx.site(f.where, "keys in the string templates are accepted by the netlist reader", keys=sorted(tk))
        ctx.require(len(tk) >= 3, f"{q}: template keys not found")
        for k in sorted(set(tk) - rk - top):
            ctx.report(f.where, f"template-key {k}", f"{q} can emit '{k}:' which the netlist reader refuses", lineno=f.node.lineno)
        # boolean flags must be spelled as YAML booleans
        for k, lits in tk.items():
            if k in (kw_value(ctx, "KW_HARD"), kw_value(ctx, "KW_FIXED"), kw_value(ctx, "KW_TERMINAL"), kw_value(ctx, "KW_FLIP")):
                for lit in lits:
                    import re
                    for m_ in re.finditer(k + r"\s*:\s*(\w+)", lit):
                        if m_.group(1) not in ("true", "True", "yes"):
                            ctx.report(f.where, f"template-flag {k}: {m_.group(1)}", f"{q} writes the flag {k} with a non-boolean value", lineno=f.node.lineno)


@rule("C19", "R2.re-emitters-read-all", "SCHEMA",
      "a stage that re-emits a design it was given reads every attribute that the netlist format can carry (module "
      "kind flags, per-region areas, aspect ratio, centre, rectangles; members and weight of every net)", floor=2)
def r2(ctx: Ctx) -> None:
    need_module = {"name": "module name", "rectangles": "rectangles", "center": "centre", "is_hard": "hard flag", "is_fixed": "fixed flag",
                   "is_terminal": "terminal flag", "flip": "flip flag", "aspect_ratio": "aspect ratio"}
    f = ctx.func(RECTIO, "solution_to_netlist")
    reads = _all_attr_loads(f, ctx)
    ctx.site(f.where, "normalisation stage reads all module / net attributes", reads=sorted(reads))
    missing = [v for k, v in need_module.items() if k not in reads]
    if "area_regions" not in reads:
        missing.append("per-region areas")
    if "weight" not in reads:
        missing.append("net weight")
    if missing:
        ctx.report(f.where, "reemit-drops " + ", ".join(sorted(missing)),
                   "solution_to_netlist rebuilds the netlist document without reading: " + ", ".join(sorted(missing)) +
                   " -- these attributes of the input design are silently lost", lineno=f.node.lineno)
    g = ctx.func(LEGAL, "Model.get_netlist")
    # the legaliser keeps nets as (weight, members): element 0 must be read when the nets are written
    subs = [n for n in walk_own(g.node) if isinstance(n, ast.Subscript) and isinstance(n.value, ast.Subscript)
            and isinstance(n.value.value, ast.Attribute) and n.value.value.attr == "hyper"]
    idx = set()
    for s_ in subs:
        if isinstance(s_.slice, ast.Constant):
            idx.add(s_.slice.value)
    ctx.site(g.where, "legaliser re-emits both components (weight, members) of every net", components_read=sorted(idx))
    ctx.require(1 in idx, "Model.get_netlist: net member access not found")
    if 0 not in idx:
        ctx.report(g.where, "reemit-drops net weight", "Model.get_netlist writes the nets without their weight (self.hyper[i][0] is never read): "
                   "every weighted net comes back with weight 1", lineno=g.node.lineno)


@rule("C19", "R3.producers-pure", "PURE",
      "producing a document never modifies the object it is produced from", floor=7)
def r3(ctx: Ctx) -> None:
    eff = ctx.effects()
    allow = {"_total_area", "_area_rectangles", "_rectangles_cache"}
    targets = [(DIE, "Die.write_yaml"), (ALLOC, "Allocation.write_yaml"), (YWRITE, "dump_yaml_namededges"),
               (FSMAN, "FloorSetInstance.write_yaml_FPEF"), (FSMAN, "FloorSetInstance.write_yaml_DIEF"),
               (RECTIO, "solution_to_netlist"), (LEGAL, "Model.get_netlist"), (NETLIST, "Netlist.write_yaml"), (UTILS, "write_yaml")]
    for rel, q in targets:
        f = ctx.func(rel, q)
        fields = eff.fields.get(f, {})
        bad = sorted((p, fl) for p, fs in fields.items() for fl in fs if fl not in allow)
        ctx.site(f.where, "producer has no effect on its inputs", written={p: sorted(fs) for p, fs in fields.items()})
        for p, fl in bad:
            hows = sorted({m.how for m in eff.mutations(f, p) if fl in m.fields})
            ctx.report(f.where, f"producer-mutates {p}.{fl}", f"{q} modifies its input '{p}' ({'; '.join(hows[:2])}): producing the document twice gives different documents",
                       lineno=f.node.lineno)


@rule("C19", "R4.definite-assignment", "DEFASSIGN",
      "in the producers every local that is written into a document is assigned on every path of the current loop "
      "iteration (no stale value from a previous item, no NameError)", floor=6)
def r4(ctx: Ctx) -> None:
    # one exception, named by role: the centroid local of _parse_modules (the one assigned from compute_centroid) is unassigned only for
    # a block without any vertex row, which is not a FloorSet block (source comment: 'This should never happen')
    fpm = ctx.func(FSMAN, "FloorSetInstance._parse_modules")
    centroid = {t.id for st in walk_own(fpm.node) if isinstance(st, ast.Assign) and isinstance(st.value, ast.Call) and call_name(st.value) == "compute_centroid"
                for t in st.targets if isinstance(t, ast.Name)}
    # ... the same local named by what it is used for: the point whose coordinates are written as the module's centre
    for st in walk_own(fpm.node):
        if isinstance(st, ast.Assign) and len(st.targets) == 1 and isinstance(st.targets[0], ast.Subscript) and isinstance(st.value, (ast.List, ast.Tuple)) \
                and len(st.value.elts) == 2 and all(isinstance(e, ast.Attribute) and isinstance(e.value, ast.Name) for e in st.value.elts) \
                and [e.attr for e in st.value.elts] == ["x", "y"] and st.value.elts[0].value.id == st.value.elts[1].value.id \
                and ast.unparse(st.targets[0].slice).strip("'\"") in ("KW_CENTER", kw_value(ctx, "KW_CENTER")):
            centroid.add(st.value.elts[0].value.id)
    allow = {("FloorSetInstance._parse_modules", nm) for nm in centroid}
    targets = [(FSMAN, "FloorSetInstance._parse_modules"), (FSMAN, "FloorSetInstance._parse_connections"), (RECTIO, "solution_to_netlist"),
               (RECTIO, "get_netlist"), (LEGAL, "Model.get_netlist"), (DIE, "Die.write_yaml"), (ALLOC, "Allocation.write_yaml")]
    targets += [(NETGEN, f.qualname) for f in ctx.model.all_functions() if f.module.relpath == NETGEN and f.name.startswith("gen_")]
    for rel, q in targets:
        f = ctx.func(rel, q)
        res = possibly_unassigned(ctx.cfg(f))
        names = sorted({nm for _, nm in res})
        ctx.site(f.where, "locals definitely assigned within the iteration", possibly_unassigned=names)
        for nm in names:
            if (q, nm) in allow:
                continue
            n = [x for x, y in res if y == nm][0]
            ctx.report(f.where, f"possibly-unassigned {nm}", f"{q}: '{nm}' is read although it is assigned only on some branches of the current iteration: "
                       "the document gets a stale value from the previous item (or a NameError is raised for the first one)", lineno=n.lineno)


def _edge_min_names(e: S) -> int:
    """minimum number of module names in an edge expression (list literal / comprehension)"""
    if e[0] == "list":
        return sum(1 for x in e[1] if contains(x, ("g", "module_name")) or (x[0] in ("v", "u", "b") ))
    return 0


@rule("C19", "R5.generated-nets", "LEN",
      "every net the generator writes has at least two member names (fixed-length list literals are counted; the "
      "one-net topology is a single net over all n modules and is defined for n >= 2)", floor=8)
def r5(ctx: Ctx) -> None:
    gens = [f for f in ctx.model.all_functions() if f.module.relpath == NETGEN and f.name.startswith("gen_") and f.name != "gen_modules"]
    n_edges = 0
    for f in sorted(gens, key=lambda f: f.where):
        c = canon_function(f, ctx.model)
        # edge constructors: list literals containing module names, as comprehension bodies, list elements or append arguments
        lits = [l for l in atoms_of(c, lambda x: x[0] == "list" and len(x) == 2 and x[1] and
                                    any(contains(y, ("g", "module_name")) or (isinstance(y, tuple) and y[0] in ("v",)) for y in x[1]))
                if not any(isinstance(y, tuple) and y[0] in ("list", "comp") for y in l[1])]
        for l in lits:
            names = [y for y in l[1] if not (to_poly(y).is_const()) and not (y[0] == "p") and not (y[0] == "poly" and not contains(y, "module_name") and not contains(y, "v"))]
            # weights are parameters ('p') or numbers; names are module_name(...) calls or name variables
            cnt = sum(1 for y in l[1] if contains(y, ("g", "module_name")) or y[0] == "v")
            n_edges += 1
            ctx.site(f.where, "net literal has >= 2 member names", net=show(l)[:100], names=cnt)
            if cnt < 2:
                ctx.report(f.where, f"short-net {show(l)[:100]}", f"{f.qualname} writes a net with fewer than two members", lineno=f.node.lineno)
    ctx.require(n_edges >= 12, f"netgen: fewer net literals than confirmed ({n_edges})")


@rule("C19", "R6.die-allocation-tables", "SCHEMA",
      "the die writer lists blockages and specialised regions as (x, y, w, h, tag) from width/height of the die itself; "
      "the allocation writer lists every cell as [descriptor, map, depth] and omits the depth exactly when it is the "
      "reader's default 0", floor=4)
def r6(ctx: Ctx) -> None:
    fd = ctx.func(DIE, "Die.write_yaml")
    cd = canon_function(fd, ctx.model)
    s_ = ("self",)
    src = (to_poly(("a", s_, "blockages")) + to_poly(("a", s_, "specialized_regions"))).to_s()
    loops = [lp for lp in cd if lp[0] == "for"]
    ctx.site(fd.where, "regions written = vector_spec of all blockages and specialised regions")
    ok = len(loops) == 1 and loops[0][2] == src and len(loops[0][3]) == 1 and contains(loops[0][3], ("a", loops[0][1], "vector_spec")) and contains(loops[0][3], "append")
    if not ok:
        ctx.report(fd.where, "die-regions", "Die.write_yaml does not list vector_spec of every blockage and specialised region", lineno=fd.node.lineno)
    ctx.site(fd.where, "width / height written from the die")
    dicts = atoms_of(cd, lambda x: x[0] == "dict")
    want = {(k_str(kw_value(ctx, "KW_WIDTH")), ("a", s_, "width")), (k_str(kw_value(ctx, "KW_HEIGHT")), ("a", s_, "height"))}
    if not any(set(d[1]) == want for d in dicts):
        ctx.report(fd.where, "die-size", "Die.write_yaml does not write width: self.width, height: self.height", lineno=fd.node.lineno)
    fa = ctx.func(ALLOC, "Allocation.write_yaml")
    ca = canon_function(fa, ctx.model)
    comps = atoms_of(ca, lambda x: x[0] == "comp" and x[1] == "list")
    ctx.site(fa.where, "every cell written as [vector_spec, map, depth]; depth omitted iff 0")
    ok = False
    for cp in comps:
        b, it, cond = cp[3][0]
        if it == ("a", s_, "allocations") and cond == K_TRUE and len(cp[3]) == 1:
            full = ("list", (("a", ("a", b, "rect"), "vector_spec"), ("a", b, "alloc"), ("a", b, "depth")))
            short = ("list", (("a", ("a", b, "rect"), "vector_spec"), ("a", b, "alloc")))
            body = cp[2][0]
            if body == ("ite", mk_lt(k_num(0), ("a", b, "depth")), full, short) or body == full or \
                    body == ("ite", mk_eq(("a", b, "depth"), k_num(0)), short, full):
                ok = True
    if not ok:
        ctx.report(fa.where, "allocation-table", "Allocation.write_yaml does not write [vector_spec, alloc, depth] (depth omitted only when 0) for every cell", lineno=fa.node.lineno)
    fr = ctx.func(ALLOC, "Allocation._parse_yaml_tree")
    cr = canon_function(fr, ctx.model)
    ctx.site(fr.where, "allocation reader: default depth 0, 2..3 entries per cell")
    ites = atoms_of(cr, lambda x: x[0] == "ite" and k_num(0) in (x[2], x[3]) and contains(x[1], "len"))
    if not ites:
        ctx.report(fr.where, "allocation-default-depth", "the allocation reader's default depth is not 0", lineno=fr.node.lineno)


from . import C04 as _c04


@rule("C19", "R7.netlist-writer", "SHARED(C04)",
      "the canonical netlist writer (one of the documents FRAME produces) emits every key the reader accepts, keeps "
      "per-region areas, and its kind flags decode to the same kind -- the C04 rules R1, R2, R4 evaluated for C19", floor=8)
def r7(ctx: Ctx) -> None:
    _c04.r1(ctx)
    _c04.r2(ctx)
    _c04.r4(ctx)
    _c04.yaml_emitter_keeps_order(ctx)     # die and allocation documents go through the same sink
    from .common import support
    # nets and weights say the same thing when read back: the weight is emitted as the number it is (seeded change C19-9)
    support(ctx, [_c04.r8], {"dump_yaml_edges"})


@rule("C19", "R8.stage-kind-flags", "CCP-TABLE",
      "the netlist the normalisation stage writes as text keeps the kind of every module: for each consistent kind (soft, "
      "hard, hard+flip, fixed, terminal, fixed terminal) the flags appended by solution_to_netlist (partial evaluation "
      "of its module loop) are decoded by the Module constructor to the same kind, and are accepted together", floor=6)
def r8(ctx: Ctx) -> None:
    import re
    from framelint.peval import peval_block
    f = ctx.func(RECTIO, "solution_to_netlist")
    c = canon_function(f, ctx.model)
    loops = [lp for lp in c if lp[0] == "for" and len(lp) == 5 and lp[2] == ("a", ("p", 0), "modules")]
    ctx.require(len(loops) == 1, "solution_to_netlist: loop over the modules not found")
    mod = loops[0][1]
    kinds = [
        ("soft", dict(hard=False, fixed=False, terminal=False, flip=False)),
        ("hard", dict(hard=True, fixed=False, terminal=False, flip=False)),
        ("hard flippable", dict(hard=True, fixed=False, terminal=False, flip=True)),
        ("fixed", dict(hard=True, fixed=True, terminal=False, flip=False)),
        ("terminal", dict(hard=True, fixed=False, terminal=True, flip=False)),
        ("fixed terminal", dict(hard=True, fixed=True, terminal=True, flip=False)),
    ]
    for name, val in kinds:
        env = {("a", mod, "is_hard"): K_TRUE if val["hard"] else K_FALSE, ("a", mod, "is_fixed"): K_TRUE if val["fixed"] else K_FALSE,
               ("a", mod, "is_terminal"): K_TRUE if val["terminal"] else K_FALSE, ("a", mod, "flip"): K_TRUE if val["flip"] else K_FALSE,
               ("a", mod, "is_soft"): K_FALSE if val["hard"] else K_TRUE}
        res = peval_block(loops[0][3], env)
        texts = [x[2] for x in atoms_of(res, lambda x: len(x) == 3 and x[0] == "k" and x[1] == "str")]
        flags = set()
        for t in texts:
            flags |= set(re.findall(r"\b(fixed|terminal|hard|flip)\s*:\s*true", t))
        back = _c04._decode_flags(ctx, flags)
        ctx.site(f.where, f"kind '{name}' survives the text netlist", emitted=sorted(flags), decoded=back)
        if back != val:
            diff = sorted(k for k in val if back.get(k) != val[k]) if "refused" not in back else ["refused:" + back["refused"]]
            ctx.report(f.where, f"stage-kind-lost {name}: {','.join(diff)}", f"a {name} module is written by the normalisation stage with flags {sorted(flags)} and "
                       f"read back as {back}", lineno=f.node.lineno)


@rule("C19", "R9.generated-names", "SIBLING/CCP",
      "the nets of every generated topology name modules that the same generator declares: a generator that asks "
      "gen_modules for a chain (no column count) names modules with one index, one that passes a column count names them "
      "with two; gen_modules declares one-index names exactly when the column count is not positive (partial evaluation "
      "of its test at 0, 1, 2, 3, 1000), so every grid size -- one column included -- gets two-index names", floor=8)
def r9(ctx: Ctx) -> None:
    from framelint.peval import fold
    from framelint.canon import subst
    gm = ctx.func(NETGEN, "gen_modules")
    cg = canon_function(gm, ctx.model)
    cols = ("p", gm.params().index("columns"))
    chain_ifs = [st for st in cg if st[0] == "if" and contains(st[1], cols) and st[2] and st[2][-1][0] == "ret"]
    ctx.require(len(chain_ifs) == 1, "gen_modules: the chain / grid test on the column count was not found")
    st = chain_ifs[0]
    rest = tuple(x for x in cg if x is not st)

    def arities(block):
        return {len(x[2]) for x in atoms_of(block, lambda x: x[0] == "c" and x[1] == ("g", "module_name"))}
    # the conditional is stored with its positive test: find which arm declares the one-index names
    if arities(st[2]) == {1} and arities(rest) == {2}:
        chain_cond = st[1]
    elif arities(st[2]) == {2} and arities(rest) == {1}:
        chain_cond = mk_not(st[1])
    else:
        raise AnalysisError("gen_modules: the two naming branches were not recognised")
    table = {k: fold(subst(chain_cond, {cols: k_num(k)})) for k in (0, 1, 2, 3, 1000)}
    ctx.site(gm.where, "one-index (chain) names exactly when columns <= 0", table={k: show(v) for k, v in table.items()})
    if table[0] != K_TRUE or any(table[k] != K_FALSE for k in (1, 2, 3, 1000)):
        ctx.report(gm.where, "chain-test " + show(chain_cond), "gen_modules declares one-index names for a positive column count (or two-index names for a chain): the "
                   "nets of that topology/size name modules that are not declared, and the reader refuses the document", lineno=gm.node.lineno,
                   table={k: show(v) for k, v in table.items()})
    dflt = dict(zip([a.arg for a in gm.node.args.args][len(gm.node.args.args) - len(gm.node.args.defaults):], gm.node.args.defaults))
    d = dflt.get("columns")
    ctx.site(gm.where, "the column count defaults to 0 (a chain)", default=ast.unparse(d) if d is not None else None)
    if not (isinstance(d, ast.Constant) and d.value == 0):
        ctx.report(gm.where, "chain-default", "gen_modules does not default to a chain (columns = 0)", lineno=gm.node.lineno)
    gens = [f for f in ctx.model.all_functions() if f.module.relpath == NETGEN and f.name.startswith("gen_") and f.name != "gen_modules"]
    for f in sorted(gens, key=lambda f: f.where):
        c = canon_function(f, ctx.model)
        decl = atoms_of(c, lambda x: x[0] == "c" and x[1] == ("g", "gen_modules"))
        names = atoms_of(c, lambda x: x[0] == "c" and x[1] == ("g", "module_name"))
        if not decl:
            continue      # helper generators that only build nets (their caller declares the modules)
        arities = {len(x[2]) for x in names}
        with_cols = any(len(x[2]) >= 3 or "columns" in dict(x[3]) for x in decl)
        want = {2} if with_cols else {1}
        ctx.site(f.where, "net member names have the arity of the declared module names", declared="two-index" if with_cols else "one-index", used=sorted(arities))
        if names and arities != want:
            ctx.report(f.where, f"name-arity {sorted(arities)}", f"{f.qualname} names net members with {sorted(arities)} indices but declares "
                       f"{'two' if with_cols else 'one'}-index modules", lineno=f.node.lineno)


@rule("C19", "R10.floorset-shapes", "SHARED(C15)",
      "the rectangles the FloorSet converter writes for a polygonal block are the block's decomposition: the run extraction of the "
      "branch histograms and the validity count of StropInstance (the C15 rules evaluated for the decomposition the converter calls)", floor=4)
def shared_strop(ctx: Ctx) -> None:
    from . import C15 as _c15
    from .common import support
    support(ctx, [_c15.r7_runs, _c15.r4], {"StropInstance.__init__"})


@rule("C19", "R11.converter-kinds-exclusive", "SCHEMA",
      "the FloorSet converter never writes a module that the reader refuses for its kind: 'hard' and 'fixed' are stored in the module's "
      "mapping only under conditions that exclude each other (the reader asserts that a module is not both), and a mapping that gets "
      "'terminal' gets neither", floor=2)
def r11_kinds(ctx: Ctx) -> None:
    from .common import FSMAN
    f = ctx.func(FSMAN, "FloorSetInstance._parse_modules")
    c = canon_function(f, ctx.model)
    kh, kf, kt = k_str(kw_value(ctx, "KW_HARD")), k_str(kw_value(ctx, "KW_FIXED")), k_str(kw_value(ctx, "KW_TERMINAL"))
    by_dict: dict = {}
    # every store  d[key] = v  with the conditions it is under, grouped by the mapping d
    # (a mapping is made afresh in every iteration: the stores of different loops concern different mappings, whatever the local is called)
    def walk(stmts, conds, loop):
        for k_, st in enumerate(stmts):
            if st[0] == "set" and len(st) == 3 and isinstance(st[1], tuple) and st[1][:1] == ("s",) and st[1][2] in (kh, kf, kt):
                by_dict.setdefault((loop, st[1][1]), []).append((st[1][2], conds))
            elif st[0] == "if" and len(st) == 4:
                walk(st[2], conds + (st[1],), loop)
                walk(st[3], conds + (mk_not(st[1]),), loop)
            elif st[0] in ("for", "while"):
                walk(st[3], conds, loop + (k_,))
    walk(c, (), ())
    n = 0

    def exclusive(c1, c2) -> bool:
        return any(mk_not(a) in c2 for a in c1) or any(mk_not(b) in c1 for b in c2)
    for d, stores in by_dict.items():
        for i, (k1, c1) in enumerate(stores):
            for k2, c2 in stores[i + 1:]:
                if k1 == k2:
                    continue
                n += 1
                ok = exclusive(c1, c2)
                ctx.site(f.where, f"{k1[2]} and {k2[2]} never stored in the same mapping", exclusive=ok)
                if not ok:
                    ctx.report(f.where, f"kinds-together {k1[2]}+{k2[2]}", f"_parse_modules can store both '{k1[2]}' and '{k2[2]}' in the mapping of one module: the "
                               "netlist reader refuses such a module (a module is soft, hard, fixed or a terminal -- one of them), so the converted design "
                               "cannot be loaded", lineno=f.node.lineno)
    ctx.require(n >= 1, "_parse_modules: the stores of the module kinds were not found")
