"""C13 -- force-directed relocation: fixed modules stay, centres stay in the die, nothing but centres changes."""
from __future__ import annotations

import ast

from framelint.core import rule, Ctx
from framelint.srcmodel import walk_own, AnalysisError
from framelint.canon import (canon_function, show, S, to_poly, mk_lt, mk_not, k_num, contains, skey, atoms_of, Sigma, K_TRUE,
                             single_defs, deref, Poly)
from framelint.cfg import ENTRY, EXIT
from .common import FORCE, sigma_xy, call_name, norm_stmt, stmt_calls, facts_text

NONDET_CALLS = {"random", "uniform", "gauss", "randint", "choice", "shuffle", "sample", "time", "perf_counter", "monotonic",
                "urandom", "uuid4", "now", "getrandbits", "seed"}
from framelint.canon import canon_function as _canon_function_expanded

def canon_function(fi, model=None, opts=None):   # rules of this file match shapes: look through every local
    return _canon_function_expanded(fi, model, opts, expand=True)



def _position_writes(ctx: Ctx, f):
    """(cfg node, what, index-or-module expression S) for every write of a position / centre in f"""
    g = ctx.cfg(f)
    cn = g.canon()
    out = []
    # the working positions: the local list whose entries are written back into the module centres
    posn = {x.value.id for st in walk_own(f.node) if isinstance(st, ast.Assign) and any(isinstance(t, ast.Attribute) and t.attr == "center" for t in st.targets)
            for x in ast.walk(st.value) if isinstance(x, ast.Subscript) and isinstance(x.value, ast.Name)}
    if len(posn) != 1:
        raise AnalysisError(f"{f.qualname}: the list of working positions copied into module.center was not identified ({sorted(posn)})")
    pos = posn.pop()
    for n in g.stmt_nodes():
        st = n.ast
        if n.kind != "stmt":
            continue
        targets = []
        if isinstance(st, ast.Assign):
            targets = st.targets
        elif isinstance(st, (ast.AugAssign, ast.AnnAssign)):
            targets = [st.target]
        for t in targets:
            for x in ast.walk(t):
                if isinstance(x, ast.Attribute) and isinstance(x.ctx, ast.Store) and x.attr == "center":
                    out.append((n, "module centre", cn.expr(x.value)))
                if isinstance(x, ast.Subscript) and isinstance(x.ctx, ast.Store) and isinstance(x.value, ast.Name) and x.value.id == pos:
                    out.append((n, "position", cn.expr(x.slice)))
                if isinstance(x, ast.Attribute) and isinstance(x.ctx, ast.Store) and x.attr in ("x", "y") and isinstance(x.value, ast.Subscript) \
                        and isinstance(x.value.value, ast.Name) and x.value.value.id == pos:
                    out.append((n, "position coordinate", cn.expr(x.value.slice)))
    return g, out


@rule("C13", "R1.fixed-stay", "GUARD",
      "every write of a module position or centre in the layout is dominated by a not-fixed test of that very module "
      "(index or loop variable): a fixed module must get back bit-for-bit the centre it had", floor=4)
def r1(ctx: Ctx) -> None:
    f = ctx.func(FORCE, "fruchterman_reingold_layout")
    g, writes = _position_writes(ctx, f)
    ctx.require(len(writes) >= 4, f"fewer position writes than confirmed ({len(writes)})")
    for n, what, who in writes:
        facts = g.facts_at(n.id)
        ok = False
        for fa in facts:
            if fa[0] == "not" and fa[1][0] == "a" and fa[1][2] == "is_fixed":
                subj = fa[1][1]
                # modules[v].is_fixed with v == who, or module.is_fixed with module == who
                if subj == who or (subj[0] == "s" and subj[2] == who and contains(subj[1], "modules")):
                    ok = True
        ctx.site(f.where, f"write of a {what} guarded by 'not is_fixed' of the same module", stmt=norm_stmt(n.ast)[:90], guarded=ok)
        if not ok:
            ctx.report(f.where, f"unguarded-write {norm_stmt(n.ast)[:90]}",
                       f"a {what} is written without testing that the module is not fixed: (c - h) + h != c in floating point, so a fixed module "
                       "at x = 0.1 in a 1x1 die comes back at 0.09999999999999998", lineno=n.lineno, facts=facts_text(facts))


@rule("C13", "R2.clamp", "BOUND/MIRROR",
      "every position update is followed, in the same guarded block, by the clamp min(HIGH, max(LOW, v)) on both axes with "
      "the half-width / half-height of the die", floor=2)
def r2(ctx: Ctx) -> None:
    f = ctx.func(FORCE, "fruchterman_reingold_layout")
    c = canon_function(f, ctx.model)
    die = ("p", 0)
    updates = [st for st in atoms_of(c, lambda x: x[0] == "aug" and x[1] == "Add" and x[2][0] == "s" and contains(x[2], "v"))
               if st[2][1][0] in ("v", "u") and contains(st[3], "min")]
    # find the block holding the update of pos[v]
    blocks = atoms_of(c, lambda x: x[0] == "if" and contains(x[1], "is_fixed") and any(y[0] == "aug" and y[1] == "Add" and y[2][0] == "s" for y in x[2]))
    ctx.require(len(blocks) >= 1, "position update block not found")
    for b in blocks:
        body = b[2]
        upd = [y for y in body if y[0] == "aug" and y[1] == "Add" and y[2][0] == "s"]
        if not upd:
            continue
        pv = upd[0][2]
        idx_upd = body.index(upd[0])
        for axis, size in [("x", "width"), ("y", "height")]:
            half = to_poly(("a", die, size)).scale(__import__("fractions").Fraction(1, 2)).to_s()
            nhalf = (-to_poly(half)).to_s()
            coord = ("a", pv, axis)
            want = ("set", coord, ("c", ("g", "min"), tuple(sorted([half, ("c", ("g", "max"), tuple(sorted([nhalf, coord], key=skey)), ())], key=skey)), ()))
            alt = ("set", coord, ("c", ("g", "max"), tuple(sorted([nhalf, ("c", ("g", "min"), tuple(sorted([half, coord], key=skey)), ())], key=skey)), ()))
            after = body[idx_upd + 1:]
            ok = want in after or alt in after
            ctx.site(f.where, f"{axis} clamped to [-{size}/2, {size}/2] right after the update", found=ok)
            if not ok:
                ctx.report(f.where, f"missing-clamp {axis}", f"the position update is not followed by '{axis} = min({size}/2, max(-{size}/2, {axis}))': "
                           "a centre can leave the die", lineno=f.node.lineno)
        # displacement capped by the temperature
        ctx.site(f.where, "displacement capped by the temperature")
        if not (contains(upd[0][3], ("g", "min")) and contains(upd[0][3], "inv")):
            ctx.report(f.where, "uncapped-step", "the displacement is not scaled to at most the temperature (disp / |disp| * min(|disp|, t))", lineno=f.node.lineno)


@rule("C13", "R3.only-centres", "EFFECT",
      "the layout writes nothing of the die / netlist but module centres; the spring-constant trials run on deep copies", floor=2)
def r3(ctx: Ctx) -> None:
    eff = ctx.effects()
    f = ctx.func(FORCE, "fruchterman_reingold_layout")
    fields = eff.fields.get(f, {})
    ctx.site(f.where, "fields of the die written by the layout", written={k: sorted(v) for k, v in fields.items()})
    for p, fs in fields.items():
        for fl in sorted(fs - {"center", "_center", "_total_area", "_area_rectangles"}):   # memos are idempotent caches
            hows = sorted({m.how for m in eff.mutations(f, p) if fl in m.fields})
            ctx.report(f.where, f"layout-writes {p}.{fl}", f"the layout modifies {fl} of its input (only module centres may change): {'; '.join(hows[:2])}", lineno=f.node.lineno)
    fa = ctx.func(FORCE, "force_algorithm")
    calls = [c for c in walk_own(fa.node) if isinstance(c, ast.Call) and call_name(c) == "fruchterman_reingold_layout"]
    ctx.require(len(calls) == 2, "force_algorithm: expected the trial call and the final call")
    in_loop = [c for c in calls if any(c in list(ast.walk(lp)) for lp in walk_own(fa.node) if isinstance(lp, ast.For))]
    ctx.site(fa.where, "trial layouts run on deepcopy(die)", trial_calls=len(in_loop))
    for c in in_loop:
        a0 = c.args[0] if c.args else None
        if not (isinstance(a0, ast.Call) and call_name(a0) == "deepcopy"):
            ctx.report(fa.where, "trial-on-original", "a trial layout is run on the caller's die instead of a deep copy: later trials start from moved centres",
                       lineno=c.lineno)


_PLAIN_DECORATORS = {"staticmethod", "classmethod", "property", "dataclass", "abstractmethod", "overload", "wraps"}


def _undecorated(ctx: Ctx, funcs) -> None:
    """a decorator that is not one of the declaration kinds wraps the function in something else: a memo table kept in the
    wrapper's closure is process-wide state that no inventory of module-level names sees"""
    for f in funcs:
        for d in f.node.decorator_list:
            core = d.func if isinstance(d, ast.Call) else d
            nm = core.id if isinstance(core, ast.Name) else (core.attr if isinstance(core, ast.Attribute) else "")
            if nm.endswith("setter") or nm.endswith("getter") or nm in _PLAIN_DECORATORS:
                continue
            ctx.report(f.where, f"decorated {nm}", f"{f.qualname} is wrapped by the decorator '{nm}': what it returns is then decided by the wrapper (a cache "
                       "keyed by rounded or partial arguments answers a query with the result of an earlier, different one)", lineno=f.node.lineno)
    ctx.site(funcs[0].module.relpath if funcs else FORCE, "no wrapping decorators on the functions of the tool", functions=len(funcs))


@rule("C13", "R4.deterministic", "NONDET",
      "no source of nondeterminism (random, time, id/hash-ordered iteration over sets) in the relocation code", floor=3)
def r4(ctx: Ctx) -> None:
    funcs = [f for f in ctx.model.all_functions() if f.module.relpath == FORCE]
    # also the frame library functions reachable from the entry points (presentation code in tools/draw is not part of the result)
    roots = [ctx.func(FORCE, "fruchterman_reingold_layout"), ctx.func(FORCE, "force_algorithm")]
    reach = [g for g in ctx.model.reachable(roots) if g.module.relpath.startswith("frame/") or g.module.relpath == FORCE]
    allf = sorted(set(funcs) | set(reach), key=lambda f: f.where)
    n = 0
    for f in allf:
        n += 1
        bad = []
        for x in walk_own(f.node):
            if isinstance(x, ast.Call):
                nm = call_name(x)
                base = x.func.value.id if isinstance(x.func, ast.Attribute) and isinstance(x.func.value, ast.Name) else ""
                if base in ("random", "time", "uuid", "secrets") or (nm in NONDET_CALLS and base in ("random", "time", "np", "numpy", "os", "datetime")):
                    bad.append(x)
                if nm in ("id", "hash") and isinstance(x.func, ast.Name) and f.name not in ("__hash__",):
                    bad.append(x)
            if isinstance(x, (ast.For, ast.comprehension)) and isinstance(x.iter, (ast.Set, ast.SetComp)):
                bad.append(x.iter)
            if isinstance(x, (ast.For, ast.comprehension)) and isinstance(x.iter, ast.Call) and call_name(x.iter) in ("set", "frozenset"):
                bad.append(x.iter)
        if f.module.relpath == FORCE:
            ctx.site(f.where, "no nondeterminism source", found=len(bad))
        for x in bad:
            ctx.report(f.where, f"nondeterminism {ast.unparse(x)[:60]}", f"{f.qualname} (reachable from the relocation entry points) uses a nondeterministic source",
                       lineno=x.lineno)
    ctx.site(FORCE, "functions scanned (tool + reachable frame library)", functions=n)
    _undecorated(ctx, allf)       # the tool and the library functions it reaches (wire length, overlap, geometry)
    # hidden state: a memoised helper or a module-level object in the relocation code makes the result depend on what was
    # relocated before in the same process (the C20 inventory, restricted to the code the relocation runs)
    from . import C20 as _c20
    names = {g.qualname for g in allf}
    state = {k: w for k, w in _c20.discover_state(ctx).items()
             if k[0] == FORCE or ("@" in k[1] and k[1].split("@")[0] in names and (k[0].startswith("frame/") or k[0] == FORCE))}
    ctx.site(FORCE, "no process-wide state (memo caches, module-level objects / containers) in the relocation code", state=sorted(k[1] for k in state))
    for k, w in sorted(state.items()):
        ctx.report(f"{k[0]}::{k[1]}", f"hidden-state {k[1]}", f"{k[1]} is process-wide state used by the relocation: the layout returned for a design depends on the designs "
                   "relocated earlier in the same process (a cache keyed by a Module is keyed by its name only)", lineno=0)


@rule("C13", "R5.argmin", "DATAFLOW",
      "the layout finally returned uses the spring constant that minimises overlap + wire length / 2 over the whole list "
      "(strict improvement test, both cost terms read, every constant tried)", floor=3)
def r5(ctx: Ctx) -> None:
    f = ctx.func(FORCE, "force_algorithm")
    c = canon_function(f, ctx.model)
    defs = single_defs(c)
    loops = [st for st in c if st[0] == "for"]
    ctx.require(len(loops) == 1, "force_algorithm: loop over the spring constants not found")
    lp = loops[0]
    kappa = lp[1]
    ctx.site(f.where, "all spring constants 0.4 .. 1.5 are tried", iter=show(lp[2]))
    it = lp[2]
    # in the normal form a loop over [i/10 for i in range(4, 16)] is the loop over range(4, 16) with i/10 in place of the element
    tenth = (to_poly(lp[1]) * Poly.const(__import__("fractions").Fraction(1, 10))).to_s()
    ok = it == ("c", ("g", "range"), (k_num(4), k_num(16)), ()) and contains(lp[3], tenth) \
        and not contains(Sigma(raw_subst={tenth: ("k", "kappa")}).apply(lp[3]), lp[1])
    if ok:
        kappa = tenth
    else:
        ok = it[0] == "comp" and it[3][0][1] == ("c", ("g", "range"), (k_num(4), k_num(16)), ()) and it[3][0][2] == K_TRUE \
            and it[2] == ((to_poly(("b", 1, 0)) * Poly.const(__import__("fractions").Fraction(1, 10))).to_s(),)
    if not ok:
        ctx.report(f.where, f"kappa-list {show(it)}", "the list of spring constants is not [i/10 for i in range(4, 16)]", lineno=f.node.lineno)
    body = deref(lp[3], defs)
    upd = [st for st in body if st[0] == "if" and st[1][0] == "lt0" and any(y[0] == "set" and y[2] == kappa for y in st[2])]
    ctx.site(f.where, "best constant updated under a strict 'cost < best cost' test with cost = overlap + wire length / 2")
    ok = False
    if len(upd) == 1:
        cond = to_poly(upd[0][1][1])
        sets = {y[1]: y[2] for y in upd[0][2] if y[0] == "set" and len(y) == 3}
        best_k = [v for v, e in sets.items() if e == kappa]
        best_c = [v for v, e in sets.items() if e != kappa]
        if len(best_k) == 1 and len(best_c) == 1:
            cost = to_poly(sets[best_c[0]])
            reads_overlap = any(a[0] == "c" and a[1] == ("g", "total_intersection_area") for a in cost.atoms()) or contains(sets[best_c[0]], "total_intersection_area")
            wl = [a for a in cost.atoms() if a[0] == "a" and a[2] == "wire_length"]
            half = len(wl) == 1 and cost.t.get(((wl[0], 1),)) == __import__("fractions").Fraction(1, 2)
            ok = reads_overlap and half and cond.t == (cost - to_poly(best_c[0])).t
            # final call uses the tracked constant on the caller's die
            rets = [st for st in c if st[0] == "ret"]
            trial = sorted(set(atoms_of(body, lambda x: x[0] == "c" and x[1] == ("g", "fruchterman_reingold_layout"))), key=skey)
            fin = len(rets) == 1 and rets[0][1][0] == "c" and rets[0][1][1] == ("g", "fruchterman_reingold_layout") and len(rets[0][1][2]) >= 2 and \
                rets[0][1][2][0] == ("p", 0) and rets[0][1][2][1] == best_k[0]
            if fin and len(trial) == 1:
                # same iteration budget as the trials that were scored
                ta, fa_ = trial[0][2], rets[0][1][2]
                fin = len(ta) == 5 and len(fa_) == 5 and ta[4] == fa_[4] and ta[1] == kappa
            ctx.site(f.where, "final layout runs on the caller's die with the best constant", ok=fin)
            if not fin:
                ctx.report(f.where, "final-kappa", "the final layout is not computed with the constant selected by the cost test", lineno=f.node.lineno)
            inits = {st[1]: st[2] for st in c if st[0] == "set" and len(st) == 3}
            if inits.get(best_c[0]) != ("c", ("g", "float"), (("k", "str", "inf"),), ()):
                ok = False
    if not ok:
        ctx.report(f.where, "argmin-update", "the best spring constant is not tracked by 'if cost < best_cost' with cost = total overlap + wire_length / 2 "
                   "starting from +infinity", lineno=f.node.lineno)


@rule("C13", "R6.vector-arithmetic", "LAW",
      "the displacement arithmetic is exact vector arithmetic: Point +, -, unary -, * and / are component-wise without "
      "rounding and the norm is sqrt(x^2 + y^2) for every vector (the force directions and the displacement cap divide "
      "by it)", floor=6)
def r6(ctx: Ctx) -> None:
    from .points import point_arithmetic
    point_arithmetic(ctx, ops={"__neg__", "__add__", "__sub__", "__mul__", "__truediv__", "norm"})


@rule("C13", "R7.cost-terms-recomputed", "SHARED(C05)",
      "the wire-length term of the cost is computed from the current centres every time it is read: Netlist.wire_length is the sum "
      "over all nets and HyperEdge.wire_length the distance sum (the C05 definitions; a cached total would make every trial layout "
      "report the wire length of the first one)", floor=2)
def shared_wirelength(ctx: Ctx) -> None:
    from . import C05 as _c05
    from .common import support
    support(ctx, [_c05.r2], {"Netlist.wire_length", "HyperEdge.wire_length"})
