"""C11 -- die refinement keeps the tiling, reaches the count and bounds the aspect ratio."""
from __future__ import annotations

import ast

from framelint.core import rule, Ctx
from framelint.srcmodel import walk_own, AnalysisError
from framelint.canon import canon_function, show, S, to_poly, mk_lt, mk_and, mk_not, k_num, contains, skey, atoms_of, Sigma
from framelint.cfg import EXIT, ENTRY
from .common import (GEOM, DIE, stmt_calls, exit_facts, facts_text, call_name, norm_stmt, attr_stores_in_repo,
                     mutating_calls_on_attr, assert_conjuncts)

SINKS = {"append", "extend", "appendleft", "heappush", "push", "add"}
from framelint.canon import canon_function as _canon_function_expanded

def canon_function(fi, model=None, opts=None):   # rules of this file match shapes: look through every local
    return _canon_function_expanded(fi, model, opts, expand=True)



def _result_collection(ctx: Ctx, fi) -> S:
    """The local collection every return value of split_rectangles is built from."""
    c = canon_function(fi, ctx.model)
    rets = atoms_of(c, lambda x: x[0] == "ret")
    ctx.require(len(rets) >= 1, "split_rectangles: no return")
    cols = set()
    from .common import collect_of
    for r in rets:
        v = r[1]
        col = collect_of(c, v) if v[:1] == ("v",) else None      # [x.rect for x in heap] in the normal form: a collecting loop
        if col is not None and len(col) == 1:
            cols.add(col[0][0])
            if col[0][3] != ("k", "bool", True):
                cols.add(("filtered",))
        else:
            cols.add(("other", show(v)))
    return cols


@rule("C11", "R2.consume-all", "CONSUME-ALL",
      "in split_rectangles every rectangle taken from a work list is either split or kept, both halves of every "
      "split reach a work list, and every return hands back the whole result collection (unfiltered)", floor=5)
def r2(ctx: Ctx) -> None:
    fi = ctx.func(GEOM, "split_rectangles")
    g = ctx.cfg(fi)
    cn = g.canon()
    cols = _result_collection(ctx, fi)
    ctx.site(fi.where, "all returns are the full result collection", collections=[show(x) for x in cols])
    if len(cols) != 1 or list(cols)[0][0] != "v":
        ctx.report(fi.where, "result-collection " + " ".join(sorted(show(x) for x in cols)),
                   "split_rectangles does not return the complete (unfiltered) collection of kept rectangles on every path",
                   lineno=fi.node.lineno)
    # split calls
    calls = stmt_calls(ctx, fi)
    splits = [(n, c, s) for n, c, s in calls if call_name(c) == "split"]
    ctx.require(len(splits) >= 2, "split_rectangles: fewer than two split() call sites")
    for n, c, s in splits:
        st = n.ast
        ok = False
        how = ""
        # (a) q.extend(r.split())
        if isinstance(st, ast.Expr) and isinstance(st.value, ast.Call) and call_name(st.value) in ("extend",) \
                and st.value.args and st.value.args[0] is c:
            ok, how = True, "extend(whole pair)"
        # (b) a, b = r.split(); both a and b are handed to a sink by unconditional sibling statements that follow
        elif isinstance(st, ast.Assign) and st.value is c and isinstance(st.targets[0], ast.Tuple):
            names = [t.id for t in st.targets[0].elts if isinstance(t, ast.Name)]
            how = "unpack " + ",".join(names)
            sunk = set()
            for sib in _following_siblings(fi, st):
                if isinstance(sib, ast.Expr) and isinstance(sib.value, ast.Call) and call_name(sib.value) in SINKS:
                    for nm in names:
                        if any(isinstance(x, ast.Name) and x.id == nm for a in sib.value.args for x in ast.walk(a)):
                            sunk.add(nm)
                for x in ast.walk(sib):   # a re-binding of the name before it is sunk loses the piece
                    if isinstance(x, ast.Name) and isinstance(x.ctx, ast.Store) and x.id in names and x.id not in sunk:
                        names = [n_ for n_ in names if n_ != x.id] + ["<rebound>"]
            ok = len(names) == 2 and sunk == set(names)
        ctx.site(fi.where, "both halves of a split reach a work list", stmt=norm_stmt(st), how=how)
        if not ok:
            ctx.report(fi.where, f"split-half-lost {norm_stmt(st)}", "a split() whose two halves do not both reach a work list / the result",
                       lineno=st.lineno)
    # every popped rectangle is consumed on both branches
    pops = [(n, c, s) for n, c, s in calls if call_name(c) in ("pop", "popleft", "heappop")]
    ctx.require(len(pops) >= 2, "split_rectangles: fewer than two pop sites")
    for n, c, s in pops:
        st = n.ast
        ctx.site(fi.where, "popped rectangle is consumed (split or kept) on every path of the iteration", stmt=norm_stmt(st))
        tgt = st.targets[0] if isinstance(st, ast.Assign) else (st.target if isinstance(st, ast.AnnAssign) else None)
        if not isinstance(tgt, ast.Name):
            # consumed on the spot: the pop is an operand of a split() / sink call of the same statement
            on_the_spot = any(isinstance(c2, ast.Call) and c2 is not c and (call_name(c2) in SINKS or call_name(c2) == "split")
                              and any(y is c for y in ast.walk(c2)) for c2 in ast.walk(st))
            if not on_the_spot:
                ctx.report(fi.where, f"pop-unbound {norm_stmt(st)}", "a rectangle is popped and not bound", lineno=st.lineno)
            continue
        name = tgt.id

        def consumes(x) -> bool:
            if x.kind != "stmt":
                return False
            for c2 in ast.walk(x.ast):
                if isinstance(c2, ast.Call) and (call_name(c2) in SINKS or call_name(c2) == "split"):
                    if any(isinstance(y, ast.Name) and y.id == name for y in ast.walk(c2)):
                        return True
            return False
        # from the pop node, every path back to the loop head / exit must pass a consumer
        loops = _loops_of(fi, st)
        ctx.require(bool(loops), "pop outside a loop")
        head = g.node_for(loops[-1])
        if not g.must_pass(consumes, n.id, head) or not g.must_pass(consumes, n.id, EXIT):
            ctx.report(fi.where, f"pop-dropped {norm_stmt(st)}", "a popped rectangle can be neither split nor kept on some path: area is lost",
                       lineno=st.lineno)
    # the work queue is drained: a loop that pops from it runs until it is empty (an extra stop condition leaves pieces behind)
    from framelint.canon import _truth
    for n, c, s in pops:
        if call_name(c) not in ("pop", "popleft") or not isinstance(c.func, ast.Attribute):
            continue
        loops = [lp for lp in _loops_of(fi, n.ast) if isinstance(lp, ast.While)]
        if not loops:
            continue
        q = cn.expr(c.func.value)
        test = _truth(cn.expr(loops[-1].test))
        ctx.site(fi.where, "the loop that pops from the work queue runs while the queue is non-empty (nothing else stops it)", test=show(test)[:80])
        if test != q:
            ctx.report(fi.where, f"queue-not-drained {show(test)[:80]}", "the loop that takes rectangles from the work queue can stop while the queue still holds pieces: "
                       "those pieces never reach the result, so the refined regions no longer cover what they were cut from", lineno=loops[-1].lineno)
    # no rectangle constructor / geometry store here: pieces are exactly what split() returns
    ctor = [c for _, c, _ in calls if call_name(c) == "Rectangle"]
    stores = [n for n in walk_own(fi.node) if isinstance(n, ast.Attribute) and isinstance(n.ctx, ast.Store)]
    ctx.site(fi.where, "no rectangle is built or edited outside split()", constructors=len(ctor), attribute_stores=len(stores))
    for c in ctor:
        ctx.report(fi.where, "bare-rectangle", "split_rectangles builds a Rectangle itself", lineno=c.lineno)
    for s_ in stores:
        ctx.report(fi.where, f"rect-store {ast.unparse(s_)}", "split_rectangles edits a rectangle in place", lineno=s_.lineno)


def _following_siblings(fi, st):
    for n in ast.walk(fi.node):
        for fld in ("body", "orelse", "finalbody"):
            blk = getattr(n, fld, None)
            if isinstance(blk, list) and any(x is st for x in blk):
                i = [k for k, x in enumerate(blk) if x is st][0]
                return blk[i + 1:]
    return []


def _loops_of(fi, st):
    from .common import enclosing_loops
    return enclosing_loops(fi, st)


def _in_loop(fi, st) -> bool:
    return bool(_loops_of(fi, st))


@rule("C11", "R3.aspect-ratio-sink", "SINK-CHECK",
      "every rectangle entering the result collection of split_rectangles has passed the test "
      "'not aspect_ratio > limit' on all paths", floor=2)
def r3(ctx: Ctx) -> None:
    fi = ctx.func(GEOM, "split_rectangles")
    g = ctx.cfg(fi)
    cols = [x for x in _result_collection(ctx, fi) if x[0] == "v"]
    ctx.require(len(cols) == 1, "split_rectangles: result collection not identified")
    col = cols[0]
    limit = ("p", 1)
    n_sinks = 0
    for n, c, s in stmt_calls(ctx, fi):
        if s is None or call_name(c) not in SINKS:
            continue
        # sink into the result collection?  col.append(X) / heapq.heappush(col, X)
        recv = s[1][1] if s[1][0] == "a" else None
        into = (recv == col) or (len(s[2]) >= 1 and s[2][0] == col)
        if not into:
            continue
        n_sinks += 1
        pushed = s[2][-1]
        facts = g.facts_at(n.id)
        # whatever was tested -- a local, or the expression a single-definition local stands for -- is what is pushed
        tested = {a[1] for f in facts for a in atoms_of(f, lambda x: x[0] == "a" and len(x) == 3 and x[2] == "aspect_ratio")
                  if mk_not(mk_lt(limit, a)) in facts}
        ok = any(contains(pushed, r) for r in tested)
        ctx.site(fi.where, "push into the result is dominated by the aspect-ratio test", stmt=norm_stmt(n.ast), guarded=ok)
        if not ok:
            ctx.report(fi.where, f"unchecked-push {norm_stmt(n.ast)}",
                       "a rectangle is added to the result without having passed the aspect-ratio test: a half produced by "
                       "the largest-first phase may exceed the limit", lineno=n.lineno, facts=facts_text(facts))
    ctx.require(n_sinks >= 2, "fewer result pushes than confirmed")


@rule("C11", "R4.count", "GUARD",
      "every normal exit of split_rectangles is dominated by 'len(result) >= n'; admissible-parameter assertions present", floor=2)
def r4(ctx: Ctx) -> None:
    fi = ctx.func(GEOM, "split_rectangles")
    g = ctx.cfg(fi)
    cols = [x for x in _result_collection(ctx, fi) if x[0] == "v"]
    ctx.require(len(cols) == 1, "split_rectangles: result collection not identified")
    need = mk_not(mk_lt(("c", ("g", "len"), (cols[0],), ()), ("p", 2)))
    for n in g.stmt_nodes():
        if isinstance(n.ast, ast.Return):
            facts = g.facts_at(n.id)
            ctx.site(fi.where, "return dominated by len(result) >= n", stmt=norm_stmt(n.ast))
            if need not in facts:
                ctx.report(fi.where, f"return-without-count {norm_stmt(n.ast)}", "a return is not guarded by 'len(result) >= n'",
                           lineno=n.lineno, facts=facts_text(facts))
    for f in [fi, ctx.func(DIE, "Die.split_refinable_regions")]:
        facts = exit_facts(ctx, f)
        ps = f.params()
        ar = ("p", ps.index("aspect_ratio")) if "aspect_ratio" in ps else None
        nn = ("p", ps.index("n")) if "n" in ps else None
        ctx.require(ar is not None and nn is not None, f"{f.qualname}: parameters aspect_ratio / n not found")
        ctx.site(f.where, "n > 0 and aspect_ratio > sqrt(2) asserted")
        ok_n = mk_lt(k_num(0), nn) in facts or mk_not(mk_lt(nn, k_num(1))) in facts
        ok_r = any(x[0] == "lt0" and len(to_poly(x[1]).t) == 2 and to_poly(x[1]).t.get(((ar, 1),)) == -1
                   and 1.414 <= float(to_poly(x[1]).const_value()) <= 1.42 for x in facts)
        if not ok_n:
            ctx.report(f.where, "assert-n", f"{f.qualname} does not refuse n <= 0", lineno=f.node.lineno)
        if not ok_r:
            ctx.report(f.where, "assert-ratio", f"{f.qualname} does not refuse aspect-ratio limits <= sqrt(2)", lineno=f.node.lineno)


@rule("C11", "R1.partition-back", "EFFECT/WHO-WRITES",
      "split_refinable_regions splits exactly the two refinable lists, puts every returned rectangle back into "
      "exactly one of them by its tag, and nothing but the constructor ever writes blockages / fixed regions", floor=6)
def r1(ctx: Ctx) -> None:
    fi = ctx.func(DIE, "Die.split_refinable_regions")
    c = canon_function(fi, ctx.model)
    from framelint.canon import mk_eq, k_str, K_TRUE, mk_and
    from .common import kw_value, self_field
    calls_sr = sorted(set(atoms_of(c, lambda x: x[0] == "c" and x[1] == ("g", "split_rectangles"))), key=skey)
    # where the pieces go: {list: [(source, condition on the piece with the piece as ('k','piece'))]} -- from a loop that files
    # every piece by a test, or from one filtering comprehension per list
    PIECE = ("k", "piece")
    dest: dict = {}
    resets = set()
    others = []

    def file_into(body, v, src, cond):
        for st in body:
            if st[0] == "if" and len(st) == 4:
                file_into(st[2], v, src, mk_and([cond, st[1]]))
                file_into(st[3], v, src, mk_and([cond, mk_not(st[1])]))
            elif st[0] == "expr" and st[1][0] == "c" and st[1][1][0] == "a" and st[1][1][2] == "append" and st[1][2] == (v,) and st[1][1][1][:2] == ("a", ("self",)):
                dest.setdefault(st[1][1][1][2].lstrip("_"), []).append((src, Sigma(raw_subst={v: PIECE}).apply(cond)))
            else:
                others.append(st)
    for st in c:
        if st[0] == "set" and st[1][0] == "a" and st[1][1] == ("self",) and st[2] == ("list", ()):
            resets.add(st[1][2].lstrip("_"))
        elif st[0] == "set" and st[1][0] == "a" and st[1][1] == ("self",) and st[2][0] == "comp" and st[2][1] == "list" and len(st[2][3]) == 1 \
                and st[2][2] == (st[2][3][0][0],):
            b_, src, cond = st[2][3][0]
            dest.setdefault(st[1][2].lstrip("_"), []).append((src, Sigma(raw_subst={b_: PIECE}).apply(cond)))
            resets.add(st[1][2].lstrip("_"))          # an assignment replaces the old contents
        elif st[0] == "for" and len(st) == 5 and st[1][0] == "v":
            file_into(st[3], st[1], st[2], K_TRUE)
        elif st[0] != "assert":
            others.append(st)
    src_want = (to_poly(("a", ("self",), "ground_regions")) + to_poly(("a", ("self",), "specialized_regions"))).to_s()
    call_want = ("c", ("g", "split_rectangles"), (src_want, ("p", 0), ("p", 1)), ())
    ctx.site(fi.where, "one splitter call over all refinable regions (specialised + ground regions, aspect_ratio, n)", splitter_calls=len(calls_sr))
    if len(calls_sr) != 1 or not dest:
        ctx.report(fi.where, f"splitter-structure loops={len([st for st in c if st[0] == 'for'])} calls={len(calls_sr)}",
                   "split_refinable_regions does not make one split_rectangles call on (specialised + ground regions, aspect_ratio, n) followed by one redistribution: "
                   "splitting the lists separately does not guarantee the requested total count", lineno=fi.node.lineno)
    else:
        if calls_sr[0] != call_want:
            ctx.report(fi.where, f"splitter-call {show(calls_sr[0])}", "the splitter is not called on exactly (specialised + ground regions, aspect_ratio, n)",
                       lineno=fi.node.lineno)
        ctx.site(fi.where, "every piece goes to exactly one list by its tag")
        is_ground = mk_eq(("a", PIECE, "region"), k_str(kw_value(ctx, "KW_GROUND")))
        want = {"ground_regions": [(calls_sr[0], is_ground)], "specialized_regions": [(calls_sr[0], mk_not(is_ground))]}
        if dest != want or others:
            ctx.report(fi.where, "partition-back " + "; ".join(f"{k}: {show(cnd)}" for k, v_ in sorted(dest.items()) for _, cnd in v_)[:200],
                       "pieces are not redistributed as 'ground tag -> ground list, otherwise -> specialised list'", lineno=fi.node.lineno)
        ctx.site(fi.where, "both refinable lists are emptied before redistribution", resets=sorted(resets))
        if resets != {"ground_regions", "specialized_regions"}:
            ctx.report(fi.where, "list-reset " + " ".join(sorted(resets)), "the refinable lists are not both (and only they) reset before redistribution",
                       lineno=fi.node.lineno)
    # who writes the region lists
    allowed = {
        "_blockages": {"Die.__init__"},
        "_fixed": {"Die.__init__"},
        "_specialized_regions": {"Die.__init__", "Die.split_refinable_regions"},
        "_ground_regions": {"Die._calculate_ground_rectangles", "Die.split_refinable_regions", "Die.initial_grid"},
    }
    for attr, ok_funcs in allowed.items():
        writers = attr_stores_in_repo(ctx, attr) + mutating_calls_on_attr(ctx, attr)
        ctx.site(DIE, f"writers of Die.{attr}", writers=sorted({f.where for f, _ in writers}))
        ctx.require(len(writers) >= 1, f"no writer of {attr} found")
        for f, n in writers:
            recv = n.value if isinstance(n, ast.Attribute) else n.func.value.value
            own = isinstance(recv, ast.Name) and recv.id == "self"
            if own and not (f.cls is not None and f.cls.name == "Die"):
                continue   # another class's private attribute of the same name
            if not (f.module.relpath == DIE and f.qualname in ok_funcs):
                ctx.report(f.where, f"region-list-writer {attr}", f"{f.qualname} writes Die.{attr}; only {sorted(ok_funcs)} may",
                           lineno=n.lineno)
    # lists handed out by the properties are the internal ones: refinement must not edit them through the getters
    for prop in ["blockages", "fixed_regions"]:
        for f, n in mutating_calls_on_attr(ctx, prop):
            ctx.report(f.where, f"region-list-mutated {prop}", f"{f.qualname} mutates die.{prop} in place", lineno=n.lineno)


@rule("C11", "R6.initial-grid", "OBLIGATION/AXIS",
      "initial_grid refuses non-clean dies and non-positive counts and asks for rectangle_grid(nrows, ncols) of the die "
      "in that order; floorplanning_rectangles returns (specialised + ground, fixed)", floor=3)
def r6(ctx: Ctx) -> None:
    fi = ctx.func(DIE, "Die.initial_grid")
    facts = exit_facts(ctx, fi)
    z = k_num(0)

    def ln(a):
        return ("c", ("g", "len"), (("a", ("self",), a),), ())
    from framelint.canon import mk_eq
    need = {
        "nrows > 0": mk_lt(z, ("p", 0)),
        "ncols > 0": mk_lt(z, ("p", 1)),
        # 'len(x) == 0' as a test is 'not x' in the normal form
        "no fixed regions": mk_not(("a", ("self",), "fixed_regions")),
        "no specialised regions": mk_not(("a", ("self",), "specialized_regions")),
        "no blockages": mk_not(("a", ("self",), "blockages")),
        "one ground region": mk_eq(ln("ground_regions"), k_num(1)),
    }
    ctx.site(fi.where, "clean-die and positive-count obligations", facts=facts_text(facts))
    for name, atom in need.items():
        if atom not in facts:
            ctx.report(fi.where, f"grid-obligation {name}", f"initial_grid does not insist on: {name}", lineno=fi.node.lineno)
    c = canon_function(fi, ctx.model)
    sets = [st for st in c if st[0] == "set"]
    ctx.site(fi.where, "ground regions := die.rectangle_grid(nrows, ncols)")
    from .common import self_field
    die_box = self_field(fi, "_die")
    want = ("set", ("a", ("self",), "_ground_regions"), ("c", ("a", die_box, "rectangle_grid"), (("p", 0), ("p", 1)), ()))
    alt = ("set", ("a", ("self",), "_ground_regions"), ("c", ("a", die_box, "rectangle_grid"), (), (("ncols", ("p", 1)), ("nrows", ("p", 0)))))
    if sets != [want] and sets != [alt]:
        ctx.report(fi.where, "grid-call " + "; ".join(show(x) for x in sets), "initial_grid does not set the ground regions to die.rectangle_grid(nrows, ncols)",
                   lineno=fi.node.lineno)
    fp = ctx.func(DIE, "Die.floorplanning_rectangles")
    cf = canon_function(fp, ctx.model)
    ctx.site(fp.where, "floorplanning_rectangles == (specialised + ground, fixed)")
    src = (to_poly(("a", ("self",), "ground_regions")) + to_poly(("a", ("self",), "specialized_regions"))).to_s()
    if cf != (("ret", ("tuple", (src, ("a", ("self",), "fixed_regions")))),):
        ctx.report(fp.where, "fp-rectangles " + "; ".join(show(x) for x in cf), "floorplanning_rectangles does not return (refinable regions, fixed regions)",
                   lineno=fp.node.lineno)



@rule("C11", "R7.geometry-primitives", "SHARED(C18)",
      'the grid and split helpers are exact and hand on the region tag: Rectangle.rectangle_grid / split* / duplicate satisfy the C18 tiling and attribute-inheritance laws (cell size * count == parent size, first cell at the low border, contiguous, last cell at the high border, x geometry independent of the row index) -- evaluated for the helpers the die decomposition calls', floor=6)
def shared_geometry(ctx: Ctx) -> None:
    from . import C18 as _c18
    from .common import support
    support(ctx, [_c18.r1, _c18.r5, _c18.r6], {"Rectangle.rectangle_grid", "Rectangle.duplicate", "Rectangle.split", "Rectangle.split_horizontal", "Rectangle.split_vertical"})


@rule("C11", "R8.refinement-requested-is-run", "GUARD",
      "when the global floorplanner is asked for an aspect ratio it runs the die refinement, whatever the die looks like: in "
      "tools/glbfloor/glbfloor.py the call of split_refinable_regions is decided by the command-line options alone -- no "
      "test that looks at the die (a call or an attribute of an object) stands between the request and the refinement; whether "
      "the die already honours the count and the ratio is split_refinable_regions' own business (seeded change C11-9: a "
      "one-sided 'already fine' shortcut that sees wide cells and not tall ones)", floor=1)
def r8_requested_is_run(ctx: Ctx) -> None:
    n = 0
    for f in ctx.model.all_functions(include_inlined=True):
        if f.module.relpath != "tools/glbfloor/glbfloor.py":
            continue
        parents = {}
        for p in ast.walk(f.node):
            for c in ast.iter_child_nodes(p):
                parents[c] = p
        for c in walk_own(f.node):
            if not (isinstance(c, ast.Call) and isinstance(c.func, ast.Attribute) and c.func.attr == "split_refinable_regions"):
                continue
            n += 1
            ctx.site(f.where, "refinement call decided by the options alone", call=ast.unparse(c)[:70])
            x = c
            while x in parents and x is not f.node:
                p = parents[x]
                if isinstance(p, (ast.If, ast.While, ast.IfExp)) and x is not p.test:
                    looks = [y for y in ast.walk(p.test) if isinstance(y, (ast.Call, ast.Attribute, ast.GeneratorExp, ast.ListComp))]
                    if looks:
                        ctx.report(f.where, f"refinement-skipped-by-state {norm_stmt(p.test)[:50]}", f"{f.qualname}: whether the requested die refinement runs "
                                   f"depends on '{ast.unparse(p.test)[:70]}', a test on the state of the die and not on the request", lineno=p.lineno)
                x = p
    ctx.require(n >= 1, "tools/glbfloor/glbfloor.py: call of split_refinable_regions not found")
