from . import primitives  # noqa: F401  (shared primitive rules register themselves for the properties that depend on them)
