"""C02 -- refining an allocation conserves tiling, module area and centroid (frame/allocation/allocation.py)."""
from __future__ import annotations

import ast

from framelint.core import rule, Ctx
from framelint.srcmodel import walk_own, AnalysisError, FuncInfo
from framelint.canon import (Canon, CanonOptions, canon_function, show, S, to_poly, mk_lt, mk_and, mk_not, mk_eq, k_num,
                             contains, skey, atoms_of, Sigma, diff_paths, K_TRUE, subst)
from framelint.cfg import EXIT, ENTRY
from framelint.kinds import IndexSpec, IndexTyper
from .common import (GEOM, ALLOC, sigma_xy, stmt_calls, facts_text, call_name, norm_stmt, assert_conjuncts,
                     enclosing_loops)

SPLITS = {"split", "split_horizontal", "split_vertical"}
OPS = ["Allocation.refine", "Allocation.griddify", "Allocation.uniform_refinement_depth"]
from framelint.canon import canon_function as _canon_function_expanded

def canon_function(fi, model=None, opts=None):   # rules of this file match shapes: look through every local
    return _canon_function_expanded(fi, model, opts, expand=True)



def splitter_role(ctx: Ctx) -> FuncInfo:
    """The helper reachable from Allocation.refine that calls Rectangle.split (found by role)."""
    refine = ctx.func(ALLOC, "Allocation.refine")
    cands = []
    for g in ctx.model.reachable([refine]):
        if g.module.relpath != ALLOC or g is refine:
            continue
        if any(isinstance(c, ast.Call) and call_name(c) in SPLITS for c in walk_own(g.node)):
            cands.append(g)
    cands = sorted(set(cands), key=lambda f: f.where)
    if len(cands) != 1:
        raise AnalysisError(f"splitter role (helper of refine calling split) not unique: {[c.qualname for c in cands]}")
    return cands[0]


def functions_that_split(ctx: Ctx) -> list[FuncInfo]:
    out = []
    for f in ctx.model.all_functions():
        if f.module.relpath == ALLOC and any(isinstance(c, ast.Call) and call_name(c) in SPLITS for c in walk_own(f.node)):
            out.append(f)
    return sorted(out, key=lambda f: f.where)


def _is_alloc_copy(val: S, parent_alloc: S) -> bool:
    """value-preserving copy of the parent's occupancy map"""
    if val == parent_alloc:
        return True
    if val[0] == "c" and val[1] in (("g", "dict"), ("a", parent_alloc, "copy")) and (val[2] == (parent_alloc,) or val[2] == ()):
        return True
    if val[0] == "comp" and val[1] == "dict" and len(val[3]) == 1:
        tgt, it, cond = val[3][0]
        if it == ("c", ("a", parent_alloc, "items"), (), ()) and cond == ("k", "bool", True) and tgt[0] == "tuple" and val[2] == tgt[1]:
            return True
    return False


@rule("C02", "R1.pieces-from-split", "CONSUME-ALL/EFFECT",
      "every cell of a refined allocation is the parent's own rectangle or an output of split*() on it, both outputs "
      "of every split reach the result, and allocation.py never writes rectangle geometry", floor=6)
def r1(ctx: Ctx) -> None:
    sp = splitter_role(ctx)
    # recursive splitter: tabulate
    c = canon_function(sp, ctx.model)
    from framelint.peval import paths
    ps = paths(c)
    ctx.require(len(ps) == 2, f"{sp.qualname}: expected a base case and a recursive case")
    rect, alloc, depth, levels = ("p", 0), ("p", 1), ("p", 2), ("p", 3)
    selfcall = [a for a in atoms_of(c, lambda x: x[0] == "c" and contains(x[1], sp.name)) if len(a[2]) == 4]
    ctx.site(sp.where, "recursive case uses both halves of split()", recursive_calls=len(selfcall))
    firsts = sorted({a[2][0] for a in selfcall}, key=skey)
    want = sorted([("proj", ("c", ("a", rect, "split"), (), ()), 0, 2), ("proj", ("c", ("a", rect, "split"), (), ()), 1, 2)], key=skey)
    if firsts != want or len(selfcall) != 2:
        ctx.report(sp.where, "splitter-halves " + " ".join(show(x) for x in firsts),
                   "the recursive splitter does not descend into exactly the two halves of rect.split()", lineno=sp.node.lineno)
    # the recursive result is the concatenation of both sub-results
    rec_out = [o for lits, o in ps if contains(o, sp.name)]
    ctx.site(sp.where, "recursive case returns the concatenation of both sub-results")
    ok = len(rec_out) == 1 and to_poly(rec_out[0]).t == (to_poly(selfcall[0]) + to_poly(selfcall[1])).t if len(selfcall) == 2 else False
    if not ok:
        ctx.report(sp.where, "splitter-concat", "the recursive splitter does not return the results of both halves", lineno=sp.node.lineno)
    base_out = [o for lits, o in ps if not contains(o, sp.name)]
    ctx.site(sp.where, "base case returns the rectangle itself")
    ok = len(base_out) == 1 and base_out[0][0] == "list" and len(base_out[0][1]) == 1 and base_out[0][1][0][0] == "tuple" \
        and base_out[0][1][0][1][0] == rect
    if not ok:
        ctx.report(sp.where, "splitter-base", "the base case of the splitter does not return the rectangle it was given", lineno=sp.node.lineno)

    # callers: result list = concatenation of splitter results for every cell
    for q in ["Allocation.refine", "Allocation.uniform_refinement_depth"]:
        f = ctx.func(ALLOC, q)
        cf = canon_function(f, ctx.model)
        loops = [st for st in cf if st[0] == "for" and st[2] == ("a", ("self",), "allocations")]
        ctx.site(f.where, "every cell's splitter result is appended to the new allocation")
        good = False
        if len(loops) == 1:
            v = loops[0][1]
            body = loops[0][3]
            calls = atoms_of(body, lambda x: x[0] == "c" and contains(x[1], sp.name) and len(x[2]) == 4)
            ext = [st for st in body if st[0] == "expr" and st[1][0] == "c" and st[1][1][0] == "a" and st[1][1][2] == "extend"]
            if len(calls) == 1 and len(ext) == 1 and contains(ext[0], calls[0]) and calls[0][2][0] == ("a", v, "rect") \
                    and calls[0][2][1] == ("a", v, "alloc") and calls[0][2][2] == ("a", v, "depth") and len(body) == 1:
                res = ext[0][1][1][1]
                rets = [st for st in cf if st[0] == "ret" and st[1] == ("c", ("g", "Allocation"), (res,), ())]
                good = len(rets) == 1
        if not good:
            ctx.report(f.where, "cells-through-splitter", f"{q} does not hand every cell (rect, alloc, depth) to the splitter and collect all results "
                       "into the new Allocation", lineno=f.node.lineno)

    # griddify: every popped cell is either kept or replaced by both halves of a split of its own rectangle
    fg = ctx.func(ALLOC, "Allocation.griddify")
    g = ctx.cfg(fg)
    calls = stmt_calls(ctx, fg)
    pops = [(n, c_, s) for n, c_, s in calls if call_name(c_) in ("popleft", "pop")]
    ctx.require(len(pops) == 2, "griddify: expected one pop per cut loop")
    for n, c_, s in pops:
        st = n.ast
        tgt = st.targets[0] if isinstance(st, ast.Assign) else None
        ctx.require(isinstance(tgt, ast.Name), "griddify: popped cell is not bound to a name")
        cell = tgt.id
        loops = enclosing_loops(fg, st)
        ctx.require(bool(loops), "griddify: pop outside a loop")
        head = g.node_for(loops[-1])
        queue = ast.unparse(c_.func.value)

        def keeps(x) -> bool:
            if x.kind != "stmt":
                return False
            for c2 in ast.walk(x.ast):
                if isinstance(c2, ast.Call) and call_name(c2) == "append" and ast.unparse(c2.func.value) == queue:
                    if any(isinstance(y, ast.Name) and y.id == cell for y in ast.walk(c2)) or True:
                        return True
            return False
        ctx.site(fg.where, "popped cell re-enters the work list on every path (kept or replaced)", stmt=norm_stmt(st))
        if not g.must_pass(keeps, n.id, head):
            ctx.report(fg.where, f"cell-dropped {norm_stmt(st)}", "a popped cell can leave the loop body without being kept or replaced by its pieces",
                       lineno=st.lineno)
    splits = [(n, c_, s) for n, c_, s in calls if call_name(c_) in SPLITS]
    ctx.require(len(splits) == 2, "griddify: expected one split per cut loop")
    cfun = canon_function(fg, ctx.model)
    for n, c_, s in splits:
        st = n.ast
        ok = False
        if isinstance(st, ast.Assign) and isinstance(st.targets[0], ast.Tuple) and len(st.targets[0].elts) == 2:
            names = [t.id for t in st.targets[0].elts if isinstance(t, ast.Name)]
            # following sibling: for rect in [r1, r2]: work.append(RectAlloc(rect, ...))  or two explicit appends
            sibs = _siblings_after(fg, st)
            used = set()
            for sib in sibs:
                if isinstance(sib, ast.For) and isinstance(sib.iter, (ast.List, ast.Tuple)):
                    it_names = [e.id for e in sib.iter.elts if isinstance(e, ast.Name)]
                    body_app = [c2 for b in sib.body for c2 in ast.walk(b) if isinstance(c2, ast.Call) and call_name(c2) == "append"
                                and any(isinstance(y, ast.Name) and isinstance(sib.target, ast.Name) and y.id == sib.target.id for y in ast.walk(c2))]
                    if body_app:
                        used |= set(it_names)
                if isinstance(sib, ast.Expr) and isinstance(sib.value, ast.Call) and call_name(sib.value) == "append":
                    for nm in names:
                        if any(isinstance(y, ast.Name) and y.id == nm for y in ast.walk(sib.value)):
                            used.add(nm)
            ok = len(names) == 2 and set(names) <= used
        # 'for half in cell.rect.split_x(cut): work.append(RectAlloc(half, ...))': every piece the split returns is queued
        loops_ = [lp for lp in walk_own(fg.node) if isinstance(lp, ast.For) and lp.iter is c_]
        if loops_ and isinstance(loops_[0].target, ast.Name):
            lp = loops_[0]
            apps = [c2 for b in lp.body for c2 in ast.walk(b) if isinstance(c2, ast.Call) and call_name(c2) == "append"
                    and any(isinstance(y, ast.Name) and y.id == lp.target.id for y in ast.walk(c2))]
            jumps = [x for b in lp.body for x in ast.walk(b) if isinstance(x, (ast.Break, ast.Continue, ast.Return, ast.If))]
            ok = bool(apps) and not jumps
        # the split is applied to the popped cell's own rectangle
        recv = s[1][1] if s is not None and s[1][0] == "a" else None
        own = recv is not None and recv[0] == "a" and recv[2] == "rect"
        ctx.site(fg.where, "both halves of the cut re-enter the work list; the cut is applied to the cell's own rectangle", stmt=norm_stmt(st))
        if not ok or not own:
            ctx.report(fg.where, f"cut-half-lost {norm_stmt(st)}", "a cut whose two pieces do not both re-enter the work list (or not applied to the cell's own rectangle)",
                       lineno=st.lineno)
    # result built from the whole work list
    rets = [st for st in cfun if st[0] == "ret"]
    ctx.site(fg.where, "result is built from the whole work list")
    ok = len(rets) == 1 and rets[0][1][0] == "c" and rets[0][1][1] == ("g", "Allocation") and rets[0][1][2][0][0] == "comp" \
        and rets[0][1][2][0][3][0][2] == ("k", "bool", True)
    if ok:
        comp = rets[0][1][2][0]
        b = comp[3][0][0]
        ok = comp[2][0] == ("tuple", (("a", b, "rect"), ("a", b, "alloc"), ("a", b, "depth")))
    if not ok:
        ctx.report(fg.where, "griddify-result", "griddify does not return Allocation([(rect, alloc, depth) for every cell of the work list])", lineno=fg.node.lineno)
    # no geometry writes anywhere in allocation.py
    n_st = 0
    for f in ctx.model.all_functions():
        if f.module.relpath != ALLOC:
            continue
        for x in walk_own(f.node):
            if isinstance(x, ast.Attribute) and isinstance(x.ctx, ast.Store) and x.attr in ("center", "shape", "x", "y", "w", "h", "region", "hard"):
                n_st += 1
                ctx.report(f.where, f"alloc-edits-rectangle {ast.unparse(x)}", "allocation.py writes rectangle geometry", lineno=x.lineno)
            if isinstance(x, ast.Call) and call_name(x) in ("Rectangle",) and f.qualname not in ("Allocation._calculate_bounding_box",):
                ctx.report(f.where, f"alloc-builds-rectangle {f.qualname}", "allocation.py builds a rectangle outside the bounding-box computation", lineno=x.lineno)
    ctx.site(ALLOC, "no rectangle geometry store / constructor in allocation.py", stores=n_st)


def _siblings_after(fi, st):
    for n in ast.walk(fi.node):
        for fld in ("body", "orelse", "finalbody"):
            blk = getattr(n, fld, None)
            if isinstance(blk, list) and any(x is st for x in blk):
                i = [k for k, x in enumerate(blk) if x is st][0]
                return blk[i + 1:]
    return []


@rule("C02", "R2.ratio-inheritance", "DATAFLOW",
      "the occupancy map of every new cell is a value-preserving copy of the map of the cell it was cut from", floor=4)
def r2(ctx: Ctx) -> None:
    sp = splitter_role(ctx)
    c = canon_function(sp, ctx.model)
    alloc = ("p", 1)
    tuples = atoms_of(c, lambda x: x[0] == "tuple" and len(x[1]) == 3)
    ctx.site(sp.where, "splitter base case copies the occupancy map unchanged")
    if not tuples or not all(_is_alloc_copy(t[1][1], alloc) for t in tuples):
        ctx.report(sp.where, "ratio-copy-base", "the splitter does not hand the parent's occupancy map on unchanged", lineno=sp.node.lineno)
    selfcall = [a for a in atoms_of(c, lambda x: x[0] == "c" and contains(x[1], sp.name)) if len(a[2]) == 4]
    ctx.site(sp.where, "recursive calls pass the occupancy map unchanged")
    if not selfcall or not all(a[2][1] == alloc for a in selfcall):
        ctx.report(sp.where, "ratio-copy-rec", "the recursive splitter changes the occupancy map on the way down", lineno=sp.node.lineno)
    fg = ctx.func(ALLOC, "Allocation.griddify")
    cg = canon_function(fg, ctx.model)
    ras = atoms_of(cg, lambda x: x[0] == "c" and x[1] == ("g", "RectAlloc") and len(x[2]) == 3)
    ctx.require(len(set(ras)) >= 1, "griddify: RectAlloc construction not found")
    for ra in sorted(set(ras), key=skey):
        parent_allocs = atoms_of(ra[2][1], lambda x: x[0] == "a" and x[2] == "alloc")
        ctx.site(fg.where, "piece inherits the parent's occupancy map", value=show(ra[2][1])[:120])
        if not parent_allocs or not _is_alloc_copy(ra[2][1], parent_allocs[0]):
            ctx.report(fg.where, f"ratio-copy-griddify {show(ra[2][1])[:120]}", "a griddify piece does not inherit the parent's occupancy ratios unchanged",
                       lineno=fg.node.lineno)
    # area / centre caches are computed from ratio * area and the rectangle centre
    fa = ctx.func(ALLOC, "Allocation._calculate_areas_and_centers")
    ca = canon_function(fa, ctx.model)
    ctx.site(fa.where, "module area = sum ratio*cell area; centre = sum(cell centre * ratio*area) / area")
    augs = atoms_of(ca, lambda x: x[0] == "aug" and x[1] == "Add")
    ok = False
    if len(augs) == 2:
        terms = {show(a[3]) for a in augs}
        mass = [a[3] for a in augs if not contains(a[3], "center")]
        mom = [a[3] for a in augs if contains(a[3], "center")]
        if len(mass) == 1 and len(mom) == 1:
            m = to_poly(mass[0])
            atoms = m.atoms()
            has_ratio = any(a[0] == "a" and a[2] == "area_ratio" for a in atoms)
            has_area = any(a[0] == "a" and a[2] == "area" for a in atoms)
            cen = [a for a in to_poly(mom[0]).atoms() if a[0] == "a" and a[2] == "center"]
            ok = has_ratio and has_area and len(m.t) == 1 and len(cen) == 1 and \
                to_poly(mom[0]).t == (to_poly(cen[0]) * m).t
    divs = atoms_of(ca, lambda x: x[0] == "set" and len(x) == 3 and contains(x[1], "_centers") and contains(x[2], "inv"))
    if not ok or len(divs) != 1:
        ctx.report(fa.where, "area-centre-definition", "module area / centre caches are not sum(ratio*area) and sum(centre*ratio*area)/area",
                   lineno=fa.node.lineno)


@rule("C02", "R3.fixed-not-cut", "GUARD",
      "every split reachable from refine / griddify / uniform_refinement_depth is guarded by a not-fixed test of the "
      "cell's rectangle (directly, or through a levels argument that is 0 for fixed cells)", floor=3)
def r3(ctx: Ctx) -> None:
    sp = splitter_role(ctx)
    # direct split sites (griddify)
    fg = ctx.func(ALLOC, "Allocation.griddify")
    g = ctx.cfg(fg)
    for n, c_, s in stmt_calls(ctx, fg):
        if call_name(c_) in SPLITS and s is not None:
            recv = s[1][1]
            facts = g.facts_at(n.id)
            ok = mk_not(("a", recv, "fixed")) in facts
            ctx.site(fg.where, "cut dominated by 'not rect.fixed'", stmt=norm_stmt(n.ast), guarded=ok)
            if not ok:
                ctx.report(fg.where, f"cut-fixed {norm_stmt(n.ast)}", "a cell is cut without testing that its rectangle is not fixed", lineno=n.lineno,
                           facts=facts_text(facts))
    # call sites of the recursive splitter: levels must be 0 for fixed cells
    for q in ["Allocation.refine", "Allocation.uniform_refinement_depth"]:
        f = ctx.func(ALLOC, q)
        g = ctx.cfg(f)
        for n, c_, s in stmt_calls(ctx, f):
            if s is None or not (contains(s[1], sp.name) and len(s[2]) == 4):
                continue
            rect, levels = s[2][0], s[2][3]
            facts = g.facts_at(n.id)
            guarded = mk_not(("a", rect, "fixed")) in facts or levels == k_num(0)      # zero levels: the cell is handed through uncut
            if not guarded and levels[0] == "ite":
                cond, a, b = levels[1], levels[2], levels[3]
                conj = set(cond[1]) if cond[0] == "and" else {cond}
                if b == k_num(0) and mk_not(("a", rect, "fixed")) in conj:
                    guarded = True
                if a == k_num(0) and (cond == ("a", rect, "fixed") or (cond[0] == "or" and ("a", rect, "fixed") in cond[1])):
                    guarded = True
            ctx.site(f.where, "splitter called with 0 levels for fixed cells", call=show(s)[:160], guarded=guarded)
            if not guarded:
                ctx.report(f.where, f"split-fixed {q}",
                           f"{q} can ask the splitter to cut a cell whose rectangle is fixed (no not-fixed guard on the levels argument)",
                           lineno=n.lineno, levels=show(levels))


def griddify_index_check(ctx: Ctx, fg: FuncInfo):
    c = canon_function(fg, ctx.model)
    gb = atoms_of(c, lambda x: x[0] == "proj" and x[1][0] == "c" and x[1][1] == ("g", "gather_boundaries"))
    xs = sorted({a for a in gb if a[2] == 0}, key=skey)
    ys = sorted({a for a in gb if a[2] == 1}, key=skey)
    if len(xs) != 1 or len(ys) != 1:
        raise AnalysisError("griddify: x/y cut lists (results of gather_boundaries) not identified")
    spec = IndexSpec(containers={xs[0]: "x-cut index", ys[0]: "y-cut index"})
    ty = IndexTyper(spec)
    for st in c:
        ty.walk(st)
    return ty, xs[0], ys[0], c


@rule("C02", "R4.totality", "KIND(INDEX-OF)",
      "in griddify an index that ranges over the x cuts only subscripts the x cuts (same for y): otherwise cuts are "
      "missed or the loop runs off the list", floor=1)
def r4(ctx: Ctx) -> None:
    fg = ctx.func(ALLOC, "Allocation.griddify")
    ty, xs, ys, c = griddify_index_check(ctx, fg)
    # a cut loop that reads nothing but cuts[i] is, in the normal form, the loop over the elements of that list (a slice of it):
    # it cannot run off the list or read the other one
    elem_loops = [lp for lp in c if lp[0] == "for" and (lp[2] in (xs, ys) or (lp[2][0] == "s" and lp[2][1] in (xs, ys) and lp[2][2][0] == "slice"))]
    ctx.site(fg.where, "cut-list index kinds", uses_checked=ty.checked, unresolved=ty.unknown, element_loops=len(elem_loops))
    ctx.require(ty.checked - ty.unknown + len(elem_loops) >= 2, "griddify: cut subscripts not resolved")
    for m in ty.mismatches:
        ctx.report(fg.where, f"cut-index {m.use[-30:]} wants {m.want} got {m.got}",
                   f"griddify subscripts a cut list with an index that ranges over the other list ({m.got} used as {m.want}): "
                   "cuts are skipped or an IndexError is raised when the numbers of x and y boundaries differ", lineno=fg.node.lineno)


@rule("C02", "R5.constructor-checks", "MUST-PASS",
      "every Allocation construction passes the pairwise overlap check (all unordered pairs of cells) and the "
      "area/centre computation", floor=3)
def r5(ctx: Ctx) -> None:
    init = ctx.func(ALLOC, "Allocation.__init__")
    g = ctx.cfg(init)
    cls = ctx.model.cls(ALLOC, "Allocation")
    role_overlap = [m for m in cls.methods.values() if any(isinstance(a, ast.Assert) and any(isinstance(c, ast.Call) and call_name(c) == "overlap"
                    for c in ast.walk(a.test)) for a in walk_own(m.node))]
    ctx.site(init.where, "an overlap-check method exists", found=[m.qualname for m in role_overlap])
    if len(role_overlap) != 1:
        ctx.report(init.where, "no-overlap-check", "Allocation has no (unique) method asserting that cells do not overlap", lineno=init.node.lineno)
        return
    ov = role_overlap[0]
    ac = ctx.func(ALLOC, "Allocation._calculate_areas_and_centers")

    def calls(node, target) -> bool:
        if node.ast is None or node.kind != "stmt":
            return False
        return any(isinstance(c, ast.Call) and target in ctx.model.resolve_call(init, c) for c in ast.walk(node.ast))
    for target, what in [(ov, "overlap check"), (ac, "area/centre computation")]:
        ctx.site(init.where, f"constructor always runs the {what}")
        if not g.must_pass(lambda x: calls(x, target), ENTRY, EXIT):
            ctx.report(init.where, f"ctor-skips {what}", f"a path through Allocation.__init__ skips the {what}", lineno=init.node.lineno)
    co = canon_function(ov, ctx.model)
    good = False
    for st in co:
        if st[0] == "for" and contains(st[2], "combinations") and contains(st[2], ("a", ("self",), "_allocations")) or \
                (st[0] == "for" and contains(st[2], "combinations") and contains(st[2], ("a", ("self",), "allocations"))):
            comb = atoms_of(st[2], lambda x: x[0] == "c" and contains(x[1], "combinations"))
            if comb and comb[0][2][1] == k_num(2):
                for x in st[3]:
                    if x[0] == "assert" and x[1][0] == "not" and contains(x[1], "overlap") and contains(x[1], "rect"):
                        good = True
    ctx.site(ov.where, "overlap check covers all unordered pairs of cells with negative polarity")
    if not good:
        ctx.report(ov.where, "overlap-check-shape", "the allocation overlap check is not 'assert not a.rect.overlap(b.rect)' over combinations(cells, 2)",
                   lineno=ov.node.lineno)


def griddify_loops(ctx: Ctx, fg: FuncInfo):
    body = [st for st in fg.node.body if isinstance(st, ast.For)]
    if len(body) != 2:
        raise AnalysisError("griddify: expected exactly two top-level cut loops")
    return body


@rule("C02", "R6.cut-loops-mirror", "MIRROR",
      "the x-cut loop and the y-cut loop of griddify are mirror images (x<->y, horizontal<->vertical, the two results "
      "of gather_boundaries)", floor=1)
def r6(ctx: Ctx) -> None:
    fg = ctx.func(ALLOC, "Allocation.griddify")
    c = canon_function(fg, ctx.model)
    loops = [st for st in c if st[0] == "for"]
    if len(loops) != 2:
        raise AnalysisError("griddify: expected exactly two top-level cut loops")
    a, b = (loops[0],), (loops[1],)

    class ProjSwap(Sigma):
        def _ap(self, s):
            if isinstance(s, tuple) and len(s) == 4 and s[0] == "proj" and s[3] == 2 and isinstance(s[1], tuple) and s[1] and \
                    s[1][0] == "c" and s[1][1] == ("g", "gather_boundaries"):
                return ("proj", super()._ap(s[1]), 1 - s[2], 2)
            return super()._ap(s)
    sg = ProjSwap(attrs={"x_cuttable": "y_cuttable", "y_cuttable": "x_cuttable", "split_horizontal": "split_vertical",
                         "split_vertical": "split_horizontal"})
    ctx.site(fg.where, "x-cut loop and y-cut loop are mirror images", statements=len(a))
    from framelint.symm import canonical_labelling
    ia = sg.apply(a)
    if ia != b and canonical_labelling(ia) != canonical_labelling(b):
        d = diff_paths(canonical_labelling(ia), canonical_labelling(b))
        ctx.report(fg.where, f"mirror[cut-loops] {d[0][:200] if d else ''}", "the x-cut loop and the y-cut loop of griddify are not mirror images",
                   lineno=fg.node.lineno, differences=d)


@rule("C02", "R7.termination", "RANK",
      "the recursive splitter terminates for every request: its base case is 'levels == 0', every recursive call passes "
      "levels - 1, and every external caller passes a level count that is >= 0 by construction (a count asserted "
      "positive, the literal 0, or maximum depth - own depth over the same cells)", floor=4)
def r7(ctx: Ctx) -> None:
    sp = splitter_role(ctx)
    c = canon_function(sp, ctx.model)
    params = sp.params()
    # the rank parameter: the one the base case tests against 0
    from framelint.peval import paths
    ps = paths(c, fall=("k", "none", None))
    base = [(l, o) for l, o in ps if not contains(o, sp.name)]
    rank = None
    if len(base) == 1 and len(base[0][0]) == 1:
        t = base[0][0][0]
        if t[0] == "eq0" and t[1][0] == "p":
            rank = t[1]
    ctx.site(sp.where, "base case of the recursive splitter is 'levels == 0'", rank=show(rank) if rank else None)
    if rank is None:
        ctx.report(sp.where, "splitter-base-test", "the recursive splitter has no base case of the form 'levels == 0' (exactly one non-recursive path)", lineno=sp.node.lineno)
        return
    k = rank[1]
    selfcalls = [x for x in atoms_of(c, lambda x: x[0] == "c" and contains(x[1], sp.name) and len(x[2]) == len(params))]
    ctx.site(sp.where, "every recursive call passes levels - 1", calls=len(selfcalls))
    for sc in selfcalls:
        if sc[2][k] != (to_poly(rank) - to_poly(k_num(1))).to_s():
            ctx.report(sp.where, f"splitter-rank {show(sc[2][k])}", "a recursive call of the splitter does not pass 'levels - 1': for some level count the base case "
                       "'levels == 0' is never reached and the refinement does not terminate", lineno=sp.node.lineno)
    if len(selfcalls) < 2:
        ctx.report(sp.where, "splitter-rank-calls", "the two recursive calls of the splitter were not found", lineno=sp.node.lineno)
    # external callers
    n_callers = 0
    for f in ctx.model.all_functions():
        if f is sp or f.module.relpath != ALLOC:
            continue
        g = None
        for n, c_, s in stmt_calls(ctx, f):
            if s is None or not (contains(s[1], sp.name) and len(s[2]) == len(params)):
                continue
            n_callers += 1
            g = g or ctx.cfg(f)
            lv = s[2][k]
            facts = g.facts_at(n.id)
            cf = canon_function(f, ctx.model)

            def nonneg(e) -> bool:
                if e == k_num(0) or (e[0] == "k" and e[1] == "num" and e[2][0] >= 0):
                    return True
                if mk_lt(k_num(0), e) in facts or mk_not(mk_lt(e, k_num(0))) in facts:
                    return True
                if any(st[0] == "assert" and (mk_lt(k_num(0), e) in (set(st[1][1]) if st[1][0] == "and" else {st[1]}) or
                                               mk_not(mk_lt(e, k_num(0))) in (set(st[1][1]) if st[1][0] == "and" else {st[1]})) for st in cf):
                    return True     # asserted at the top of the function (levels is a parameter, never re-assigned)
                if e[0] == "ite":
                    return nonneg(e[2]) and nonneg(e[3])
                # max(depth of every cell) - depth of this cell, the cell being one of those cells
                p = to_poly(e)
                if len(p.t) == 2:
                    pos = [a for mono, co in p.t.items() if co == 1 for a, _ in mono]
                    neg = [a for mono, co in p.t.items() if co == -1 for a, _ in mono]
                    if len(pos) == 1 and len(neg) == 1 and pos[0][0] == "c" and pos[0][1] == ("g", "max") and len(pos[0][2]) == 1 \
                            and pos[0][2][0][0] == "comp" and len(pos[0][2][0][3]) == 1:
                        comp = pos[0][2][0]
                        b, it, cond = comp[3][0]
                        loops = [lp for lp in atoms_of(cf, lambda x: x[0] == "for" and len(x) == 5) if lp[2] == it and contains(lp[3], s)]
                        if cond == K_TRUE and loops and subst(comp[2][0], {b: loops[0][1]}) == neg[0]:
                            return True
                return False
            ok = nonneg(lv)
            ctx.site(f.where, "level count handed to the splitter is >= 0 by construction", levels=show(lv)[:160], ok=ok)
            if not ok:
                ctx.report(f.where, f"splitter-levels {f.qualname}", f"{f.qualname} can hand a negative level count to the recursive splitter, whose base case "
                           "'levels == 0' is then never reached", lineno=n.lineno, levels=show(lv)[:200])
    ctx.require(n_callers >= 2, "callers of the recursive splitter not found")



@rule("C02", "R8.geometry-primitives", "SHARED(C18)",
      "the cuts are exact: Rectangle.split / split_horizontal / split_vertical / duplicate satisfy the C18 tiling laws (pieces abut at the cut and at the parent's borders, keep the other dimension and the parent's attributes), and the overlap test of the constructor is the exact one -- the C18 rules evaluated for the helpers refinement calls", floor=10)
def shared_geometry(ctx: Ctx) -> None:
    from . import C18 as _c18
    from .common import support
    support(ctx, [_c18.r1, _c18.r3, _c18.r4, _c18.r5, _c18.r6], {"Rectangle.split", "Rectangle.split_horizontal", "Rectangle.split_vertical", "Rectangle.duplicate", "Rectangle.overlap", "Rectangle.area_overlap", "Rectangle.area", "Rectangle.bounding_box"})


@rule("C02", "R9.area-centre-definition", "LAW",
      "what 'the same total area and centre of mass' is measured with: for every module, area = sum over all its cells of "
      "ratio * cell area and centre = sum of cell centre * (ratio * cell area) / area -- every cell counts, however small "
      "its share (an absolute cut-off makes the measured area depend on how finely the cells are cut)", floor=2)
def r9(ctx: Ctx) -> None:
    from framelint.canon import fold_sums, single_defs, deref
    f = ctx.func(ALLOC, "Allocation._calculate_areas_and_centers")
    c = fold_sums(canon_function(f, ctx.model))
    s_ = ("self",)
    from .common import dict_loops
    loops = dict_loops(c, ("a", s_, "_module2rect"), top_only=True)
    ctx.site(f.where, "area of a module == sum over all its cells of ratio * cell area")
    ok_a = ok_c = False
    if len(loops) == 1:
        lp_, mod, cells = loops[0]
        body = fold_sums(lp_[3])
        bd = deref(body, single_defs(body))
        b0 = ("b", 1, 0)
        from .common import self_field
        rect = ("a", ("s", self_field(f, "_allocations"), ("a", b0, "rect_index")), "rect")
        share = (to_poly(("a", b0, "area_ratio")) * to_poly(("a", rect, "area"))).to_s()

        def total(elt):
            return ("c", ("g", "sum"), (("comp", "gen", (elt,), ((b0, cells, K_TRUE),)),), ())
        area = total(share)
        moment = total((to_poly(share) * to_poly(("a", rect, "center"))).to_s())
        for st in bd:
            if st[0] == "set" and st[1] == ("s", ("a", s_, "_areas"), mod):
                ok_a = st[2] == area
            if st[0] == "set" and st[1] == ("s", ("a", s_, "_centers"), mod):
                val = to_poly(st[2])
                zero_pt = [a for a in val.atoms() if a[0] == "c" and a[1] == ("g", "Point") and a[2] in ((k_num(0), k_num(0)), ())]
                want1 = to_poly(("inv", area)) * to_poly(moment)
                want2 = want1 + (to_poly(("inv", area)) * to_poly(zero_pt[0]) if zero_pt else to_poly(k_num(0)))
                ok_c = val.t in (want1.t, want2.t)
    ctx.site(f.where, "centre of a module == sum of cell centre * (ratio * cell area) / area", area_ok=ok_a, centre_ok=ok_c)
    if not ok_a:
        ctx.report(f.where, "module-area-definition", "the allocated area of a module is not the sum over all its cells of ratio * cell area (a cell is skipped or "
                   "weighted differently): refining the cells changes the reported area", lineno=f.node.lineno)
    if not ok_c:
        ctx.report(f.where, "module-centre-definition", "the centre of a module is not the area-weighted mean of the centres of all its cells", lineno=f.node.lineno)
