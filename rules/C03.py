"""C03 -- the initial allocation equals the exact geometric overlap."""
from __future__ import annotations

import ast

from framelint.core import rule, Ctx
from framelint.srcmodel import walk_own, AnalysisError
from framelint.canon import (canon_function, show, S, to_poly, mk_lt, mk_and, mk_or, mk_not, mk_eq, k_num, k_str, contains,
                             skey, atoms_of, Sigma, Poly)
from framelint.cfg import EXIT, ENTRY
from .common import (GEOM, ALLOC, NETLIST, MODULE, stmt_calls, exit_facts, facts_text, call_name, norm_stmt,
                     assert_conjuncts, kw_value)
from framelint.canon import canon_function as _canon_function_expanded

def canon_function(fi, model=None, opts=None):   # rules of this file match shapes: look through every local
    return _canon_function_expanded(fi, model, opts, expand=True)



def _ratio_sums(c) -> list:
    return sorted(set(atoms_of(c, lambda x: x[0] == "c" and x[1] == ("g", "sum") and contains(x, "area_overlap"))), key=skey)


def _check_ratio(ctx: Ctx, f, s_: S, cell_rect: S, module: S) -> bool:
    """sum(cell.area_overlap(r) / cell.area for r in module.rectangles)"""
    if not (len(s_[2]) == 1 and s_[2][0][0] == "comp" and len(s_[2][0][3]) == 1):
        return False
    comp = s_[2][0]
    b, it, cond = comp[3][0]
    want_body = (to_poly(("c", ("a", cell_rect, "area_overlap"), (b,), ())) * to_poly(("inv", ("a", cell_rect, "area")))).to_s()
    return comp[2][0] == want_body and it == ("a", module, "rectangles") and cond == ("k", "bool", True)


@rule("C03", "R3.ratio-formula", "LAW/KIND",
      "the occupancy ratio is sum over all rectangles of the module of area_overlap(cell, r) / area(cell) -- the divisor "
      "is the area of the very cell whose overlap is taken (area / area = pure ratio) -- in the allocator and in the "
      "fixed-cell detector", floor=2)
def r3(ctx: Ctx) -> None:
    for q in ["Allocation.initial_allocation", "Allocation._detect_fixed_rectangles"]:
        f = ctx.func(ALLOC, q)
        c = canon_function(f, ctx.model)
        sums = _ratio_sums(c)
        ctx.require(len(sums) >= 1, f"{q}: ratio sum not found")
        # cell loop var / module loop var
        loops = atoms_of(c, lambda x: x[0] == "for")
        cell = [lp[1] for lp in loops if lp[2] == ("a", ("self",), "allocations")]
        ctx.require(len(cell) == 1, f"{q}: loop over the cells not found")
        for s_ in sums:
            mods = [a[1] for a in atoms_of(s_, lambda x: x[0] == "a" and x[2] == "rectangles")]
            ok = len(mods) == 1 and _check_ratio(ctx, f, s_, ("a", cell[0], "rect"), mods[0])
            # the module variable must be the loop variable over the (fixed) modules of the netlist
            mod_loops = [lp for lp in loops if mods and lp[1] == mods[0]]
            ok = ok and len(mod_loops) >= 1 and all(contains(ml[2], "modules") for ml in mod_loops)
            ctx.site(f.where, "ratio == sum(cell.area_overlap(r) / cell.area for r in module.rectangles)", expr=show(s_)[:160])
            if not ok:
                ctx.report(f.where, f"ratio-formula {show(s_)[:200]}", f"{q}: the occupancy ratio is not the overlap with all rectangles of the module "
                           "divided by the area of the same cell", lineno=f.node.lineno)


@rule("C03", "R1.cells", "DATAFLOW",
      "create_initial_allocation builds the cell list from both the refinable and the fixed regions of the die, with an "
      "empty map and depth 0, and allocates the die's own netlist", floor=1)
def r1(ctx: Ctx) -> None:
    f = ctx.func(ALLOC, "create_initial_allocation")
    c = canon_function(f, ctx.model)
    rets = [st for st in c if st[0] == "ret"]
    ctx.require(len(rets) == 1, "create_initial_allocation: single return expected")
    e = rets[0][1]
    die = ("p", 0)
    fp = ("c", ("a", die, "floorplanning_rectangles"), (), ())
    both = (to_poly(("proj", fp, 0, 2)) + to_poly(("proj", fp, 1, 2))).to_s()
    ok = False
    if e[0] == "c" and e[1][0] == "a" and e[1][2] == "initial_allocation" and e[2] == (("a", die, "netlist"), ("p", 1)):
        ctor = e[1][1]
        if ctor[0] == "c" and ctor[1] == ("g", "Allocation") and len(ctor[2]) == 1 and ctor[2][0][0] == "comp":
            comp = ctor[2][0]
            b, it, cond = comp[3][0]
            ok = it == both and cond == ("k", "bool", True) and comp[2][0] == ("tuple", (b, ("dict", ()), k_num(0)))
    ctx.site(f.where, "cells = refinable + fixed regions, each (rect, {}, 0); netlist = die.netlist", expr=show(e)[:200])
    if not ok:
        ctx.report(f.where, f"initial-cells {show(e)[:200]}", "the initial allocation is not built on all refinable and fixed regions of the die "
                   "(each with an empty map and depth 0) for the die's netlist", lineno=f.node.lineno)
    facts = exit_facts(ctx, f)
    ctx.site(f.where, "a die without netlist is refused")
    if ("cmp", "isnot", ("a", die, "netlist"), ("k", "none")) not in facts:
        ctx.report(f.where, "no-netlist-guard", "create_initial_allocation does not refuse a die without netlist", lineno=f.node.lineno)


@rule("C03", "R2.squares-first", "MUST-PRECEDE",
      "netlist.create_squares() precedes every read of module rectangles in initial_allocation (including the fixed-cell "
      "detector); create_squares gives a square to exactly the modules without rectangles", floor=3)
def r2(ctx: Ctx) -> None:
    f = ctx.func(ALLOC, "Allocation.initial_allocation")
    g = ctx.cfg(f)
    det = ctx.func(ALLOC, "Allocation._detect_fixed_rectangles")

    def is_squares(n) -> bool:
        return n.kind == "stmt" and any(isinstance(c, ast.Call) and call_name(c) == "create_squares" for c in ast.walk(n.ast))
    readers = []
    for n in g.stmt_nodes():
        roots = [n.ast] if n.kind == "stmt" else ([n.ast.test] if n.kind == "test" else [n.ast.iter])
        for r in roots:
            for x in ast.walk(r):
                if isinstance(x, ast.Attribute) and x.attr in ("rectangles", "num_rectangles"):
                    readers.append(n)
                if isinstance(x, ast.Call) and det in ctx.model.resolve_call(f, x):
                    readers.append(n)
    ctx.require(len(readers) >= 2, "initial_allocation: readers of module rectangles not found")
    for n in readers:
        ctx.site(f.where, "create_squares() dominates this read of module rectangles", stmt=norm_stmt(n.ast)[:100])
        if not g.must_pass(is_squares, ENTRY, n.id):
            ctx.report(f.where, f"squares-after-read {norm_stmt(n.ast)[:100]}", "module rectangles are read on a path where create_squares() has not run: "
                       "a soft module without rectangles gets no area", lineno=n.lineno)
    fs = ctx.func(NETLIST, "Netlist.create_squares")
    cs = canon_function(fs, ctx.model)
    loops = [st for st in cs if st[0] == "for" and st[2] == ("a", ("self",), "modules")]
    ctx.site(fs.where, "create_squares: square for exactly the modules with no rectangle")
    ok = False
    if len(loops) == 1:
        # every way through one iteration: the square is created exactly when the module has no rectangle (the count is a
        # length, so 'not (count > 0)' says the same as 'count == 0')
        from framelint.peval import traces
        v = loops[0][1]
        n_ = ("a", v, "num_rectangles")
        none_ = {mk_eq(n_, k_num(0)), mk_not(mk_lt(k_num(0), n_)), mk_not(("a", v, "rectangles"))}
        some_ = {mk_not(mk_eq(n_, k_num(0))), mk_lt(k_num(0), n_), ("a", v, "rectangles")}
        call = ("c", ("a", v, "create_square"), (), ())
        trs = traces(loops[0][3], keep_sets=True)
        ok = bool(trs)
        for lits, effs, out in trs:
            made = any(contains(e, call) for e in effs)
            if made != bool(none_ & set(lits)) or (not made and not (some_ & set(lits))):
                ok = False
    if not ok:
        ctx.report(fs.where, "create-squares-guard", "create_squares does not call create_square() for exactly the modules with num_rectangles == 0",
                   lineno=fs.node.lineno)


@rule("C03", "R4.fixed-cells", "GUARD/OBLIGATION",
      "fixed cells are pre-allocated as {module: 1.0} at depth 0, skipped by the general loop, and the detector "
      "asserts that a cell is wholly or not at all a fixed module's and that every fixed rectangle is found; the candidate "
      "owners are exactly the fixed modules of the netlist, examined against every cell", floor=4)
def r4(ctx: Ctx) -> None:
    f = ctx.func(ALLOC, "Allocation.initial_allocation")
    c = canon_function(f, ctx.model)
    g = ctx.cfg(f)
    from framelint.canon import single_defs, deref
    defs_ = single_defs(c)
    det_loops = [st for st in c if st[0] == "for" and contains(deref(st[2], defs_), "_detect_fixed_rectangles")]
    ctx.site(f.where, "fixed cells pre-allocated with ratio 1 at depth 0")
    ok = False
    if len(det_loops) == 1 and det_loops[0][1][0] == "tuple" and len(det_loops[0][1][1]) == 2:
        r, m = det_loops[0][1][1]
        body = det_loops[0][3]
        want = ("tuple", (r, ("dict", ((m, k_num(1)),)), k_num(0)))
        ok = len(body) == 1 and body[0][0] == "expr" and body[0][1][0] == "c" and body[0][1][1][2] == "append" and body[0][1][2] == (want,)
    if not ok:
        ctx.report(f.where, "fixed-preallocation", "fixed cells are not pre-allocated as (cell, {module: 1.0}, 0)", lineno=f.node.lineno)
    # general loop: appends are dominated by 'not cell.rect.fixed'
    n_app = 0
    for n, c_, s in stmt_calls(ctx, f):
        if call_name(c_) == "append" and s is not None and s[2] and s[2][0][0] == "tuple" and contains(s[2][0], "depth"):
            n_app += 1
            cells = [a for a in atoms_of(s[2][0], lambda x: x[0] == "a" and x[2] == "rect")]
            facts = g.facts_at(n.id)
            guarded = any(mk_not(("a", a, "fixed")) in facts for a in cells)
            ctx.site(f.where, "general allocation skips fixed cells", stmt=norm_stmt(n.ast)[:100], guarded=guarded)
            if not guarded:
                ctx.report(f.where, "fixed-cell-reallocated", "the general loop allocates a cell without having skipped fixed cells: a fixed cell "
                           "is listed twice / shared with other modules", lineno=n.lineno)
    ctx.require(n_app >= 1, "initial_allocation: general append not found")
    det = ctx.func(ALLOC, "Allocation._detect_fixed_rectangles")
    cd = canon_function(det, ctx.model)
    sums = _ratio_sums(cd)
    ctx.require(len(sums) == 1, "_detect_fixed_rectangles: ratio not found")
    a_ = sums[0]
    asserts = atoms_of(cd, lambda x: x[0] == "assert")
    two_sided = False
    def unguarded(t):
        """the assertion without its 'only for fixed modules' part: an assertion under 'if m.is_fixed' is, in the normal form, the
        implication 'not m.is_fixed or ...'"""
        if t[0] == "or":
            rest = [d for d in t[1] if not (d[0] == "not" and d[1][0] == "a" and d[1][2] == "is_fixed")]
            return rest[0] if len(rest) == 1 else ("or", tuple(rest))
        return t
    for st in asserts:
        t = unguarded(st[1])
        if t[0] == "or" and len(t[1]) == 2:
            lows = [d for d in t[1] if d[0] == "lt0" and _small_upper(d, a_)]
            highs = [d for d in t[1] if d[0] == "and" and _near_one(d, a_)]
            if len(lows) == 1 and len(highs) == 1:
                two_sided = True
    ctx.site(det.where, "detector asserts ratio ~ 0 or ratio ~ 1 (two-sided)")
    if not two_sided:
        ctx.report(det.where, "detector-two-sided", "the detector does not assert 'ratio < eps or 1 - eps < ratio < 1 + eps' for every cell and fixed module",
                   lineno=det.node.lineno)
    counts = [st for st in asserts if unguarded(st[1])[0] == "eq0" and contains(st[1], "num_rectangles")]
    ctx.site(det.where, "detector asserts that every rectangle of a fixed module owns a cell")
    if len(counts) != 1:
        ctx.report(det.where, "detector-count", "the detector does not assert that the number of owned cells equals the module's number of rectangles",
                   lineno=det.node.lineno)
    # owned cells: marked fixed and recorded under the ratio ~ 1 test
    def claim_test(c_):
        """the ratio test of a claim: the test itself, or its conjunction with 'the module is fixed'"""
        if c_[0] == "lt0":
            return c_
        if c_[0] == "and":
            rest = [d for d in c_[1] if not (d[0] == "a" and d[2] == "is_fixed")]
            if len(rest) == 1 and rest[0][0] == "lt0":
                return rest[0]
        return None
    ifs = atoms_of(cd, lambda x: x[0] == "if" and len(x) == 4 and claim_test(x[1]) is not None and contains(x[1], a_))
    ctx.site(det.where, "a cell is claimed (marked fixed, recorded, counted) iff ratio > 1 - eps")
    ok = False
    for cnd in ifs:
        p = to_poly(claim_test(cnd[1])[1])
        if p.t.get(((a_, 1),)) == -1 and 0.9 <= float(p.const_value()) < 1 and len(p.t) == 2:
            sets = [x for x in cnd[2] if x[0] == "set" and x[1][0] == "a" and x[1][2] == "fixed" and x[2] == ("k", "bool", True)]
            apps = [x for x in cnd[2] if x[0] == "expr" and contains(x, "append")]
            augs = [x for x in cnd[2] if x[0] == "aug" and x[1] == "Add" and x[3] == k_num(1)]
            ok = len(sets) == 1 and len(apps) == 1 and len(augs) == 1
    if not ok:
        ctx.report(det.where, "detector-claim", "a cell with ratio ~ 1 is not marked fixed, recorded and counted exactly once", lineno=det.node.lineno)
    # the modules that can own cells are exactly the fixed modules of the netlist, and every cell is examined
    cdd = deref(cd, single_defs(cd))
    netl = ("p", 0)
    b0 = ("b", 1, 0)
    want_dom = ("comp", "list", (b0,), ((b0, ("a", netl, "modules"), ("a", b0, "is_fixed")),))
    mod_loops = [lp for lp in atoms_of(cdd, lambda x: x[0] == "for" and len(x) == 5) if contains(lp[3], a_) or contains(lp[3], "num_rectangles")]
    ctx.site(det.where, "owner candidates == [m for m in netlist.modules if m.is_fixed], for every cell of the allocation", loops=len(mod_loops))
    def over_fixed(lp):
        # the loop over the list of fixed modules; in the normal form: the loop over all modules whose whole body is 'if m.is_fixed: ...'
        if lp[2] == want_dom:
            return True
        if lp[2] != ("a", netl, "modules"):
            return False
        fx = ("a", lp[1], "is_fixed")
        # every statement of the body is about fixed modules only: a conditional on 'm.is_fixed [and ...]', an assertion 'not m.is_fixed or ...'
        def only_fixed(st):
            if st[0] == "if" and st[3] == ():
                return st[1] == fx or (st[1][0] == "and" and fx in st[1][1])
            if st[0] == "assert":
                return st[1][0] == "or" and mk_not(fx) in st[1][1]
            return False
        return bool(lp[3]) and all(only_fixed(st) for st in lp[3])
    inner = [lp for lp in mod_loops if over_fixed(lp)]
    outer = [lp for lp in atoms_of(cdd, lambda x: x[0] == "for" and len(x) == 5) if lp[2] == ("a", ("self",), "allocations") and contains(lp[3], a_)]
    if len(inner) < 2 or len(inner) != len([lp for lp in mod_loops if lp[2] != ("a", ("self",), "allocations")]) or len(outer) != 1:
        ctx.report(det.where, "detector-domain", "the detector does not examine every cell against exactly the fixed modules of the netlist "
                   "(a movable hard module would be given ownership of cells, or a fixed one would get none)", lineno=det.node.lineno)


def _small_upper(d: S, a_: S) -> bool:
    p = to_poly(d[1])
    return len(p.t) == 2 and p.t.get(((a_, 1),)) == 1 and -0.01 < float(p.const_value()) < 0


def _near_one(d: S, a_: S) -> bool:
    lo = hi = False
    for t in d[1]:
        if t[0] != "lt0":
            return False
        p = to_poly(t[1])
        if len(p.t) != 2:
            return False
        if p.t.get(((a_, 1),)) == -1 and 0.99 < float(p.const_value()) < 1:
            lo = True
        if p.t.get(((a_, 1),)) == 1 and -1.01 < float(p.const_value()) < -1:
            hi = True
    return lo and hi


@rule("C03", "R5.entry-iff-covered", "GUARD",
      "a module is listed in a cell iff zero entries are requested or its ratio is strictly positive; zero entries are off "
      "by default in both entry points and the option is handed through", floor=1)
def r5(ctx: Ctx) -> None:
    f = ctx.func(ALLOC, "Allocation.initial_allocation")
    c = canon_function(f, ctx.model)
    sums = _ratio_sums(c)
    ctx.require(len(sums) == 1, "initial_allocation: ratio not found")
    a_ = sums[0]
    ifs = atoms_of(c, lambda x: x[0] == "if" and contains(x[1], a_))
    ctx.site(f.where, "entry recorded iff include_zero or ratio > 0")
    want = mk_or([("p", 1), mk_lt(k_num(0), a_)])
    ok = False
    for cnd in ifs:
        if cnd[1] == want and len(cnd[2]) == 1 and cnd[2][0][0] == "set" and cnd[2][0][2] == a_ and cnd[2][0][1][0] == "s" \
                and cnd[2][0][1][2][0] == "a" and cnd[2][0][1][2][2] == "name" and cnd[3] == ():
            ok = True
    if not ok:
        ctx.report(f.where, "entry-condition " + " | ".join(show(x[1])[:120] for x in ifs), "the ratio is not recorded under 'include_area_zero or ratio > 0' "
                   "keyed by the module name", lineno=f.node.lineno)
    # zero entries only on request: the option is off by default in both entry points and handed through unchanged
    fc = ctx.func(ALLOC, "create_initial_allocation")
    for g_, pname in ((f, f.params()[1]), (fc, fc.params()[1])):
        a = g_.node.args
        named = a.posonlyargs + a.args
        dflt = dict(zip([x.arg for x in named][len(named) - len(a.defaults):], a.defaults))
        d = dflt.get(pname)
        okd = isinstance(d, ast.Constant) and d.value is False
        ctx.site(g_.where, "zero entries are off unless requested (default False)", parameter=pname, default=ast.unparse(d) if d is not None else None)
        if not okd:
            ctx.report(g_.where, f"zero-entries-default {g_.qualname}", f"{g_.qualname}: zero entries are listed although they were not requested "
                       "(the include-zero option does not default to False)", lineno=g_.node.lineno)
    cc = canon_function(fc, ctx.model)
    calls = atoms_of(cc, lambda x: x[0] == "c" and x[1][0] == "a" and x[1][2] == "initial_allocation")
    ctx.site(fc.where, "create_initial_allocation hands its include-zero option to initial_allocation")
    if not (len(calls) == 1 and (len(calls[0][2]) >= 2 and calls[0][2][1] == ("p", 1) or dict(calls[0][3]).get(f.params()[1]) == ("p", 1))):
        ctx.report(fc.where, "zero-entries-passed", "create_initial_allocation does not pass its include-zero option on", lineno=fc.node.lineno)


@rule("C03", "R6.default-square", "LAW",
      "Module.create_square replaces the rectangles by one square of side sqrt(total area) centred on the module centre", floor=1)
def r6(ctx: Ctx) -> None:
    f = ctx.func(MODULE, "Module.create_square")
    c = canon_function(f, ctx.model)
    from framelint.canon import single_defs, deref
    c = deref(c, single_defs(c))
    area = ("c", ("a", ("self",), "area"), (), ())
    side = ("c", ("a", ("g", "math"), "sqrt"), (area,), ())
    kc, ks = kw_value(ctx, "KW_CENTER"), kw_value(ctx, "KW_SHAPE")
    want_rect = ("c", ("g", "Rectangle"), (), tuple(sorted([(kc, ("a", ("self",), "center")), (ks, ("c", ("g", "Shape"), (side, side), ()))])))
    adds = atoms_of(c, lambda x: x[0] == "c" and x[1] == ("a", ("self",), "add_rectangle"))
    resets = [st for st in c if st[0] == "set" and st[1] == ("a", ("self",), "_rectangles") and st[2] == ("list", ())]
    ctx.site(f.where, "square of side sqrt(area) at the module centre replaces the rectangles", added=[show(a)[:160] for a in adds])
    ok = len(adds) == 1 and adds[0][2] == (want_rect,) and len(resets) == 1
    if not ok:
        ctx.report(f.where, "default-square", "create_square does not install exactly one Rectangle(center=self.center, shape=Shape(sqrt(area), sqrt(area)))",
                   lineno=f.node.lineno)
    facts = exit_facts(ctx, f)
    ctx.site(f.where, "create_square requires a centre")
    if ("cmp", "isnot", ("a", ("self",), "center"), ("k", "none")) not in facts:
        ctx.report(f.where, "square-needs-centre", "create_square does not refuse a module without centre", lineno=f.node.lineno)


@rule("C03", "R7.fresh-geometry", "PURE",
      "the geometric queries the allocation relies on (bounding_box, area, area_overlap, point_inside) have no effect and "
      "read centre / shape afresh on every call: no memo that an in-place move of a rectangle (centre.x += dx, as done "
      "when hard modules are re-centred) could leave stale", floor=4)
def r7(ctx: Ctx) -> None:
    for q in ["Rectangle.bounding_box", "Rectangle.area", "Rectangle.area_overlap", "Rectangle.point_inside"]:
        f = ctx.func(GEOM, q)
        stores = [n for n in walk_own(f.node) if isinstance(n, (ast.Attribute, ast.Subscript)) and isinstance(n.ctx, (ast.Store, ast.Del))]
        stores += [n for n in walk_own(f.node) if isinstance(n, (ast.Global, ast.Nonlocal))]
        decos = [ast.unparse(d) for d in f.node.decorator_list]
        cached = [d for d in decos if "cache" in d]
        reads_state = any(isinstance(n, ast.Attribute) and n.attr in ("center", "shape", "_center", "_shape", "bounding_box") for n in walk_own(f.node))
        ctx.site(f.where, "store-free, uncached, reads the current centre/shape", stores=len(stores), cache_decorators=cached, reads_state=reads_state)
        for n in stores:
            ctx.report(f.where, f"geometry-query-stores {ast.unparse(n)[:60]}", f"{q} writes state ({ast.unparse(n)[:40]}): a memoised bounding box / area goes stale when a rectangle "
                       "is moved in place (recenter_rectangles, flips)", lineno=n.lineno)
        for d in cached:
            ctx.report(f.where, f"geometry-query-cached {d}", f"{q} is cached by a decorator: rectangles are moved in place, so the cached value goes stale", lineno=f.node.lineno)
        if not reads_state:
            ctx.report(f.where, "geometry-query-no-state", f"{q} does not read the rectangle's current centre/shape", lineno=f.node.lineno)


@rule("C03", "R8.geometry-primitives", "SHARED(C18)",
      "the overlap the ratios are computed from is the exact one: Rectangle.area_overlap / area / bounding_box satisfy the "
      "C18 rules (x/y symmetry, low/high duality, operand symmetry, emptiness test, overlap area == product of the two "
      "extents) -- evaluated here for the helpers the allocation calls", floor=6)
def r8(ctx: Ctx) -> None:
    from . import C18 as _c18
    from .common import support
    support(ctx, [_c18.r1, _c18.r2, _c18.r3, _c18.r4, _c18.r6], {"Rectangle.area_overlap", "Rectangle.area", "Rectangle.bounding_box"})


@rule("C03", "R9.refined-die-complete", "SHARED(C11)",
      "the cells of a refined die are all the pieces of its regions: split_rectangles loses none (both halves of every split reach a "
      "work list, every queued rectangle is drained before the result is returned) -- the C11 rules evaluated for the halving driver", floor=4)
def shared_split_rectangles(ctx: Ctx) -> None:
    from . import C11 as _c11
    from .common import support
    support(ctx, [_c11.r2, _c11.r3], {"split_rectangles"})
    # ... and the cell lists handed to the allocation are the die's current ones (seeded change C03-9: a memoised pair that
    # initial_grid does not invalidate)
    support(ctx, [_c11.r6], {"Die.floorplanning_rectangles", "Die.initial_grid"})


@rule("C03", "R10.shapes-as-described", "EFFECT",
      "the shapes the ratios are computed from are the ones the netlist describes (the rectangles of a module, or the default "
      "square around its centre): building the initial allocation moves or resizes nothing -- create_initial_allocation and "
      "Allocation.initial_allocation (and the helpers cut out of them) store no attribute of a rectangle, module, point or shape; "
      "the only thing they write is the occupancy map under construction", floor=2)
def r10_shapes(ctx: Ctx) -> None:
    from .common import new_helper_calls
    entry = [ctx.func(ALLOC, "create_initial_allocation"), ctx.func(ALLOC, "Allocation.initial_allocation")]
    todo = list(entry)
    for f in entry:
        todo += [h for h, _ in new_helper_calls(ctx, f)]
    for f in todo:
        stores = [n for n in walk_own(f.node) if isinstance(n, ast.Attribute) and isinstance(n.ctx, (ast.Store, ast.Del))
                  and not (isinstance(n.value, ast.Name) and n.value.id == "self")]
        moves = [c for c in walk_own(f.node) if isinstance(c, ast.Call) and isinstance(c.func, ast.Attribute)
                 and c.func.attr in ("recenter_rectangles", "create_square", "flip", "rotate", "setup", "calculate_center_from_rectangles") ]
        ctx.site(f.where, "stores no attribute of a geometric object; moves nothing", attribute_stores=len(stores), moving_calls=len(moves))
        for n in stores:
            ctx.report(f.where, f"shape-moved {ast.unparse(n)[:50]}", f"{f.qualname} writes {ast.unparse(n)[:40]} while the initial allocation is built: the ratios are "
                       "then computed from a shape that is not the one the netlist describes (a default square pushed inside the die, a clipped "
                       "rectangle)", lineno=n.lineno)
        for c in moves:
            ctx.report(f.where, f"shape-moved {ast.unparse(c)[:50]}", f"{f.qualname} calls {c.func.attr}(): the shapes are changed while the initial allocation is built",
                       lineno=c.lineno)
