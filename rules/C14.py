"""C14 -- spectral placement keeps every movable module's disc inside the die and leaves fixed modules alone.
Convergence, the random start and round-off of the scaling are numerical: not decided."""
from __future__ import annotations

import ast

from framelint.core import rule, Ctx
from framelint.srcmodel import walk_own, AnalysisError
from framelint.canon import (canon_function, show, S, to_poly, mk_lt, mk_not, mk_and, mk_eq, k_num, contains, skey, atoms_of, Sigma, K_TRUE,
                             single_defs, deref, Poly)
from framelint.cfg import ENTRY, EXIT
from .common import SPEC, SPECALG, MODULE, call_name, norm_stmt, stmt_calls, facts_text
from framelint.canon import canon_function as _canon_function_expanded

def canon_function(fi, model=None, opts=None):   # rules of this file match shapes: look through every local
    return _canon_function_expanded(fi, model, opts, expand=True)



def _events(ctx: Ctx, f, coord: str, dim: str):
    """per CFG node: list of typestate events on coordinate vectors"""
    g = ctx.cfg(f)
    ev: dict[int, list] = {}
    for n in g.stmt_nodes():
        if n.kind != "stmt":
            continue
        st = n.ast
        out = []
        for c in ast.walk(st):
            if isinstance(c, ast.Call) and call_name(c) == "normalize" and c.args:
                a0 = c.args[0]
                if isinstance(a0, ast.Subscript) and isinstance(a0.value, ast.Name) and a0.value.id == coord:
                    out.append(("norm", "@coord"))
                elif isinstance(a0, ast.Name):
                    out.append(("norm", a0.id))
            if isinstance(c, ast.Call) and call_name(c) == "orthogonalize" and c.args and isinstance(c.args[0], ast.Name) and c.args[0].id == coord:
                out.append(("denorm", "@coord"))
        if isinstance(st, ast.Assign):
            for t in st.targets:
                if isinstance(t, ast.Name) and t.id != coord:
                    out.append(("fresh", t.id))
                if isinstance(t, ast.Subscript) and isinstance(t.value, ast.Name) and t.value.id == coord:
                    src = st.value.id if isinstance(st.value, ast.Name) else None
                    out.append(("store", src))
                if isinstance(t, ast.Subscript) and isinstance(t.value, ast.Subscript) and isinstance(t.value.value, ast.Name) and t.value.value.id == coord:
                    out.append(("denorm", "@coord"))
        if isinstance(st, ast.AugAssign):
            t = st.target
            while isinstance(t, ast.Subscript):
                t = t.value
            if isinstance(t, ast.Name) and t.id == coord:
                out.append(("denorm", "@coord"))
        if out:
            ev[n.id] = out
    return g, ev


@rule("C14", "R1.normalised-last", "TYPESTATE",
      "in spectral_layout_die the last writer of the coordinate vector of each dimension, on every path to the end of "
      "that dimension's iteration, is normalize(): orthogonalisation and the centroid step are always followed by a "
      "normalisation before the vector is kept", floor=3)
def r1(ctx: Ctx) -> None:
    top = ctx.func(SPECALG, "spectral_layout_die")
    f = top

    def matrix_of(fn):
        for c in walk_own(fn.node):
            if isinstance(c, ast.Call) and call_name(c) == "orthogonalize" and c.args and isinstance(c.args[0], ast.Name):
                return c.args[0].id
        return None
    # the coordinate matrix: the local that is returned (sliced) and passed to orthogonalize
    coord = matrix_of(f)
    if coord is None:
        # the iteration of one dimension cut out into a function of its own (one that cannot be looked through): the typestate is
        # followed there, and every way out of that function is the end of the dimension's iteration
        from .common import new_helper_calls
        hosts = [h for h, _ in new_helper_calls(ctx, top) if matrix_of(h) is not None]
        if len(hosts) == 1:
            f = hosts[0]
            coord = matrix_of(f)
    ctx.require(coord is not None, "spectral_layout_die: orthogonalize(coord, ...) call not found")
    g, ev = _events(ctx, f, coord, "d")
    n_norm = sum(1 for e in ev.values() for x in e if x[0] == "norm")
    n_den = sum(1 for e in ev.values() for x in e if x[0] in ("denorm", "store"))
    ctx.require(n_den >= 2, f"typestate events fewer than confirmed (norm={n_norm}, writes={n_den})")
    # forward dataflow: state[name] in {"N", "D"}; join: D wins; unknown names are D
    IN: dict[int, dict] = {}
    work = [ENTRY]
    IN[ENTRY] = {}

    def join(a: dict, b: dict) -> dict:
        keys = set(a) | set(b)
        return {k: ("N" if a.get(k, "D") == "N" and b.get(k, "D") == "N" else "D") for k in keys}
    seen_first: set[int] = set()
    while work:
        x = work.pop()
        st = dict(IN[x])
        for e in ev.get(x, []):
            if e[0] == "norm":
                st[e[1]] = "N"
            elif e[0] == "denorm":
                st[e[1]] = "D"
            elif e[0] == "fresh":
                st[e[1]] = "D"
            elif e[0] == "store":
                st["@coord"] = st.get(e[1], "D") if e[1] else "D"
        for edge in g.succ.get(x, []):
            if edge.dst not in IN:
                IN[edge.dst] = dict(st)
                work.append(edge.dst)
            else:
                new = join(IN[edge.dst], st) if edge.dst in seen_first else join(IN[edge.dst], st)
                if new != IN[edge.dst]:
                    IN[edge.dst] = new
                    work.append(edge.dst)
            seen_first.add(edge.dst)
    # check points: the statement(s) that close a dimension's iteration (last statement of the 'for d' body) and the return
    if f is not top:
        # check points: every return of the cut-out function (the state when it is reached) -- it has no other way out
        rets_ = [n for n in walk_own(f.node) if isinstance(n, ast.Return)]
        ctx.require(len(rets_) >= 1 and isinstance(f.node.body[-1], ast.Return), f"{f.qualname}: does not end in a return")
        for node_ast in rets_:
            state = IN.get(g.node_for(node_ast), {}).get("@coord", "D")
            ctx.site(f.where, "coordinate vector is in the normalised state at every return of the dimension's iteration", state=state)
            if state != "N":
                ctx.report(f.where, f"not-normalised-at {norm_stmt(node_ast)[:60]}", "a path reaches the end of a dimension's iteration with a coordinate vector whose last "
                           "writer is not normalize(): the disc of a module can stick out of the die", lineno=node_ast.lineno)
        # in the caller: the matrix handed to the helper is the one returned, and nothing writes it after the calls
        calls_ = [c for c in walk_own(top.node) if isinstance(c, ast.Call) and call_name(c) == f.name]
        ctx.require(len(calls_) >= 1, f"spectral_layout_die: call of {f.name} not found")
        pos_ = [a.arg for a in f.node.args.posonlyargs + f.node.args.args].index(coord)
        mats = {ast.unparse(c.args[pos_]) for c in calls_ if len(c.args) > pos_ and isinstance(c.args[pos_], ast.Name)}
        ctx.require(len(mats) == 1, "spectral_layout_die: the coordinate matrix handed to the iteration was not found")
        mat = mats.pop()
        last_call = max(c.lineno for c in calls_)
        writes = [n for n in walk_own(top.node) if getattr(n, "lineno", 0) > last_call and (
            (isinstance(n, ast.Subscript) and isinstance(n.ctx, (ast.Store, ast.Del)) and ast.unparse(n).startswith(mat + "["))
            or (isinstance(n, ast.Call) and call_name(n) in ("orthogonalize", "normalize") and n.args and ast.unparse(n.args[0]).startswith(mat)))]
        ctx.site(top.where, "no write of the coordinates after the iterations", writes_after=len(writes))
        for n in writes:
            ctx.report(top.where, f"write-after-normalise {ast.unparse(n)[:60]}", "the coordinates are modified after their last normalisation", lineno=n.lineno)
        rets = [n for n in walk_own(top.node) if isinstance(n, ast.Return)]
        ok = len(rets) == 1 and (any(isinstance(x, ast.Name) and x.id == mat for x in ast.walk(rets[0].value)) or
                                 any(isinstance(st, ast.Assign) and isinstance(st.value, ast.Subscript) and isinstance(st.value.value, ast.Name) and st.value.value.id == mat
                                     for st in walk_own(top.node)))
        ctx.site(top.where, "the returned coordinates are the dimensions 1.. of the normalised matrix")
        if not ok:
            ctx.report(top.where, "returned-matrix", "spectral_layout_die does not return the normalised coordinate matrix", lineno=top.node.lineno)
        return
    fors = [n for n in walk_own(f.node) if isinstance(n, ast.For) and any(isinstance(c, ast.Call) and call_name(c) == "orthogonalize" for c in ast.walk(n))]
    ctx.require(len(fors) == 1, "loop over the dimensions not found")
    last = fors[0].body[-1]
    for node_ast, what in [(last, "end of a dimension's iteration")]:
        nid = g.node_for(node_ast)
        state = IN.get(nid, {}).get("@coord", "D")
        ctx.site(f.where, f"coordinate vector is in the normalised state at the {what}", state=state)
        if state != "N":
            ctx.report(f.where, f"not-normalised-at {norm_stmt(node_ast)[:60]}", "a path reaches the end of a dimension's iteration with a coordinate vector whose last "
                       "writer is not normalize(): the disc of a module can stick out of the die", lineno=node_ast.lineno)
    # nothing writes the matrix after the loop
    after = [n for n in g.stmt_nodes() if n.id in ev and any(e[0] in ("denorm", "store") for e in ev[n.id]) and
             n.lineno > fors[0].end_lineno]
    ctx.site(f.where, "no write of the coordinates after the loop over the dimensions", writes_after=len(after))
    for n in after:
        ctx.report(f.where, f"write-after-normalise {norm_stmt(n.ast)[:60]}", "the coordinates are modified after their last normalisation", lineno=n.lineno)
    # the returned matrix is the normalised one
    rets = [n for n in walk_own(f.node) if isinstance(n, ast.Return)]
    ctx.site(f.where, "the returned coordinates are the dimensions 1.. of the normalised matrix")
    ok = len(rets) == 1 and any(isinstance(x, ast.Name) and x.id == coord for x in ast.walk(rets[0].value)) or \
        any(isinstance(st, ast.Assign) and isinstance(st.value, ast.Subscript) and isinstance(st.value.value, ast.Name) and st.value.value.id == coord
            for st in walk_own(f.node))
    if not ok:
        ctx.report(f.where, "returned-matrix", "spectral_layout_die does not return the normalised coordinate matrix", lineno=f.node.lineno)


@rule("C14", "R2.fixed-skipped", "GUARD",
      "normalize() scales only movable nodes and computes the scale only from movable nodes; the centroid step keeps the "
      "coordinate of fixed nodes; orthogonalize() leaves fixed nodes alone", floor=4)
def r2(ctx: Ctx) -> None:
    f = ctx.func(SPECALG, "normalize")
    c = canon_function(f, ctx.model)
    c = deref(c, single_defs(c))
    x, span, fixed = ("p", 0), ("p", 1), ("p", 2)
    loops = [lp for lp in c if lp[0] == "for" and lp[2] == ("c", ("g", "range"), (("c", ("g", "len"), (x,), ()),), ())]
    ctx.site(f.where, "every movable entry (and only those) is multiplied by the common scale")
    ok = False
    scale = None
    if len(loops) == 1:
        i = loops[0][1]
        body = loops[0][3]
        if len(body) == 1 and body[0][0] == "if" and body[0][1] == mk_not(("s", fixed, i)) and len(body[0][2]) == 1 and body[0][2][0][0] == "aug" \
                and body[0][2][0][1] == "Mult" and body[0][2][0][2] == ("s", x, i) and body[0][3] == ():
            scale = body[0][2][0][3]
            ok = True
    if not ok:
        ctx.report(f.where, "normalize-scaling", "normalize() does not multiply exactly the non-fixed entries by the scale", lineno=f.node.lineno)
        return
    raw = canon_function(f, ctx.model)
    scale = deref(scale, single_defs(raw))
    ctx.site(f.where, "scale == min over movable, non-zero entries of max_span[i] / |x[i]|", scale=show(scale)[:200])
    ok = False
    if scale[0] == "c" and scale[1] == ("g", "min") and len(scale[2]) == 1 and scale[2][0][0] == "comp":
        comp = scale[2][0]
        b, it, cond = comp[3][0]
        body = comp[2][0]
        want_body = (to_poly(("s", span, b)) * to_poly(("inv", ("c", ("g", "abs"), (("s", x, b),), ())))).to_s()
        conj = set(cond[1]) if cond[0] == "and" else {cond}
        ok = body == want_body and it == ("c", ("g", "range"), (("c", ("g", "len"), (x,), ()),), ()) and mk_not(("s", fixed, b)) in conj and \
            any(t[0] == "lt0" and contains(t, ("c", ("g", "abs"), (("s", x, b),), ())) for t in conj) and len(conj) == 2
    if not ok:
        ctx.report(f.where, "normalize-scale", "the scale is not min(max_span[i] / |x[i]|) over the movable entries with |x[i]| > tiny: after scaling "
                   "|x[i]| <= max_span[i] would not hold for every movable node", lineno=f.node.lineno)
    g = ctx.func(SPECALG, "spectral_layout_die")
    ctx.site(g.where, "centroid step keeps the coordinate of fixed nodes")

    def keeps_fixed(cg, fx) -> bool:
        comps = atoms_of(cg, lambda x_: x_[0] == "comp" and x_[1] == "list" and contains(x_, ("g", "calculate_centroids")) or
                         (x_[0] == "comp" and x_[1] == "list" and x_[2] and x_[2][0][0] == "ite"))
        cands = [(cp[2][0], cp[3][0][0]) for cp in comps]
        # the normal form of a comprehension that is assigned: the loop collecting its elements
        for lp in atoms_of(cg, lambda x_: x_[0] == "for" and len(x_) == 5 and len(x_[3]) == 1 and x_[3][0][0] == "expr" and x_[3][0][1][0] == "c"
                           and x_[3][0][1][1][0] == "a" and x_[3][0][1][1][2] == "append" and len(x_[3][0][1][2]) == 1):
            cands.append((lp[3][0][1][2][0], lp[1]))
        for body, b in cands:
            if body[0] == "ite" and body[1] == ("s", fx, b) and body[2][0] == "s" and body[2][2] == b and contains(body[2], "v") and body[3][0] == "s" and body[3][2] == b:
                return True
        return False
    ok = keeps_fixed(canon_function(g, ctx.model), ("p", 4))
    if not ok:
        # the iteration of one dimension cut out into a function of its own: the step is looked for there, 'fixed' being the
        # parameter that receives spectral_layout_die's
        from .common import new_helper_calls
        for h, roles in new_helper_calls(ctx, g):
            for hp_, gp_ in roles.items():
                if gp_ == 4 and contains(canon_function(h, ctx.model), ("g", "calculate_centroids")):
                    ok = ok or keeps_fixed(canon_function(h, ctx.model), ("p", hp_))
    if not ok:
        ctx.report(g.where, "centroid-fixed", "the centroid step does not keep coord[d][i] for fixed nodes", lineno=g.node.lineno)
    o = ctx.func(SPECALG, "orthogonalize")
    co = canon_function(o, ctx.model)
    ctx.site(o.where, "orthogonalize keeps fixed entries")
    sets = atoms_of(co, lambda x_: x_[0] == "set" and len(x_) == 3 and x_[2][0] == "comp")
    ok = any(st[2][2][0][0] == "ite" and st[2][2][0][1] == ("s", ("p", 3), st[2][3][0][0]) and st[2][2][0][2] == ("s", ("s", ("p", 0), ("p", 2)), st[2][3][0][0]) for st in sets)
    if not ok:
        ctx.report(o.where, "orthogonalize-fixed", "orthogonalize() does not keep the coordinate of fixed nodes", lineno=o.node.lineno)


@rule("C14", "R3.span", "KIND(DIM)",
      "radius = sqrt(mass / pi) (length from an area) and max_span = size/2 - radius per node and dimension; the homogeneous "
      "dimension 0 has size 2", floor=2)
def r3(ctx: Ctx) -> None:
    g = ctx.func(SPECALG, "spectral_layout_die")
    raw = canon_function(g, ctx.model)
    defs = single_defs(raw)
    mass, size = ("p", 1), ("p", 2)
    n = ("c", ("g", "len"), (("p", 0),), ())
    b = ("b", 1, 0)
    radius = ("comp", "list", (("c", ("a", ("g", "math"), "sqrt"), ((to_poly(("s", mass, b)) * to_poly(("inv", ("a", ("g", "math"), "pi")))).to_s(),), ()),),
              ((b, ("c", ("g", "range"), (n,), ()), K_TRUE),))
    rads = [v for v, e in defs.items() if deref(e, defs) == radius] + ([1] if contains(raw, radius) else [])
    ctx.site(g.where, "radius[i] == sqrt(mass[i] / pi)", found=bool(rads))
    if not rads:
        ctx.report(g.where, "radius-definition", "the node radius is not sqrt(mass / pi)", lineno=g.node.lineno)
    full = deref(raw, defs)
    spans = atoms_of(full, lambda x_: x_[0] == "comp" and x_[1] == "list" and x_[2] and x_[2][0][0] == "comp" and contains(x_, radius))
    ctx.site(g.where, "max_span[d][i] == ([2] + size)[d] / 2 - radius[i]", found=len(spans))
    ok = False
    for sp in spans:
        d_ = sp[3][0][0]
        inner = sp[2][0]
        i_ = inner[3][0][0]
        new_size = (to_poly(("list", (k_num(2),))) + to_poly(size)).to_s()
        from framelint.canon import _shift_bound
        want = (to_poly(("s", new_size, _shift_bound(d_, 1))).scale(__import__("fractions").Fraction(1, 2)) - to_poly(("s", radius, i_))).to_s()
        if inner[2][0] == want and inner[3][0][1] == ("c", ("g", "range"), (n,), ()) and \
                sp[3][0][1] == ("c", ("g", "range"), ((to_poly(("c", ("g", "len"), (size,), ())) + Poly.const(1)).to_s(),), ()):
            ok = True
    if not ok:
        ctx.report(g.where, "span-definition", "max_span is not size/2 - radius for every node and dimension", lineno=g.node.lineno)


@rule("C14", "R4.effects", "EFFECT/GUARD",
      "Spectral.spectral_layout writes module centres only for movable modules (a fixed module keeps the very centre it "
      "had), re-centres hard modules rigidly only when they are not fixed, and touches neither areas nor nets; "
      "recenter_rectangles is a pure translation by one increment pair", floor=4)
def r4(ctx: Ctx) -> None:
    f = ctx.func(SPEC, "Spectral.spectral_layout")
    g = ctx.cfg(f)
    cn = g.canon()
    n_w = 0
    for n in g.stmt_nodes():
        if n.kind != "stmt" or not isinstance(n.ast, ast.Assign):
            continue
        for t in n.ast.targets:
            if isinstance(t, ast.Attribute) and t.attr == "center" and not (isinstance(n.ast.value, ast.Constant) and n.ast.value.value is None):
                n_w += 1
                who = cn.expr(t.value)
                facts = g.facts_at(n.id)
                loops_ = [lp for lp in walk_own(f.node) if isinstance(lp, ast.For) and n.ast in list(ast.walk(lp))]
                idx = None
                if loops_ and isinstance(loops_[-1].iter, ast.Call) and call_name(loops_[-1].iter) == "enumerate" and isinstance(loops_[-1].target, ast.Tuple):
                    idx = cn.expr_store(loops_[-1].target.elts[0])
                ok = mk_not(("a", who, "is_fixed")) in facts or (idx is not None and mk_not(("s", ("a", ("self",), "_fixed_modules"), idx)) in facts)
                ctx.site(f.where, "centre written only for movable modules", stmt=norm_stmt(n.ast)[:90], guarded=ok)
                if not ok:
                    ctx.report(f.where, f"fixed-centre-rewritten {norm_stmt(n.ast)[:90]}",
                               "the centre of every module, fixed ones included, is recomputed as coordinate + size/2: (c - s/2) + s/2 != c in floating "
                               "point, so a fixed terminal at x = 0.1 in a unit die moves to 0.09999999999999998", lineno=n.lineno)
    ctx.require(n_w >= 1, "spectral_layout: centre write not found")
    calls = [(n, c) for n, c, s in stmt_calls(ctx, f) if call_name(c) == "recenter_rectangles"]
    ctx.require(len(calls) >= 1, "spectral_layout: recenter_rectangles call not found")
    for n, c in calls:
        who = cn.expr(c.func.value)
        facts = g.facts_at(n.id)
        ok = ("a", who, "is_hard") in facts and mk_not(("a", who, "is_fixed")) in facts
        ctx.site(f.where, "recenter_rectangles only for hard, non-fixed modules", guarded=ok)
        if not ok:
            ctx.report(f.where, "recenter-unguarded", "rectangles are re-centred for a module that is not known to be hard and movable", lineno=n.lineno)
    eff = ctx.effects()
    fields = eff.fields.get(f, {})
    allowed = {"center", "_center", "x", "y", "_centers", "<elements>", "_total_area", "_area_rectangles"}
    ctx.site(f.where, "fields written by the placement", written={k: sorted(v) for k, v in fields.items()})
    for p, fs in fields.items():
        for fl in sorted(fs - allowed):
            ctx.report(f.where, f"placement-writes {p}.{fl}", f"spectral_layout modifies {fl} (only centres may change)", lineno=f.node.lineno)
    # building the graph of the netlist writes the graph only: the nets (members, weights) and the modules are read
    for q in ("Spectral._build_graph", "Spectral.__init__"):
        fb = ctx.func(SPEC, q)
        wrote = eff.fields.get(fb, {})
        own = {"_adj", "_centers", "_fixed_modules", "_mass", "<elements>"}
        ctx.site(fb.where, "graph construction writes only the graph fields of the placer", written={k: sorted(v) for k, v in wrote.items()})
        for p_, fs in wrote.items():
            for fl in sorted(fs - own):
                if q.endswith("__init__") and fl.startswith("_") and p_ == "self" and fl not in ("_weight", "_modules", "_edges"):
                    continue      # fields of the Netlist base constructor
                ctx.report(fb.where, f"graph-build-writes {p_}.{fl}", f"{q} modifies {fl} while building the graph: the nets / modules of the netlist are "
                           "not left unchanged (e.g. a net weight rescaled in place)", lineno=fb.node.lineno)
    r = ctx.func(MODULE, "Module.recenter_rectangles")
    cr = canon_function(r, ctx.model)
    from framelint.canon import fold_sums
    cr = fold_sums(cr)
    crd = deref(cr, single_defs(cr))
    s_ = ("self",)
    # the translation loop, on the main line or under the 'there are rectangles' test (the only other statements are assertions)
    main = [st for st in crd if st[0] != "assert"]
    if len(main) == 1 and main[0][0] == "if" and main[0][3] == ():
        main = [st for st in main[0][2] if st[0] != "assert"]
    loops = [lp for lp in main if lp[0] == "for" and lp[2] == ("a", s_, "rectangles")] if len(main) == 1 else []
    ctx.site(r.where, "recenter_rectangles: same (dx, dy) added to every rectangle centre; nothing else written")
    ok = False
    if len(loops) == 1:
        rv = loops[0][1]
        augs = [st for st in loops[0][3] if st[0] == "aug" and st[1] == "Add"]
        if len(augs) == 2 and len(loops[0][3]) == 2:
            tx = [a for a in augs if a[2] == ("a", ("a", rv, "center"), "x")]
            ty = [a for a in augs if a[2] == ("a", ("a", rv, "center"), "y")]
            if len(tx) == 1 and len(ty) == 1 and not contains(tx[0][3], rv) and not contains(ty[0][3], rv):
                from .common import sigma_xy
                ok = sigma_xy().apply(tx[0][3]) == ty[0][3] and contains(tx[0][3], ("a", ("a", s_, "center"), "x"))
                # the increment is (new centre) - (centre of mass of the rectangles): the very definition used by
                # Module.calculate_center_from_rectangles, which every later stage uses to recompute the position
                b = ("b", 1, 0)
                gen = lambda body: ("c", ("g", "sum"), (("comp", "gen", (body,), ((b, ("a", s_, "rectangles"), ("k", "bool", True)),)),), ())
                w = ("a", b, "area")
                moment = gen((to_poly(("a", ("a", b, "center"), "x")) * to_poly(w)).to_s())
                want = (to_poly(("a", ("a", s_, "center"), "x")) - to_poly(moment) * to_poly(("inv", gen(w)))).to_s()
                ctx.site(r.where, "recenter_rectangles: increment = centre - area-weighted centroid of the rectangles", increment=show(tx[0][3])[:200])
                if ok and tx[0][3] != want:
                    ctx.report(r.where, "recenter-centroid", "the rectangles of a hard module are not translated by (centre - area-weighted centroid): the position "
                               "recomputed from the rectangles (calculate_center_from_rectangles) differs from the placed centre, so the disc "
                               "of an L- or T-shaped macro placed against the die boundary leaves the die", lineno=r.node.lineno,
                               increment=show(tx[0][3])[:300], expected=show(want)[:300])
                # sibling: the definition of a module's position from its rectangles is that same centroid
                k = ctx.func(MODULE, "Module.calculate_center_from_rectangles")
                ck = fold_sums(canon_function(k, ctx.model))
                ckd = deref(ck, single_defs(ck))
                pts = [st[2] for st in ckd if st[0] == "set" and st[1] == ("a", s_, "center")]
                cx = (to_poly(moment) * to_poly(("inv", gen(w)))).to_s()
                ctx.site(k.where, "calculate_center_from_rectangles: centre = area-weighted centroid (the position recenter_rectangles establishes)")
                if not (len(pts) == 1 and pts[0][0] == "c" and pts[0][1] == ("g", "Point") and len(pts[0][2]) == 2 and pts[0][2][0] == cx
                        and sigma_xy().apply(pts[0][2][0]) == pts[0][2][1]):
                    ctx.report(k.where, "centroid-definition", "the centre recomputed from the rectangles is not the area-weighted centroid that recenter_rectangles "
                               "moves onto the placed centre", lineno=k.node.lineno)
    # a hard module without rectangles (a movable terminal) has nothing to move: the centroid -- a division by the total
    # rectangle area -- is computed only for a non-empty rectangle list
    gr = ctx.cfg(r)
    nrect = ("a", s_, "num_rectangles")
    lenr = ("c", ("g", "len"), (("a", s_, "rectangles"),), ())
    nonempty = {mk_not(mk_eq(nrect, k_num(0))), mk_lt(k_num(0), nrect), mk_not(mk_eq(lenr, k_num(0))), mk_lt(k_num(0), lenr), ("a", s_, "rectangles")}
    divs = [n for n in gr.stmt_nodes() if n.kind == "stmt" and any(isinstance(x, ast.BinOp) and isinstance(x.op, ast.Div) for x in ast.walk(n.ast))]
    ctx.site(r.where, "the centroid of the rectangles is computed only when there are rectangles", divisions=len(divs))
    for n in divs:
        if not (nonempty & set(gr.facts_at(n.id))):
            ctx.report(r.where, f"recenter-empty {norm_stmt(n.ast)[:80]}", "recenter_rectangles divides by the total rectangle area of a module that may have no "
                       "rectangles: spectral placement of a netlist with a movable terminal fails with ZeroDivisionError", lineno=n.lineno)
    facts = ctx.cfg(r).facts_at(EXIT)
    guard_ok = ("a", s_, "is_hard") in facts and mk_not(("a", s_, "is_fixed")) in facts
    if not ok or not guard_ok:
        ctx.report(r.where, f"recenter-translation ok={ok} guard={guard_ok}", "recenter_rectangles is not a rigid translation of all rectangles of a hard, movable module",
                   lineno=r.node.lineno)


@rule("C14", "R5.result-written-complete", "SHARED(C04)",
      "the netlist the tool writes carries the modules unchanged apart from their centres: the writer emits every attribute with the "
      "value the module has (per-region areas in full, kinds, rectangles, nets) -- the C04 writer rules evaluated for the writer the "
      "tool calls", floor=3)
def shared_writer(ctx: Ctx) -> None:
    from . import C04 as _c04
    from .common import support
    support(ctx, [_c04.r2, _c04.r3, _c04.r6], {"dump_yaml_module", "dump_yaml_modules", "dump_yaml_rectangles", "dump_yaml_edges", "Netlist.write_yaml"})


@rule("C14", "R6.objects-not-shared", "SHARED(C20)",
      "the rectangles that are translated in place with their module belong to that module alone: the code that builds "
      "modules and rectangles from a description (frame/netlist, frame/geometry) keeps no process-wide cache or "
      "memoising decorator through which two modules -- or two readings of one text -- would receive the same Rectangle "
      "object (then one module's translation moves the other's pieces; seeded change C14-9) -- the C20 state inventory "
      "restricted to those packages", floor=1)
def shared_state(ctx: Ctx) -> None:
    from . import C20 as _c20
    rid = ctx.current.rid
    n_f, n_s = len(ctx.findings), len(ctx.sites.get(rid, []))
    _c20.r1(ctx)
    pk = ("frame/netlist/", "frame/geometry/")
    new_f = ctx.findings[n_f:]
    del ctx.findings[n_f:]
    ctx.findings.extend(f for f in new_f if f.where.startswith(pk))
    sites = ctx.sites.get(rid, [])
    new_s = sites[n_s:]
    del sites[n_s:]
    sites.extend(s for s in new_s if s.get("where", "").startswith(pk))
    ctx.require(len(sites) - n_s >= 1, "no process-wide state of frame/netlist or frame/geometry inventoried (Rectangle's tolerance was expected)")
