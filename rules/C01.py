"""C01 -- die decomposition is an exact tiling (Die.__init__, parse_yaml_die, gather_boundaries)."""
from __future__ import annotations

import ast

from framelint.core import rule, Ctx
from framelint.srcmodel import walk_own, AnalysisError, FuncInfo
from framelint.canon import (Canon, CanonOptions, canon_function, show, S, to_poly, mk_lt, mk_and, mk_not, mk_eq, k_num,
                             k_str, contains, skey, atoms_of, Sigma, diff_paths, mk_call, K_TRUE, K_NONE)
from framelint.cfg import EXIT, ENTRY
from framelint.kinds import IndexSpec, IndexTyper
from .common import (eq_constants, GEOM, DIE, PARSE_DIE, YWRITE, sigma_xy, stmt_calls, exit_facts, facts_text, call_name, norm_stmt,
                     attr_stores_in_repo, mutating_calls_on_attr, assert_conjuncts, enclosing_loops, is_eps_atom,
                     kw_value, check_closed)

LISTS = {"blockages": "_blockages", "fixed_regions": "_fixed", "ground_regions": "_ground_regions",
         "specialized_regions": "_specialized_regions"}
PRIV = set(LISTS.values())
from framelint.canon import canon_function as _canon_function_expanded

def canon_function(fi, model=None, opts=None):   # rules of this file match shapes: look through every local
    return _canon_function_expanded(fi, model, opts, expand=True)



def _list_atoms(s: S) -> set[str]:
    """which of the four region lists an expression mentions (public or private name) -> canonical public names"""
    out = set()
    inv = {v: k for k, v in LISTS.items()}
    for a in atoms_of(s, lambda x: x[0] == "a" and len(x) == 3 and x[1] == ("self",)):
        if a[2] in LISTS:
            out.add(a[2])
        elif a[2] in inv:
            out.add(inv[a[2]])
    return out


def _self_check_role(ctx: Ctx):
    """The method of Die that asserts non-overlap over the region lists (found by role, not by name).
    Returns None when no such method exists (then the constructor cannot be running a tiling self-check)."""
    cands = []
    cls = ctx.model.cls(DIE, "Die")
    for g in cls.methods.values():
        for a in walk_own(g.node):
            if isinstance(a, ast.Assert) and any(isinstance(c, ast.Call) and call_name(c) == "overlap" for c in ast.walk(a.test)):
                cands.append(g)
                break
    if len(cands) > 1:
        raise AnalysisError(f"C01: self-check role (Die method asserting non-overlap) not unique: {[c.qualname for c in cands]}")
    return cands[0] if cands else None


def _writes_region_lists(ctx: Ctx, fi: FuncInfo, _seen=None) -> bool:
    """does fi (or a Die method it calls) write one of the region lists?"""
    _seen = _seen if _seen is not None else set()
    if fi in _seen:
        return False
    _seen.add(fi)
    for n in walk_own(fi.node):
        if isinstance(n, ast.Attribute) and n.attr in PRIV and isinstance(n.ctx, ast.Store):
            return True
        if isinstance(n, ast.Call) and isinstance(n.func, ast.Attribute) and isinstance(n.func.value, ast.Attribute) \
                and n.func.value.attr in (PRIV | set(LISTS)) and n.func.attr in ("append", "extend", "insert", "remove", "pop", "clear"):
            return True
    for g in ctx.model.callees(fi, include_properties=False):
        if g.cls is not None and g.cls.name == "Die" and g.kind == "method" and _writes_region_lists(ctx, g, _seen):
            return True
    return False


@rule("C01", "R1.self-check-last", "MUST-PASS",
      "in Die.__init__ every path from any write of a region list to the normal exit passes the tiling self-check", floor=3)
def r1(ctx: Ctx) -> None:
    init = ctx.func(DIE, "Die.__init__")
    chk = _self_check_role(ctx)
    g = ctx.cfg(init)
    if chk is None:
        for _ in range(3):
            ctx.site(init.where, "a tiling self-check exists")
        ctx.report(init.where, "no-self-check", "no method of Die asserts non-overlap of the regions: the constructor accepts whatever the greedy cover computes",
                   lineno=init.node.lineno)
        return

    def calls(node, target: FuncInfo) -> bool:
        if node.ast is None or node.kind not in ("stmt",):
            return False
        if target is init:   # self-check written inline in the constructor
            return isinstance(node.ast, ast.Assert) and any(isinstance(c, ast.Call) and call_name(c) == "overlap" for c in ast.walk(node.ast.test))
        for c in ast.walk(node.ast):
            if isinstance(c, ast.Call) and target in ctx.model.resolve_call(init, c):
                return True
        return False
    check_nodes = [n for n in g.stmt_nodes() if calls(n, chk)]
    writers = []
    for n in g.stmt_nodes():
        if n.ast is None:
            continue
        w = False
        roots = [n.ast] if n.kind == "stmt" else ([n.ast.test] if n.kind == "test" else [n.ast.iter])
        for r in roots:
            for x in ast.walk(r):
                if isinstance(x, ast.Attribute) and x.attr in PRIV and isinstance(x.ctx, ast.Store):
                    w = True
                if isinstance(x, ast.Call):
                    if isinstance(x.func, ast.Attribute) and isinstance(x.func.value, ast.Attribute) and \
                            x.func.value.attr in (PRIV | set(LISTS)) and x.func.attr in ("append", "extend", "insert", "remove", "pop", "clear"):
                        w = True
                    for callee in ctx.model.resolve_call(init, x):
                        if callee.cls is not None and callee.cls.name == "Die" and callee is not chk and _writes_region_lists(ctx, callee):
                            w = True
        if w:
            writers.append(n)
    ctx.require(len(writers) >= 3, f"Die.__init__: fewer region-list writes than confirmed ({len(writers)})")
    for w in writers:
        ctx.site(init.where, "region-list write is followed by the self-check on every path to the exit", stmt=norm_stmt(w.ast))
        if not g.must_pass(lambda x: calls(x, chk), w.id, EXIT):
            ctx.report(init.where, f"write-after-check {norm_stmt(w.ast)}",
                       "a path from this write of a region list reaches the end of the constructor without the tiling self-check",
                       lineno=w.lineno)


def _all_lists(s: S) -> bool:
    return _list_atoms(s) == set(LISTS)


@rule("C01", "R2.self-check-complete", "OBLIGATION",
      "the self-check asserts, over a collection built from all four region lists: both corners inside the die on both "
      "axes, no overlap for every unordered pair, and |sum of areas - die area| below a tolerance that is finer than the "
      "slack of the pairwise overlap test (not the area tolerance)", floor=3)
def r2(ctx: Ctx) -> None:
    chk = _self_check_role(ctx)
    if chk is None:
        for what in ("inside", "overlap", "area"):
            ctx.site(DIE, f"self-check obligation: {what}", holds=False)
        ctx.report(DIE + "::Die", "selfcheck-missing", "Die has no tiling self-check (no method asserts non-overlap of the region lists)")
        return
    c = canon_function(chk, ctx.model)
    # (a) inside, per element
    inside_ok = False
    overlap_ok = False
    area_ok = False
    for st in c:
        if st[0] == "for" and _all_lists(st[2]):
            v = st[1]
            asserts = [x for x in st[3] if x[0] == "assert"]
            # pairs?
            if st[2][0] == "c" and any(contains(st[2], ("g", "combinations")) for _ in [0]):
                pass
            # everything the loop body asserts about the element (one assertion of a conjunction, or one assertion per conjunct)
            conj = set()
            for a in asserts:
                conj |= set(a[1][1]) if a[1][0] == "and" else {a[1]}
            if _inside_both_corners(conj, v):
                inside_ok = True
        if st[0] == "for" and contains(st[2], ("g", "combinations")) and _all_lists(st[2]):
            comb = atoms_of(st[2], lambda x: x[0] == "c" and x[1] == ("g", "combinations"))
            if comb and len(comb[0][2]) == 2 and comb[0][2][1] == k_num(2) and st[1][0] == "tuple" and len(st[1][1]) == 2:
                a_, b_ = st[1][1]
                for x in st[3]:
                    if x[0] == "assert":
                        t = x[1]
                        if t[0] == "not" and t[1][0] == "c" and t[1][1][0] == "a" and t[1][1][2] == "overlap" and \
                                {t[1][1][1], t[1][2][0]} == {a_, b_}:
                            overlap_ok = True
        if st[0] == "assert":
            conj = set(st[1][1]) if st[1][0] == "and" else {st[1]}
            for t in conj:
                if _area_sum_test(t):
                    area_ok = True
    # nested i<j loops are an accepted alternative for (b)
    if not overlap_ok:
        overlap_ok = _nested_pairs_overlap(c)
    ctx.site(chk.where, "inside-the-die assertion over all four lists", holds=inside_ok)
    ctx.site(chk.where, "pairwise non-overlap assertion over all unordered pairs of all four lists", holds=overlap_ok)
    ctx.site(chk.where, "area-sum assertion over all four lists with a tolerance", holds=area_ok)
    if not inside_ok:
        ctx.report(chk.where, "selfcheck-inside", "the self-check does not assert that both corners of every region of all four lists lie inside the die",
                   lineno=chk.node.lineno)
    if not overlap_ok:
        ctx.report(chk.where, "selfcheck-overlap", "the self-check does not assert non-overlap for every unordered pair of regions of all four lists",
                   lineno=chk.node.lineno)
    if not area_ok:
        ctx.report(chk.where, "selfcheck-area", "the self-check does not assert |sum of region areas - die area| < tolerance over all four lists",
                   lineno=chk.node.lineno)
    # the pairwise test lets overlaps of up to the area tolerance pass (overlap() is 'area_overlap > area_epsilon'); the
    # area sum is what refuses those, so its own tolerance has to be the finer (distance-class) one
    coarse = [t for st in c if st[0] == "assert" for t in (set(st[1][1]) if st[1][0] == "and" else {st[1]})
              if _area_sum_test(t) and atoms_of(t, lambda x: x[0] == "c" and x[1][0] == "a" and x[1][2] == "area_epsilon")]
    ctx.site(chk.where, "area-sum tolerance is finer than the tolerance of the pairwise overlap test", coarse=len(coarse))
    # ... and it is an area: a distance tolerance alone (absolute, ~1e-11 x the short side) is below the rounding error of
    # the area sum once the die is large (70000.7 x 10000.1), and a valid die would be rejected
    area_tests = [t for st in c if st[0] == "assert" for t in (set(st[1][1]) if st[1][0] == "and" else {st[1]}) if _area_sum_test(t)]
    for t in area_tests:
        eps_a, len_a = _area_bound_atoms(t)
        ctx.site(chk.where, "area-sum tolerance has the dimension of an area (distance tolerance x a side of the die)", tolerance=[show(x) for x in eps_a], scaled_by=[show(x) for x in len_a])
        if not len_a and not atoms_of(t, lambda x: x[0] == "c" and x[1][0] == "a" and x[1][2] == "area_epsilon"):
            ctx.report(chk.where, "selfcheck-area-dimension " + show(t)[:140], "the area sum is compared with a bare distance tolerance: for a die with large coordinates the "
                       "rounding error of the sum exceeds it and a valid description is rejected", lineno=chk.node.lineno)
    if coarse:
        ctx.report(chk.where, "selfcheck-area-tolerance", "the area-sum assertion uses the area tolerance, the very slack the pairwise overlap test already "
                   "grants: a thin real overlap (below area_epsilon) passes both checks and an overlapping description is accepted", lineno=chk.node.lineno)


def _corner(v: S, corner: str, axis: str) -> S:
    return ("a", ("a", ("a", v, "bounding_box"), corner), axis)


def _inside_both_corners(conj: set, v: S) -> bool:
    # form A: die.point_inside(v.bb.ll) and die.point_inside(v.bb.ur)   (or v.is_inside(die))
    pts = set()
    for t in conj:
        if t[0] == "c" and t[1][0] == "a" and t[1][2] == "point_inside" and len(t[2]) == 1:
            a = t[2][0]
            if a == ("a", ("a", v, "bounding_box"), "ll"):
                pts.add("ll")
            if a == ("a", ("a", v, "bounding_box"), "ur"):
                pts.add("ur")
        if t[0] == "c" and t[1] == ("a", v, "is_inside"):
            pts |= {"ll", "ur"}
    if pts == {"ll", "ur"}:
        return True
    # form B: four comparisons: ll.axis >= 0 (- eps), ur.axis <= size (+ eps)
    got = set()
    for t in conj:
        neg = t[0] == "not"
        u = t[1] if neg else t
        if u[0] != "lt0":
            continue
        p = to_poly(u[1])
        for corner, axis in [("ll", "x"), ("ll", "y"), ("ur", "x"), ("ur", "y")]:
            coef = p.t.get(((_corner(v, corner, axis), 1),))
            if coef is None:
                continue
            # lower bound on ll:  not(ll < -eps)  -> neg and coef>0 ; or  (-eps - ll) < 0 ... -> not neg and coef<0
            lower = (neg and coef > 0) or (not neg and coef < 0)
            if corner == "ll" and lower:
                got.add((corner, axis))
            if corner == "ur" and not lower:
                size = "width" if axis == "x" else "height"
                if any(a[0] == "a" and a[2] in (size, "w" if axis == "x" else "h") for a in p.atoms()):
                    got.add((corner, axis))
    return len(got) == 4


def _area_sum_test(t: S) -> bool:
    neg = t[0] == "not"
    u = t[1] if neg else t
    if u[0] != "lt0":
        return False
    p = to_poly(u[1])
    absd = [a for a in p.atoms() if a[0] == "c" and a[1] == ("g", "abs")]
    if len(absd) != 1:
        return False
    coef = p.t.get(((absd[0], 1),))
    if coef is None:
        return False
    upper = (not neg and coef > 0) or (neg and coef < 0)
    if not upper:
        return False
    inner = absd[0][2][0]
    sums = atoms_of(inner, lambda x: x[0] == "c" and x[1] == ("g", "sum"))
    if not sums or not any(_all_lists(s_) and contains(s_, "area") for s_ in sums):
        return False
    if not atoms_of(inner, lambda x: x[0] == "a" and x[2] == "area" and not contains(x, ("g", "sum")) and x[1][0] != "b"):
        return False
    # the bound must be a tolerance (possibly scaled by a size of the die), not a number of the order of the die
    others = [a for a in p.atoms() if a != absd[0]]
    return bool(others) and any(is_eps_atom(a) for a in others) and all(is_eps_atom(a) or _die_length(a) for a in others)


def _die_length(a: S) -> bool:
    """a side of the die: self.width / self.height, or max / min of such"""
    if a[0] == "a" and a[2] in ("width", "height", "w", "h"):
        return True
    return a[0] == "c" and a[1] in (("g", "max"), ("g", "min")) and all(_die_length(x) for x in a[2])


def _area_bound_atoms(t: S):
    """(tolerance atoms, die-length atoms) of the bound of an area-sum test"""
    u = t[1] if t[0] == "not" else t
    p = to_poly(u[1])
    others = [a for a in p.atoms() if not (a[0] == "c" and a[1] == ("g", "abs"))]
    return [a for a in others if is_eps_atom(a)], [a for a in others if _die_length(a)]


def _nested_pairs_overlap(c: tuple) -> bool:
    for st in c:
        if st[0] == "for" and st[2][0] == "c" and st[2][1] == ("g", "range"):
            for inner in st[3]:
                if inner[0] == "for" and inner[2][0] == "c" and inner[2][1] == ("g", "range") and len(inner[2][2]) == 2 \
                        and inner[2][2][0] == (to_poly(st[1]) + to_poly(k_num(1))).to_s():
                    for x in inner[3]:
                        if x[0] == "assert" and x[1][0] == "not" and contains(x[1], "overlap") and _all_lists(x[1]):
                            return True
    return False


@rule("C01", "R7.tolerance", "TOLERANCE",
      "every acceptance comparison between computed coordinates in the self-check is tolerance-aware (mentions a "
      "tolerance or goes through overlap/touches/almost_eq): decimal coordinates such as 0.2+0.1 must not be rejected", floor=3)
def r7(ctx: Ctx) -> None:
    chk = _self_check_role(ctx)
    if chk is None:
        for _ in range(3):
            ctx.site(DIE, "no self-check to examine (reported by R2)")
        return
    n = 0
    for node, a, conj, facts in assert_conjuncts(ctx, chk):
        for t in sorted(conj, key=skey):
            n += 1
            tolerant = bool(atoms_of(t, is_eps_atom)) or any(contains(t, m) for m in ("overlap", "touches", "almost_eq"))
            exact_geo = contains(t, "point_inside") or contains(t, "is_inside") or \
                (not tolerant and (contains(t, "bounding_box") or contains(t, "area")))
            ctx.site(chk.where, "acceptance comparison is tolerance-aware", test=show(t), tolerant=tolerant)
            if exact_geo and not tolerant:
                ctx.report(chk.where, f"exact-acceptance {show(t)[:160]}",
                           "a computed coordinate is compared exactly in the acceptance path: a valid region whose border "
                           "coincides with the die border only up to round-off (0.2 + 0.1 > 0.3) is rejected",
                           lineno=a.lineno)
    ctx.require(n >= 3, "fewer self-check comparisons than confirmed")


@rule("C01", "R3.reader-obligations", "OBLIGATION",
      "the die reader refuses: non-dict root, unknown keys, missing/non-numeric/non-positive width or height, a region "
      "that is not a 5-list, a non-numeric or negative coordinate/size, an invalid tag and the ground tag", floor=9)
def r3(ctx: Ctx) -> None:
    fp = ctx.func(PARSE_DIE, "parse_yaml_die")
    fr = ctx.func(PARSE_DIE, "parse_die_rectangle")
    KW = {k: k_str(kw_value(ctx, k)) for k in ["KW_WIDTH", "KW_HEIGHT", "KW_REGIONS", "KW_GROUND", "KW_BLOCKAGE"]}
    # facts that hold whenever the YAML branch returns: use the facts at the last return
    g = ctx.cfg(fp)
    rets = [n for n in g.stmt_nodes() if isinstance(n.ast, ast.Return)]
    ctx.require(len(rets) >= 2, "parse_yaml_die: expected a shortcut return and the YAML return")
    last = max(rets, key=lambda n: n.lineno)
    facts = g.facts_at(last.id)
    tree = None
    for f in facts:
        if f[0] == "c" and f[1] == ("g", "isinstance") and f[2][1] == ("g", "dict"):
            tree = f[2][0]
    ctx.site(fp.where, "root is a dict", facts=len(facts))
    if tree is None:
        ctx.report(fp.where, "reader-root-dict", "parse_yaml_die does not refuse a root that is not a mapping", lineno=fp.node.lineno)
        return
    need = {
        "width present": ("cmp", "in", KW["KW_WIDTH"], tree),
        "height present": ("cmp", "in", KW["KW_HEIGHT"], tree),
    }
    for name, atom in need.items():
        ctx.site(fp.where, f"obligation: {name}")
        if atom not in facts:
            ctx.report(fp.where, f"reader-{name}", f"parse_yaml_die does not insist on: {name}", lineno=fp.node.lineno)
    cfun = canon_function(fp, ctx.model)
    shape_vars = [st[1] for st in atoms_of(cfun, lambda x: x[0] == "set" and len(x) == 3) if
                  st[2] == ("c", ("g", "Shape"), (("s", tree, KW["KW_WIDTH"]), ("s", tree, KW["KW_HEIGHT"])), ())]
    # what the statements on the main line of the normal form assert holds at the final return as well (there the
    # locals that only name a value are looked through: Shape(w, h).w is w)
    nf_facts = set()
    for st in cfun:
        if st[0] == "assert":
            nf_facts |= set(st[1][1]) if st[1][0] == "and" else {st[1]}
    for dim, key in [("w", "KW_WIDTH"), ("h", "KW_HEIGHT")]:
        vals = [("s", tree, KW[key])] + [("a", v, dim) for v in shape_vars]
        ctx.site(fp.where, f"obligation: {key} numeric and > 0")
        num = any(("c", ("g", "is_number"), (val,), ()) in facts or ("c", ("g", "is_number"), (val,), ()) in nf_facts for val in vals)
        pos = any(mk_lt(k_num(0), val) in facts or mk_lt(k_num(0), val) in nf_facts for val in vals)
        if not num:
            ctx.report(fp.where, f"reader-{key}-numeric", f"the die {key[3:].lower()} is not checked to be a number", lineno=fp.node.lineno)
        if not pos:
            ctx.report(fp.where, f"reader-{key}-positive", f"the die {key[3:].lower()} is not checked to be > 0", lineno=fp.node.lineno)
    # unknown keys: an assert inside a loop over the tree
    ok_keys = False
    for node, a, conj, fs in assert_conjuncts(ctx, fp):
        loops = enclosing_loops(fp, a)
        if loops and isinstance(loops[-1], ast.For):
            for t in conj:
                kvar = g.canon().expr_store(loops[-1].target)
                if eq_constants(t, kvar) == {KW["KW_WIDTH"], KW["KW_HEIGHT"], KW["KW_REGIONS"]}:
                    it = g.canon().expr(loops[-1].iter)
                    if it == tree or it == ("c", ("a", tree, "keys"), (), ()):
                        ok_keys = True
    ctx.site(fp.where, "obligation: only width/height/regions keys")
    if not ok_keys:
        ctx.report(fp.where, "reader-unknown-keys", "parse_yaml_die does not refuse unknown keys (for every key of the document)", lineno=fp.node.lineno)
    # every region goes through the rectangle parser
    c = canon_function(fp, ctx.model)
    ctx.site(fp.where, "every listed region is parsed by the region parser")
    loops_ = atoms_of(c, lambda x: x[0] == "for")
    through = any(contains(lp[3], ("g", "parse_die_rectangle")) for lp in loops_)
    if not through:
        ctx.report(fp.where, "reader-region-loop", "regions are not all handed to parse_die_rectangle", lineno=fp.node.lineno)

    # ---- parse_die_rectangle
    facts = exit_facts(ctx, fr)
    r = ("p", 0)
    need = {
        "region is a list": ("c", ("g", "isinstance"), (r, ("g", "list")), ()),
        "region has 5 entries": mk_eq(("c", ("g", "len"), (r,), ()), k_num(5)),
        "tag is a string": ("c", ("g", "isinstance"), (("s", r, k_num(4)), ("g", "str")), ()),
        "ground tag refused": ("cmp", "sne", *sorted([("s", r, k_num(4)), KW["KW_GROUND"]], key=skey)),
    }
    for name, atom in need.items():
        ctx.site(fr.where, f"obligation: {name}")
        if atom not in facts:
            ctx.report(fr.where, f"reader-{name}", f"parse_die_rectangle does not insist on: {name}", lineno=fr.node.lineno,
                       facts=facts_text(facts))
    ctx.site(fr.where, "obligation: tag is a valid identifier or the blockage tag")
    tag_ok = False
    for f in facts:
        if f[0] == "or":
            ds = set(f[1])
            if ("c", ("g", "valid_identifier"), (("s", r, k_num(4)),), ()) in ds and \
                    all(d[0] == "c" or (d[0] == "cmp" and d[1] == "seq" and ("s", r, k_num(4)) in d) for d in ds):
                allowed = {d[2] if d[3] == ("s", r, k_num(4)) else d[3] for d in ds if d[0] == "cmp"}
                if allowed <= {KW["KW_GROUND"], KW["KW_BLOCKAGE"]} and KW["KW_BLOCKAGE"] in allowed:
                    tag_ok = True
    if not tag_ok:
        ctx.report(fr.where, "reader-tag-valid", "parse_die_rectangle does not restrict the tag to valid identifiers or the blockage tag",
                   lineno=fr.node.lineno)
    # four numerics >= 0: in the normal form the loop over range(4) (or all(...) over the four fields) is one assertion per field
    cfr = canon_function(fr, ctx.model)
    nf = set()
    for st in cfr:
        if st[0] == "assert":
            nf |= set(st[1][1]) if st[1][0] == "and" else {st[1]}
    num_ok = all(("c", ("g", "is_number"), (("s", r, k_num(i)),), ()) in nf and mk_not(mk_lt(("s", r, k_num(i)), k_num(0))) in nf for i in range(4))
    ctx.site(fr.where, "obligation: x, y, w, h numeric and >= 0 (all four)")
    if not num_ok:
        ctx.report(fr.where, "reader-numeric-fields", "parse_die_rectangle does not check all four of x, y, w, h to be numbers >= 0",
                   lineno=fr.node.lineno)
    # positive size is enforced by the Rectangle constructor
    fc = ctx.func(GEOM, "Rectangle.__init__")
    pos = 0
    for node, a, conj, fs in assert_conjuncts(ctx, fc):
        for t in conj:
            if t[0] == "lt0" and (contains(t, "w") or contains(t, "h")) and any(contains(f, k_str(kw_value(ctx, "KW_SHAPE"))) for f in fs):
                pos += 1
    ctx.site(fc.where, "obligation: rectangle width and height > 0 (constructor)", asserts=pos)
    if pos < 2:
        ctx.report(fc.where, "ctor-positive-size", "Rectangle.__init__ does not refuse non-positive width or height", lineno=fc.node.lineno)


@rule("C01", "R4.descriptor-positions", "TUPLE",
      "(x, y, w, h, tag) positions agree between the die reader, the netlist rectangle reader, vector_spec and the "
      "netlist rectangle writer; regions are reported unchanged (the constructor stores the very objects it parsed) and "
      "every fixed rectangle of the netlist becomes a fixed region (none filtered out)", floor=5)
def r4(ctx: Ctx) -> None:
    r = ("p", 0)

    def idx(i):
        return ("s", r, k_num(i))
    for rel, q in [(PARSE_DIE, "parse_die_rectangle"), (GEOM, "parse_yaml_rectangle")]:
        f = ctx.func(rel, q)
        from .common import unversion
        c = unversion(canon_function(f, ctx.model), 0)      # parse_yaml_rectangle first coerces r = tuple(r)
        pt = ("c", ("g", "Point"), (idx(0), idx(1)), ())
        sh = ("c", ("g", "Shape"), (idx(2), idx(3)), ())
        ctx.site(f.where, "centre = (r[0], r[1]); shape = (r[2], r[3]); tag = r[4]")
        ok = contains(c, pt) and contains(c, sh)
        dicts = atoms_of(c, lambda x: x[0] == "dict") + atoms_of(c, lambda x: x[0] == "c" and x[1] == ("g", "Rectangle"))
        tag_ok = any(contains(d, idx(4)) for d in dicts) or contains(c, ("set", ("s", ("v", 0), k_str("region")), idx(4))) or \
            any(st[0] == "set" and (st[2] == idx(4) or (st[2][0] == "ite" and {st[2][2], st[2][3]} == {idx(4), K_NONE}))
                and contains(st[1], k_str(kw_value(ctx, "KW_REGION"))) for st in atoms_of(c, lambda x: x[0] == "set" and len(x) == 3))
        if not ok or not tag_ok:
            ctx.report(f.where, "descriptor-read", f"{q} does not build Point(r[0], r[1]), Shape(r[2], r[3]) and region r[4]",
                       lineno=f.node.lineno)
    fv = ctx.func(GEOM, "Rectangle.vector_spec")
    cv = canon_function(fv, ctx.model)
    s_ = ("self",)
    want = ("tuple", (("a", ("a", s_, "center"), "x"), ("a", ("a", s_, "center"), "y"), ("a", ("a", s_, "shape"), "w"),
                      ("a", ("a", s_, "shape"), "h"), ("a", s_, "region")))
    ctx.site(fv.where, "vector_spec == (cx, cy, w, h, region)")
    if cv != (("ret", want),) and cv != (("ret", ("list", want[1])),):
        ctx.report(fv.where, "descriptor-vector-spec " + "; ".join(show(x) for x in cv), "vector_spec is not (center.x, center.y, shape.w, shape.h, region)",
                   lineno=fv.node.lineno)
    fw = ctx.func(YWRITE, "dump_yaml_rectangles")
    cw = canon_function(fw, ctx.model)
    ctx.site(fw.where, "netlist rectangle writer emits [cx, cy, w, h] (+ region)")
    lists = atoms_of(cw, lambda x: x[0] == "list" and len(x[1]) == 4)
    good = False
    for l in lists:
        e = l[1]
        if all(x[0] == "a" for x in e):
            v = e[0][1][1]
            if e == (("a", ("a", v, "center"), "x"), ("a", ("a", v, "center"), "y"), ("a", ("a", v, "shape"), "w"), ("a", ("a", v, "shape"), "h")):
                good = True
    if not good:
        ctx.report(fw.where, "descriptor-writer", "dump_yaml_rectangles does not emit [center.x, center.y, shape.w, shape.h]", lineno=fw.node.lineno)
    # regions reported unchanged: Die.__init__ distributes the parsed objects themselves and nothing edits them
    init = ctx.func(DIE, "Die.__init__")
    ci = canon_function(init, ctx.model)
    from framelint.canon import single_defs, deref
    defs_ = single_defs(ci)
    ctx.site(init.where, "parsed regions are stored as they are (blockage tag -> blockages, else specialised)")
    loops = [st for st in ci if st[0] == "for" and contains(deref(st[2], defs_), ("g", "parse_yaml_die"))]
    ok = False
    if len(loops) == 1:
        v = loops[0][1]
        body = loops[0][3]
        from .common import self_field
        blk = ("c", ("a", self_field(init, "_blockages"), "append"), (v,), ())
        spc = ("c", ("a", self_field(init, "_specialized_regions"), "append"), (v,), ())
        cond = mk_eq(("a", v, "region"), k_str(kw_value(ctx, "KW_BLOCKAGE")))
        ok = body in ((("expr", ("ite", cond, blk, spc)),), (("if", cond, (("expr", blk),), (("expr", spc),)),))
    fx = [st for st in ci if st[0] == "set" and st[1] == ("a", ("self",), "_fixed")]
    netl = ("p", 1)
    from framelint.canon import mk_ite
    want_fx = mk_ite(("cmp", "is", netl, K_NONE), ("list", ()), ("c", ("a", netl, "fixed_rectangles"), (), ()))
    ctx.site(init.where, "the fixed regions are all fixed rectangles of the netlist (none dropped), [] without a netlist")
    if len(fx) != 1 or deref(fx[0][2], defs_) != want_fx:
        ctx.report(init.where, "fixed-list", "the die does not take every fixed rectangle of its netlist as a fixed region: a rectangle that is filtered out is "
                   "reported as free ground (and an invalid one escapes the self-check)", lineno=init.node.lineno)
    if not ok:
        ctx.report(init.where, "region-distribution", "the constructor does not store every parsed region unchanged in exactly one of blockages / specialised regions",
                   lineno=init.node.lineno)
    # nothing in die.py writes the geometry of an existing rectangle
    n_stores = 0
    for f in ctx.model.all_functions():
        if f.module.relpath != DIE:
            continue
        for n in walk_own(f.node):
            if isinstance(n, ast.Attribute) and isinstance(n.ctx, ast.Store) and n.attr in ("center", "shape", "region", "fixed", "hard", "x", "y", "w", "h"):
                n_stores += 1
                ctx.report(f.where, f"die-edits-rectangle {ast.unparse(n)}", "die.py writes the geometry/attributes of a rectangle", lineno=n.lineno)
    ctx.site(DIE, "die.py never writes rectangle geometry/attributes", stores=n_stores)


def _die_spec(params=None) -> IndexSpec:
    s_ = ("self",)
    return IndexSpec(
        containers={("a", s_, "_x"): "X", ("a", s_, "_y"): "Y", ("a", s_, "_cells"): ("Y", "X")},
        attrs={"rmin": "Y", "rmax": "Y", "cmin": "X", "cmax": "X"},
        calls={("g", "GroundRegion"): ["Y", "Y", "X", "X", None, None], "_cell_center": ["X", "Y"],
               "_cell_inside_rectangle": ["X", "Y", None]},
        params=params or {})


@rule("C01", "R5.index-kinds", "KIND(INDEX-OF)",
      "in die.py column indices subscript only the x boundary list and the second level of the cell matrix, row "
      "indices only the y list and the first level; GroundRegion / _cell_center receive (row,row,col,col) / (col,row)", floor=7)
def r5(ctx: Ctx) -> None:
    total = 0
    for q, params in [("Die._cell_center", {0: "X", 1: "Y"}), ("Die._cell_inside_rectangle", {0: "X", 1: "Y"}),
                      ("Die._calculate_cell_matrix", {}), ("Die._find_all_ground_rectangles", {}),
                      ("Die._find_best_rectangle", {}), ("Die._expand_rectangle", {})]:
        f = ctx.func(DIE, q)
        c = canon_function(f, ctx.model)
        ty = IndexTyper(_die_spec(params))
        for st in c:
            ty.walk(st)
        total += ty.checked - ty.unknown
        ctx.site(f.where, "index kinds", uses_checked=ty.checked, unresolved=ty.unknown, mismatches=len(ty.mismatches))
        for m in ty.mismatches:
            ctx.report(f.where, f"index-kind {m.use} {show(m.expr)} wants {m.want} got {m.got}",
                       f"{q}: an index of kind {m.got} (X = column / x-boundary index, Y = row / y-boundary index) is used where a "
                       f"{m.want} index is required", lineno=f.node.lineno)
    ctx.require(total >= 40, f"fewer resolved index uses than confirmed ({total})")
    # cell matrix has one row per y-interval and one column per x-interval
    f = ctx.func(DIE, "Die._calculate_cell_matrix")
    c = canon_function(f, ctx.model)
    s_ = ("self",)
    lx = (to_poly(("c", ("g", "len"), (("a", s_, "_x"),), ())) - to_poly(k_num(1))).to_s()
    ly = (to_poly(("c", ("g", "len"), (("a", s_, "_y"),), ())) - to_poly(k_num(1))).to_s()
    ctx.site(f.where, "cell matrix: len(_y)-1 rows of len(_x)-1 columns")
    sets = [st for st in c if st[0] == "set" and st[1] == ("a", s_, "_cells")]
    ok = False
    if len(sets) == 1 and sets[0][2][0] == "comp":
        comp = sets[0][2]
        rows_iter = comp[3][0][1]
        row = comp[2][0]
        ok = rows_iter == ("c", ("g", "range"), (ly,), ()) and row == (to_poly(("list", (("k", "bool", False),))) * to_poly(lx)).to_s()
    elif len(sets) == 1 and sets[0][2][0] == "v":
        # the normal form of a comprehension that is stored: the rows are collected in a local first
        from .common import collect_of
        col = collect_of(c, sets[0][2])
        ok = col is not None and len(col) == 1 and col[0][0] == ("c", ("g", "range"), (ly,), ()) and col[0][3] == K_TRUE \
            and col[0][2] == (to_poly(("list", (("k", "bool", False),))) * to_poly(lx)).to_s()
    if not ok:
        ctx.report(f.where, "cell-matrix-shape", "the occupancy matrix is not built as (len(_y)-1) rows of (len(_x)-1) columns", lineno=f.node.lineno)


def _strip_var(block, var: S):
    """drop statements that only (re)define ``var`` and replace its uses by a placeholder"""
    out = []
    for st in block:
        if st[0] == "set" and st[1] == var:
            continue
        if st[0] == "if" and all(x[0] == "set" and x[1] == var for x in st[2]) and not st[3]:
            continue
        if st[0] in ("if",):
            out.append(("if", st[1], tuple(_strip_var(st[2], var)), tuple(_strip_var(st[3], var))))
        else:
            out.append(st)
    return Sigma(raw_subst={var: ("k", "ignored")}).apply(tuple(out))


@rule("C01", "R6.axis-mirror", "MIRROR",
      "x/y mirror symmetry of the Hanan-grid code: gather_boundaries (x part vs y part), the add-row / add-column "
      "blocks of the region expansion, the centre/size arithmetic of the chosen ground rectangle, _cell_center", floor=4)
def r6(ctx: Ctx) -> None:
    # gather_boundaries: the x part and the y part are images of each other (up to the names of the locals, the order of
    # independent statements and the order of the returned pair)
    from framelint.symm import closed_under
    fg = ctx.func(GEOM, "gather_boundaries")
    cg = canon_function(fg, ctx.model)
    ok, ca, cb = closed_under(cg, sigma_xy())
    ctx.site(fg.where, "gather_boundaries: x part and y part are mirror images", statements=len(cg))
    uses_both = contains(cg, "ll") and contains(cg, "ur") and contains(cg, ("a", ("a", ("v", 0), "ll"), "x")) is not None
    if not ok:
        d = diff_paths(ca, cb)
        ctx.report(fg.where, f"mirror[gather_boundaries] {d[0] if d else ''}", "the x part and the y part of gather_boundaries are not mirror images",
                   lineno=fg.node.lineno, differences=d)
    # anchor (a swap of the two results is symmetric too): the first result is the x one -- it is computed from the locals
    # that receive .x coordinates, the second from those that receive .y coordinates
    def axis_vars(axis):
        vs_: set = set()

        def dirty(e, extra):
            return bool(atoms_of(e, lambda x: x[0] == "a" and x[2] == axis and x[1][0] == "a" and x[1][2] in ("ll", "ur"))) or \
                any(contains(e, v) for v in vs_ | extra)

        def walk(stmts, extra):
            for st in stmts:
                if st[0] == "set" and len(st) == 3 and st[1][:1] == ("v",) and dirty(st[2], extra):
                    vs_.add(st[1])
                elif st[0] == "aug" and len(st) == 4 and st[2][:1] == ("v",) and dirty(st[3], extra):
                    vs_.add(st[2])
                elif st[0] == "expr" and st[1][0] == "c" and st[1][1][0] == "a" and st[1][1][2] in ("append", "extend", "add", "insert") \
                        and st[1][1][1][:1] == ("v",) and any(dirty(a_, extra) for a_ in st[1][2]):
                    vs_.add(st[1][1][1])
                elif st[0] == "for" and len(st) == 5:
                    lv = set(atoms_of(st[1], lambda x: x[0] == "v" and len(x) == 2))
                    walk(st[3], (extra | lv) if dirty(st[2], extra) else (extra - lv))     # loop variables carry the axis inside the loop only
                elif st[0] == "if" and len(st) == 4:
                    walk(st[2], extra)
                    walk(st[3], extra)
        for _ in range(4):
            walk(cg, set())
        return vs_
    xs_, ys_ = axis_vars("x"), axis_vars("y")
    rets = [st for st in cg if st[0] == "ret" and st[1][0] == "tuple" and len(st[1][1]) == 2]
    ctx.site(fg.where, "the first result is the x list, the second the y list", x_locals=len(xs_ - ys_), y_locals=len(ys_ - xs_))
    only_x, only_y = xs_ - ys_, ys_ - xs_
    if len(rets) != 1 or not (any(contains(rets[0][1][1][0], v) for v in only_x) and not any(contains(rets[0][1][1][0], v) for v in only_y)
                              and any(contains(rets[0][1][1][1], v) for v in only_y) and not any(contains(rets[0][1][1][1], v) for v in only_x)):
        ctx.report(fg.where, "boundary-result-order", "gather_boundaries does not return (x coordinates, y coordinates) in this order", lineno=fg.node.lineno)
    # both sides of every rectangle are gathered on each axis, the lists are sorted and de-duplicated with the tolerance
    sides = {(x[2], x[1][2]) for x in atoms_of(cg, lambda x: x[0] == "a" and x[2] in ("x", "y") and x[1][0] == "a" and x[1][2] in ("ll", "ur"))}
    ctx.site(fg.where, "gather_boundaries collects the low and the high side on both axes", sides=sorted(sides))
    if sides != {("x", "ll"), ("x", "ur"), ("y", "ll"), ("y", "ur")}:
        ctx.report(fg.where, f"boundary-sides {sorted(sides)}", "gather_boundaries does not collect both sides of every rectangle on both axes", lineno=fg.node.lineno)

    # _expand_rectangle: add-row block vs add-column block
    fe = ctx.func(DIE, "Die._expand_rectangle")
    ce = Canon(fe, ctx.model, CanonOptions()).function()
    whiles = [st for st in ce if st[0] == "while"]
    ctx.require(len(whiles) == 1, "_expand_rectangle: work-list loop not found")
    body = whiles[0][2]
    ifs = [st for st in body if st[0] == "if"]
    ctx.require(len(ifs) == 2, "_expand_rectangle: expected the add-row and the add-column blocks")
    s_ = ("self",)
    cells = ("a", s_, "_cells")
    sg = Sigma(attrs={"rmin": "cmin", "cmin": "rmin", "rmax": "cmax", "cmax": "rmax", "_x": "_y", "_y": "_x"},
               index_swap={cells},
               swap_calls={("g", "GroundRegion"): (2, 3, 0, 1, 4, 5)},
               raw_subst={("c", ("g", "len"), (cells,), ()): ("c", ("g", "len"), (("s", cells, k_num(0)),), ()),
                          ("c", ("g", "len"), (("s", cells, k_num(0)),), ()): ("c", ("g", "len"), (cells,), ())})
    # the aspect-ratio value stored in the record is normalised to >= 1 and unused for the tiling: ignore it
    ratio_vars = set()
    for blk in ifs:
        for g_ in atoms_of(blk, lambda x: x[0] == "c" and x[1] == ("g", "GroundRegion") and len(x[2]) == 6):
            ratio_vars.add(g_[2][5])
    a, b = (ifs[0],), (ifs[1],)
    for rv in ratio_vars:
        a, b = _strip_var(a, rv), _strip_var(b, rv)
    ctx.site(fe.where, "add-row block and add-column block are mirror images (stored aspect ratio ignored)")
    ia = sg.apply(a)
    if _alpha(list(ia)) != _alpha(list(b)):
        d = diff_paths(tuple(_alpha(list(ia))), tuple(_alpha(list(b))))
        ctx.report(fe.where, f"mirror[expand] {d[0] if d else ''}", "the add-row and add-column blocks of the region expansion are not mirror images",
                   lineno=fe.node.lineno, differences=d)

    # chosen ground rectangle: centre / size arithmetic closed under x<->y
    fb = ctx.func(DIE, "Die._find_best_rectangle")
    cb = canon_function(fb, ctx.model)
    rets = [st for st in cb if st[0] == "ret"]
    ctx.require(len(rets) == 1, "_find_best_rectangle: single return expected")
    sg2 = sigma_xy(attrs={"rmin": "cmin", "cmin": "rmin", "rmax": "cmax", "cmax": "rmax"})
    ctx.site(fb.where, "ground rectangle geometry closed under x<->y", expr=show(rets[0][1])[:200])
    if sg2.apply(rets[0]) != rets[0]:
        d = diff_paths(sg2.apply(rets[0]), rets[0])
        ctx.report(fb.where, f"closed[best-rectangle] {d[0] if d else ''}", "centre/size of the chosen ground rectangle are not symmetric in x and y",
                   lineno=fb.node.lineno, differences=d)
    # and it spans exactly its cells: [x[cmin], x[cmax+1]] x [y[rmin], y[rmax+1]]
    v = [a_ for a_ in atoms_of(rets[0], lambda x: x[0] == "a" and x[2] == "cmin")]
    ctx.require(bool(v), "_find_best_rectangle: region record not found in the return value")
    reg = v[0][1]
    x0 = ("s", ("a", s_, "_x"), ("a", reg, "cmin"))
    x1 = ("s", ("a", s_, "_x"), (to_poly(("a", reg, "cmax")) + to_poly(k_num(1))).to_s())
    pt = atoms_of(rets[0], lambda x: x[0] == "c" and x[1] == ("g", "Point"))
    sh = atoms_of(rets[0], lambda x: x[0] == "c" and x[1] == ("g", "Shape"))
    ctx.site(fb.where, "ground rectangle spans x[cmin] .. x[cmax+1]")
    good = len(pt) == 1 and len(sh) == 1 and \
        to_poly(pt[0][2][0]).t == ((to_poly(x0) + to_poly(x1)).scale(__import__("fractions").Fraction(1, 2))).t and \
        to_poly(sh[0][2][0]).t == (to_poly(x1) - to_poly(x0)).t
    if not good:
        ctx.report(fb.where, "best-rectangle-span", "the chosen ground rectangle does not span exactly x[cmin]..x[cmax+1]", lineno=fb.node.lineno)
    check_closed(ctx, ctx.func(DIE, "Die._cell_center"), sigma_xy(params={0: 1, 1: 0}), "sigma_xy+param swap")


def _sort_independent_sets(block):
    """order runs of adjacent, mutually independent ``v = e`` statements canonically (by e with variables anonymised)"""
    def anon(x):
        if isinstance(x, tuple):
            if len(x) == 2 and x[0] == "v":
                return ("v", "?")
            return tuple(anon(y) for y in x)
        return x
    out, run = [], []

    def flush():
        run.sort(key=lambda st: skey(anon(st[2])))
        out.extend(run)
        run.clear()
    for st in block:
        if isinstance(st, tuple) and st and st[0] == "set" and len(st) == 3 and st[1][0] == "v" and \
                not any(contains(st[2], r[1]) for r in run) and not any(contains(r[2], st[1]) for r in run) and \
                not any(r[1] == st[1] for r in run):
            run.append(st)
            continue
        flush()
        if isinstance(st, tuple) and st and st[0] == "if":
            out.append(("if", st[1], tuple(_sort_independent_sets(st[2])), tuple(_sort_independent_sets(st[3]))))
        elif isinstance(st, tuple) and st and st[0] in ("for",):
            out.append(("for", st[1], st[2], tuple(_sort_independent_sets(st[3])), tuple(_sort_independent_sets(st[4]))))
        else:
            out.append(st)
    flush()
    return out


def _alpha(stmts) -> list:
    """re-number ('v', k) variables by first occurrence (after an involution changed the statement order)"""
    stmts = _sort_independent_sets(list(stmts))
    mapping: dict = {}

    def rec(x):
        if isinstance(x, tuple):
            if len(x) == 2 and x[0] == "v" and isinstance(x[1], int):
                if x not in mapping:
                    mapping[x] = ("v", len(mapping))
                return
            for y in x:
                rec(y)
    for s_ in stmts:
        rec(s_)
    sg = Sigma(raw_subst=mapping)
    return [sg.apply(s_) for s_ in stmts]


@rule("C01", "R8.cell-occupancy", "TOLERANCE/GUARD",
      "a cell of the Hanan grid is marked occupied exactly when its centre lies in a blockage, specialised or fixed region "
      "(robust against round-off); coordinates are never looked up exactly (bisect / index / ==) in the tolerance-merged "
      "boundary lists", floor=2)
def r8(ctx: Ctx) -> None:
    f = ctx.func(DIE, "Die._calculate_cell_matrix")
    c = canon_function(f, ctx.model)
    s_ = ("self",)
    src = (to_poly(("a", s_, "blockages")) + to_poly(("a", s_, "fixed_regions")) + to_poly(("a", s_, "specialized_regions"))).to_s()
    marks = atoms_of(c, lambda x: x[0] == "set" and len(x) == 3 and x[1][0] == "s" and x[1][1][0] == "s" and x[1][1][1] == ("a", s_, "_cells") and x[2] == ("k", "bool", True))
    loops = atoms_of(c, lambda x: x[0] == "for" and len(x) == 5 and x[2] == src)
    ctx.site(f.where, "cell marked occupied iff its centre is inside a region of any of the three input lists", marks=len(marks), region_loops=len(loops))
    ok = False
    for lp in loops:
        r = lp[1]
        for st in lp[3]:
            if st[0] == "if" and st[1][0] == "c" and st[1][1] == ("a", r, "point_inside") and len(st[1][2]) == 1 and st[1][2][0][0] == "c" \
                    and st[1][2][0][1] == ("a", s_, "_cell_center") and len(st[2]) == 1 and st[2][0] in marks and st[3] == ():
                i, j = st[1][2][0][2]
                if st[2][0][1] == ("s", ("s", ("a", s_, "_cells"), j), i):
                    ok = True
    if not ok:
        # the same filling written as one assignment: cells[j][i] = any(region.point_inside(cell centre) for region in the three lists)
        anys = atoms_of(c, lambda x: x[0] == "set" and len(x) == 3 and x[1][0] == "s" and x[1][1][0] == "s" and x[1][1][1] == ("a", s_, "_cells")
                        and x[2][0] == "c" and x[2][1] == ("g", "any") and len(x[2][2]) == 1 and x[2][2][0][0] == "comp")
        for st in anys:
            comp = st[2][2][0]
            if len(comp[3]) == 1 and comp[3][0][1] == src and comp[3][0][2] == K_TRUE:
                bv = comp[3][0][0]
                e_ = comp[2][0]
                if e_[0] == "c" and e_[1] == ("a", bv, "point_inside") and len(e_[2]) == 1 and e_[2][0][0] == "c" and e_[2][0][1] == ("a", s_, "_cell_center"):
                    i, j = e_[2][0][2]
                    if st[1] == ("s", ("s", ("a", s_, "_cells"), j), i) and len(anys) == 1 and not marks:
                        ok = True
                        marks = [st]
        # ... or as 'if any(region.point_inside(cell centre) for region in the three lists): cells[j][i] = True'
        for st in atoms_of(c, lambda x: x[0] == "if" and len(x) == 4 and not x[3] and x[1][0] == "c" and x[1][1] == ("g", "any") and len(x[2]) == 1 and x[2][0] in marks):
            comp = st[1][2][0]
            if comp[0] == "comp" and len(comp[3]) == 1 and comp[3][0][1] == src and comp[3][0][2] == K_TRUE:
                bv = comp[3][0][0]
                e_ = comp[2][0]
                if e_[0] == "c" and e_[1] == ("a", bv, "point_inside") and len(e_[2]) == 1 and e_[2][0][0] == "c" and e_[2][0][1] == ("a", s_, "_cell_center"):
                    i, j = e_[2][0][2]
                    if st[2][0][1] == ("s", ("s", ("a", s_, "_cells"), j), i):
                        ok = True
    if not ok or len(marks) != 1:
        ctx.report(f.where, "cell-occupancy", "the occupancy matrix is not filled by 'region.point_inside(cell centre)' over blockages + specialised + fixed regions: "
                   "any exact comparison against the merged boundary lists misplaces regions whose sides differ by round-off (0.15 + 0.15 vs 0.4 - 0.1)", lineno=f.node.lineno)
    n = 0
    for g in ctx.model.all_functions():
        if g.module.relpath != DIE:
            continue
        n += 1
        for x in walk_own(g.node):
            bad = None
            if isinstance(x, ast.Call):
                nm = call_name(x)
                if nm.startswith("bisect") or nm in ("index", "searchsorted"):
                    args = [ast.unparse(a) for a in x.args] + ([ast.unparse(x.func.value)] if isinstance(x.func, ast.Attribute) else [])
                    if any(a in ("self._x", "self._y") for a in args):
                        bad = x
            if isinstance(x, ast.Compare) and any(isinstance(o, (ast.Eq, ast.NotEq, ast.In, ast.NotIn)) for o in x.ops):
                txt = ast.unparse(x)
                if "self._x" in txt or "self._y" in txt:
                    bad = x
            if bad is not None:
                ctx.report(g.where, f"exact-grid-lookup {ast.unparse(bad)[:80]}", f"{g.qualname} looks a coordinate up exactly in the tolerance-merged boundary lists: "
                           "a side that differs from the kept representative by round-off lands one grid line off", lineno=bad.lineno)
    ctx.site(DIE, "no exact lookup (bisect/index/==/in) of coordinates in _x / _y", functions=n)



@rule("C01", "R9.geometry-primitives", "SHARED(C18)",
      "the geometric tests the die's self-check and cell marking are built from are the exact ones: Rectangle.overlap / area_overlap / area / bounding_box / point_inside satisfy the C18 rules (symmetries, strictness conventions, overlap-area identity, containment definition) -- evaluated here for the helpers the die calls", floor=8)
def shared_geometry(ctx: Ctx) -> None:
    from . import C18 as _c18
    from .common import support
    support(ctx, [_c18.r1, _c18.r2, _c18.r3, _c18.r4, _c18.r6, _c18.r7], {"Rectangle.overlap", "Rectangle.area_overlap", "Rectangle.area", "Rectangle.bounding_box", "Rectangle.point_inside"})


@rule("C01", "R10.fixed-flag-reaches-the-die", "SHARED(C05)",
      "the regions of fixed modules are reported by the die because the rectangles the reader builds carry the module's fixed / hard "
      "flags in every spelling of the rectangle list (flat [x, y, w, h] as well as nested) and on later re-assignment: "
      "Netlist.fixed_rectangles(), from which the die takes them, selects on that flag -- the C05 flag-propagation rule, for the "
      "functions the die's input passes through", floor=2)
def shared_flags(ctx: Ctx) -> None:
    from . import C05 as _c05
    from .common import support
    support(ctx, [_c05.r4], {"parse_yaml_rectangles", "Netlist.assign_rectangles"})


@rule("C01", "R11.no-exact-geometric-rejection", "WHO-MAY-REJECT",
      "a valid description is never rejected for round-off: the only geometric judgement on the regions of a die is the "
      "tolerance-aware self-check (R2 / R7); the die reader and the Die class do not assert or branch on the exact, "
      "tolerance-free containment predicate Rectangle.is_inside (centre +/- half-size of a region flush with the border "
      "rounds past it: 0.2 + 0.1 > 0.3) -- seeded change C01-9", floor=1)
def r11_no_exact_rejection(ctx: Ctx) -> None:
    EXACT = {"is_inside"}
    n = 0
    for f in ctx.model.all_functions(include_inlined=True):
        if f.module.relpath not in (PARSE_DIE, DIE):
            continue
        for st in walk_own(f.node):
            test = st.test if isinstance(st, (ast.Assert, ast.If, ast.While, ast.IfExp)) else None
            if test is None:
                continue
            n += 1
            for c in ast.walk(test):
                if isinstance(c, ast.Call) and isinstance(c.func, ast.Attribute) and c.func.attr in EXACT:
                    ctx.report(f.where, f"exact-containment {norm_stmt(c)[:50]}", f"{f.qualname} judges a region with the tolerance-free predicate "
                               f"'{ast.unparse(c)[:60]}': a valid region flush with the border of the die is rejected when centre + half-size rounds "
                               "past it", lineno=c.lineno)
    ctx.site(f"{PARSE_DIE}::parse_yaml_die", "tests of the die reader and the Die class use no tolerance-free containment predicate", tests=n)
    ctx.require(n >= 10, f"tests in the die reader / Die class fewer than confirmed ({n})")
